// C10 demo: a time tag with the (float-representable) fraction 0.5 s, printed with
// lossless = false and precision 0.  Unchanged code prints "... 06:24:00.5" and scans it back.
#include <rtosc/rtosc.h>
#include <rtosc/arg-val.h>
#include <rtosc/arg-val-cmp.h>
#include <rtosc/pretty-format.h>
#include <stdio.h>
#include <string.h>
#include <signal.h>
#include <unistd.h>
#include <stdlib.h>

static void on_segv(int s) { (void)s; const char m[] = "FAIL: crash while printing\n"; if(write(1, m, sizeof(m)-1)){} _exit(1); }

int main(void)
{
    setenv("TZ", "UTC", 1);
    signal(SIGSEGV, on_segv);
    rtosc_arg_val_t in[1];
    memset(in, 0, sizeof(in));
    in[0].type = 't';
    in[0].val.t = ((uint64_t)0x5a000000 << 32) | 0x80000000u;   // 2017-11-06 06:24:00 + 0.5 s
    rtosc_print_options opt = { false, 0, " ", 80, true };
    char text[256];
    size_t ret = rtosc_print_arg_vals(in, 1, text, sizeof(text), &opt, 0);
    printf("printed: %s\n", text);
    if(ret != strlen(text)) { puts("FAIL: returned length"); return 1; }
    if(rtosc_count_printed_arg_vals(text) != 1) { puts("FAIL: count"); return 1; }
    rtosc_arg_val_t out[1];
    char strbuf[64];
    size_t rd = rtosc_scan_arg_vals(text, out, 1, strbuf, sizeof(strbuf));
    if(rd != strlen(text)) { puts("FAIL: not all consumed"); return 1; }
    printf("scanned: %016llx (original %016llx)\n", (unsigned long long)out[0].val.t, (unsigned long long)in[0].val.t);
    if(out[0].type != 't' || out[0].val.t != in[0].val.t) { puts("FAIL: value differs"); return 1; }
    puts("OK");
    return 0;
}
