// C10 demo: "the same holds for whole messages (address plus arguments)"
#include <rtosc/rtosc.h>
#include <rtosc/arg-val.h>
#include <rtosc/arg-val-cmp.h>
#include <rtosc/pretty-format.h>
#include <stdio.h>
#include <string.h>

static int roundtrip(const char* address)
{
    rtosc_arg_val_t in[2];
    memset(in, 0, sizeof(in));
    in[0].type = 'i'; in[0].val.i = 42;
    in[1].type = 's'; in[1].val.s = "text";
    rtosc_print_options opt = { true, 2, " ", 80, true };
    char text[256];
    size_t ret = rtosc_print_message(address, in, 2, text, sizeof(text), &opt, 0);
    printf("printed: %s\n", text);
    if(ret != strlen(text)) { puts("FAIL: returned length"); return 1; }
    int n = rtosc_count_printed_arg_vals_of_msg(text);
    printf("count = %d\n", n);
    if(n != 2) { puts("FAIL: the checker does not report 2 values"); return 1; }
    rtosc_arg_val_t out[2];
    char strbuf[256], adr[128];
    size_t rd = rtosc_scan_message(text, adr, sizeof(adr), out, 2, strbuf, sizeof(strbuf));
    if(rd != strlen(text)) { puts("FAIL: not all consumed"); return 1; }
    if(strcmp(adr, address)) { puts("FAIL: address differs"); return 1; }
    if(!rtosc_arg_vals_eq(in, out, 2, 2, NULL)) { puts("FAIL: values differ"); return 1; }
    return 0;
}

int main(void)
{
    // printable, non-blank characters that are not reserved by the OSC address syntax
    int bad = roundtrip("/mixer/ch:3/gain+1") | roundtrip("/fx/send@bus") | roundtrip("/a=b/50%");
    puts(bad ? "FAIL" : "OK");
    return bad;
}
