// C10 demo: a blob of 100 bytes must survive print -> check -> scan
#include <rtosc/rtosc.h>
#include <rtosc/arg-val.h>
#include <rtosc/arg-val-cmp.h>
#include <rtosc/pretty-format.h>
#include <stdio.h>
#include <string.h>
#include <stdlib.h>

int main(void)
{
    static uint8_t data[100];
    for(int i = 0; i < 100; ++i) data[i] = (uint8_t)(i * 7 + 1);
    rtosc_arg_val_t in[1];
    memset(in, 0, sizeof(in));
    in[0].type = 'b';
    in[0].val.b.len = 100;
    in[0].val.b.data = data;

    rtosc_print_options opt = { true, 2, " ", 80, true };
    static char text[8192];
    size_t ret = rtosc_print_arg_vals(in, 1, text, sizeof(text), &opt, 0);
    printf("printed (%zu, strlen %zu): %.40s...\n", ret, strlen(text), text);
    if(ret != strlen(text)) { puts("FAIL: returned length != text length"); return 1; }
    int n = rtosc_count_printed_arg_vals(text);
    printf("count = %d\n", n);
    if(n != 1) { puts("FAIL: the checker does not accept the printed text as 1 value"); return 1; }
    rtosc_arg_val_t out[1];
    static char strbuf[8192];
    size_t rd = rtosc_scan_arg_vals(text, out, 1, strbuf, sizeof(strbuf));
    if(rd != strlen(text)) { puts("FAIL: scanner did not consume the whole text"); return 1; }
    if(out[0].type != 'b' || out[0].val.b.len != 100 || memcmp(out[0].val.b.data, data, 100))
    { puts("FAIL: scanned blob differs"); return 1; }
    if(!rtosc_arg_vals_eq(in, out, 1, 1, NULL)) { puts("FAIL: rtosc_arg_vals_eq"); return 1; }
    puts("OK");
    return 0;
}
