#!/bin/sh
# usage: run.sh <tree>   (tree must have been built: cmake -B _build && cmake --build _build)
set -e
T="$1"; D="$(cd "$(dirname "$0")" && pwd)"
cc -std=gnu99 -DNDEBUG -I"$T/include" "$D/demo.c" "$T/_build/librtosc-cpp.a" "$T/_build/librtosc.a" -lm -o "$D/demo.bin"
TZ=UTC "$D/demo.bin"
