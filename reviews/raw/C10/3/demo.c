// C10 demo: "the scanned values equal the originals exactly" (compared bitwise):
// a 'T' argument value carries val.T = 1 (rtosc_arg_val_itr_get, rtosc_arg_val_from_int, ...)
#include <rtosc/rtosc.h>
#include <rtosc/arg-val.h>
#include <rtosc/arg-val-cmp.h>
#include <rtosc/arg-val-math.h>
#include <rtosc/pretty-format.h>
#include <stdio.h>
#include <string.h>

int main(void)
{
    rtosc_arg_val_t in[3];
    memset(in, 0, sizeof(in));
    in[0].type = 'T'; in[0].val.T = 1;
    in[1].type = 'F'; in[1].val.T = 0;
    in[2].type = 'T'; in[2].val.T = 1;
    rtosc_print_options opt = { true, 2, " ", 80, true };
    char text[256];
    size_t ret = rtosc_print_arg_vals(in, 3, text, sizeof(text), &opt, 0);
    printf("printed: %s\n", text);
    if(ret != strlen(text)) { puts("FAIL: returned length"); return 1; }
    if(rtosc_count_printed_arg_vals(text) != 3) { puts("FAIL: count"); return 1; }
    rtosc_arg_val_t out[3];
    memset(out, 0, sizeof(out));          // like a caller that calloc()s the cell array
    char strbuf[64];
    size_t rd = rtosc_scan_arg_vals(text, out, 3, strbuf, sizeof(strbuf));
    if(rd != strlen(text)) { puts("FAIL: not all consumed"); return 1; }
    int bad = 0;
    for(int i = 0; i < 3; ++i)
    {
        int res = -1;
        rtosc_arg_val_to_int(out + i, &res);   // reads val.T
        printf("arg %d: type %c  val.T %d  to_int %d   (original val.T %d)\n",
               i, out[i].type, (int)out[i].val.T, res, (int)in[i].val.T);
        if(out[i].type != in[i].type || out[i].val.T != in[i].val.T || res != (in[i].type == 'T'))
            bad = 1;
    }
    puts(bad ? "FAIL: scanned booleans differ from the originals" : "OK");
    return bad;
}
