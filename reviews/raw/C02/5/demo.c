/* C02 reviewer seed 5: a message with more than 32 payload arguments through the variadic path
 * (C02's generator: at most 24 tags).  40 ints: "/a" 4 + ",iiii...(40)" 44 + 160 = 208 bytes. */
#include <rtosc/rtosc.h>
#include <stdio.h>
#include <string.h>
#include <stdlib.h>
#define I10 1,2,3,4,5,6,7,8,9,10

int main(void)
{
    int bad = 0;
    char tags[41];
    memset(tags, 'i', 40); tags[40] = 0;
    const size_t need = 4 + 44 + 160;
    size_t z = rtosc_message(NULL, 0, "/a", tags, I10, I10, I10, I10);
    if(z != need) { printf("NULL buffer: returned %zu, the encoding has %zu bytes\n", z, need); bad = 1; }
    for(size_t cap = need - 8; cap <= need + 8; ++cap) {
        unsigned char *area = malloc(cap + 16);
        memset(area, 0xAA, cap);
        memset(area + cap, 0xC5, 16);
        size_t ret = rtosc_message((char*)area, cap, "/a", tags, I10, I10, I10, I10);
        for(int g = 0; g < 16; ++g)
            if(area[cap + g] != 0xC5) { printf("cap %zu: guard overwritten\n", cap); bad = 1; break; }
        if(cap < need) {
            if(ret != 0) { printf("cap %zu: returned %zu instead of 0\n", cap, ret); bad = 1; }
            for(size_t i = 0; i < cap; ++i)
                if(area[i]) { printf("cap %zu: not zero-filled after failure\n", cap); bad = 1; break; }
        } else {
            if(ret != need) { printf("cap %zu >= %zu: returned %zu\n", cap, need, ret); bad = 1; }
            if(ret == 0)
                for(size_t i = 0; i < cap; ++i)
                    if(area[i]) { printf("cap %zu: returned 0 but the buffer is not zero-filled\n", cap); bad = 1; break; }
        }
        free(area);
    }
    printf(bad ? "C02 VIOLATED\n" : "ok\n");
    return bad;
}
