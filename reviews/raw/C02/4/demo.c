/* C02 reviewer seed 4: NULL buffer together with a non-zero len ("returns the size it needs" holds
 * for every len; the C02 harness only ever calls (NULL, 0)). */
#include <rtosc/rtosc.h>
#include <stdio.h>
#include <signal.h>
#include <unistd.h>

static void on_segv(int s) { (void)s; const char m[] = "crashed writing through the NULL buffer\nC02 VIOLATED\n"; write(1, m, sizeof(m) - 1); _exit(1); }

int main(void)
{
    signal(SIGSEGV, on_segv);
    int bad = 0;
    rtosc_arg_t a[2];
    a[0].s = "hello";
    a[1].i = 7;
    size_t lens[] = {0, 1, 8, 19, 20, 21, 128, 8192};
    for(unsigned k = 0; k < sizeof(lens) / sizeof(*lens); ++k) {
        size_t r1 = rtosc_amessage(NULL, lens[k], "/ab", "si", a);
        size_t r2 = rtosc_message(NULL, lens[k], "/ab", "si", "hello", 7);
        if(r1 != 20 || r2 != 20) { printf("NULL buffer, len %zu: returned %zu / %zu, needed 20\n", lens[k], r1, r2); bad = 1; }
    }
    printf(bad ? "C02 VIOLATED\n" : "ok\n");
    return bad;
}
