/* C02 reviewer seed 1: rtosc_message() (the variadic entry point itself) must not store outside
 * [buffer, buffer+len).  Every capacity 0..needed+4 of a block followed by guard bytes. */
#include <rtosc/rtosc.h>
#include <stdio.h>
#include <string.h>
#include <stdlib.h>

int main(void)
{
    int bad = 0;
    size_t need = rtosc_message(NULL, 0, "/ab", "i", 7);
    if(need != 12) { printf("NULL size %zu, expected 12\n", need); bad = 1; }
    for(size_t cap = 0; cap <= need + 4; ++cap) {
        unsigned char *area = malloc(cap + 16);
        memset(area, 0xAA, cap);
        memset(area + cap, 0xC5, 16);
        size_t ret = rtosc_message((char*)area, cap, "/ab", "i", 7);
        for(int g = 0; g < 16; ++g)
            if(area[cap + g] != 0xC5) {
                printf("cap %zu: guard byte %d behind the buffer overwritten with 0x%02x (ret %zu)\n",
                       cap, g, area[cap + g], ret);
                bad = 1;
                break;
            }
        if(cap < need) {
            if(ret != 0) { printf("cap %zu: returned %zu instead of 0\n", cap, ret); bad = 1; }
            for(size_t i = 0; i < cap; ++i)
                if(area[i]) { printf("cap %zu: not zero-filled after failure\n", cap); bad = 1; break; }
        } else if(ret != need) { printf("cap %zu: returned %zu instead of %zu\n", cap, ret, need); bad = 1; }
        free(area);
    }
    printf(bad ? "C02 VIOLATED\n" : "ok\n");
    return bad;
}
