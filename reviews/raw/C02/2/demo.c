/* C02 reviewer seed 2: rtosc_bundle with MORE THAN 8 elements (the C02/C08 harnesses have literal
 * call sites for 0..8 elements only).  Nine 12-byte messages need 16 + 9*16 = 160 bytes. */
#include <rtosc/rtosc.h>
#include <stdio.h>
#include <string.h>
#include <stdlib.h>

int main(void)
{
    char m[9][16];
    int bad = 0;
    for(int i = 0; i < 9; ++i)
        if(rtosc_message(m[i], 16, "/el", "i", i) != 12) return 2;
    const size_t need = 16 + 9 * (4 + 12);
    for(size_t cap = 0; cap <= need + 8; ++cap) {
        unsigned char *area = malloc(cap + 64);
        memset(area, 0xAA, cap);
        memset(area + cap, 0xC5, 64);
        size_t ret = rtosc_bundle((char*)area, cap, 1, 9, m[0], m[1], m[2], m[3], m[4], m[5], m[6], m[7], m[8]);
        for(int g = 0; g < 64; ++g)
            if(area[cap + g] != 0xC5) {
                printf("cap %zu: guard byte %d behind the buffer overwritten (ret %zu)\n", cap, g, ret);
                bad = 1;
                break;
            }
        if(ret > cap) { printf("cap %zu: returned %zu > len\n", cap, ret); bad = 1; }
        if(cap < need) {
            if(ret != 0) { printf("cap %zu: returned %zu instead of 0\n", cap, ret); bad = 1; }
            else for(size_t i = 0; i < cap; ++i)
                if(area[i]) { printf("cap %zu: not zero-filled after failure\n", cap); bad = 1; break; }
        } else if(ret != need) { printf("cap %zu: returned %zu instead of %zu\n", cap, ret, need); bad = 1; }
        free(area);
        if(bad) break;
    }
    printf(bad ? "C02 VIOLATED\n" : "ok\n");
    return bad;
}
