#!/bin/sh
# usage: run.sh <tree>   (tree must have been built: <tree>/_build/librtosc.a)
set -e
T=${1:?usage: run.sh <tree>}
D=$(cd "$(dirname "$0")" && pwd)
O=$(mktemp -d)
cc -O0 -g -I"$T/include" "$D/demo.c" "$T/_build/librtosc-cpp.a" "$T/_build/librtosc.a" -lstdc++ -lm -o "$O/demo"
set +e
"$O/demo"; rc=$?
rm -rf "$O"
exit $rc
