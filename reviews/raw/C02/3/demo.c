/* C02 reviewer seed 3: an address longer than 255 bytes (C02's generator: at most 64).
 * Every capacity around the needed size, via rtosc_amessage and rtosc_vmessage (through rtosc_message). */
#include <rtosc/rtosc.h>
#include <stdio.h>
#include <string.h>
#include <stdlib.h>

static int sweep(int variadic, const char *addr, size_t need)
{
    int bad = 0;
    rtosc_arg_t a[1];
    a[0].i = 7;
    size_t z = variadic ? rtosc_message(NULL, 0, addr, "i", 7) : rtosc_amessage(NULL, 0, addr, "i", a);
    int nullbad = 0;
    if(z != need) { printf("NULL buffer: returned %zu, the encoding has %zu bytes\n", z, need); nullbad = 1; }
    int stop = 0;
    for(size_t cap = 0; cap <= need + 8 && !stop; ++cap) {
        unsigned char *area = malloc(cap + 64);
        memset(area, 0xAA, cap);
        memset(area + cap, 0xC5, 64);
        size_t ret = variadic ? rtosc_message((char*)area, cap, addr, "i", 7)
                              : rtosc_amessage((char*)area, cap, addr, "i", a);
        for(int g = 0; g < 64; ++g)
            if(area[cap + g] != 0xC5) {
                printf("cap %zu: guard byte %d behind the buffer overwritten (ret %zu)\n", cap, g, ret);
                bad = 1;
                break;
            }
        if(ret > cap) { printf("cap %zu: returned %zu > len\n", cap, ret); bad = 1; }
        if(cap < need) {
            if(ret != 0) { printf("cap %zu: returned %zu instead of 0\n", cap, ret); bad = 1; }
            else for(size_t i = 0; i < cap; ++i)
                if(area[i]) { printf("cap %zu: not zero-filled after failure\n", cap); bad = 1; break; }
        } else if(ret != need) { printf("cap %zu: returned %zu instead of %zu\n", cap, ret, need); bad = 1; }
        free(area);
        stop = bad;
    }
    return bad | nullbad;
}

int main(void)
{
    char addr[301];
    addr[0] = '/';
    memset(addr + 1, 'a', 299);
    addr[300] = 0;                       /* 300 bytes: padded 304, ",i" 4, int 4 -> 312 */
    int bad = sweep(0, addr, 312) | sweep(1, addr, 312);
    printf(bad ? "C02 VIOLATED\n" : "ok\n");
    return bad;
}
