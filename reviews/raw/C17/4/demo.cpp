// C17: lookup/find of a key that no entry has yields nothing / false.  No entry's key can start with ':'
// (the ':' is the entry separator), so ":min" is absent from every block.
#include <rtosc/ports.h>
#include <cstdio>
#include <cstring>
using namespace rtosc;
static int fails = 0;
static void expect_str(const char *what, const char *got, const char *exp) {
    bool ok = (got == NULL && exp == NULL) || (got && exp && !strcmp(got, exp));
    if(!ok) { ++fails; printf("FAIL %s: got %s expected %s\n", what, got ? got : "(null)", exp ? exp : "(null)"); }
}
static void expect_bool(const char *what, bool got, bool exp) {
    if(got != exp) { ++fails; printf("FAIL %s: got %d expected %d\n", what, got, exp); }
}
int main() {
    Port p = {"p", ":parameter\0:min\0=0\0:max\0=127\0", NULL, nullptr};
    expect_str("meta[\"min\"]", p.meta()["min"], "0");
    expect_str("meta[\":min\"] (absent)", p.meta()[":min"], NULL);
    expect_bool("find(\":parameter\") (absent)", (bool)p.meta().find(":parameter"), false);
    expect_bool("find(\"parameter\")", (bool)p.meta().find("parameter"), true);
    // what is iterated must be what lookup sees: no iterated title equals ":min"
    bool seen = false;
    for(const auto x : p.meta()) if(!strcmp(x.title, ":min")) seen = true;
    expect_bool("iteration yields a title \":min\"", seen, false);
    printf("%d failure(s)\n", fails);
    return fails ? 1 : 0;
}
