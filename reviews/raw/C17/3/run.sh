#!/bin/sh
# usage: run.sh <tree>   (tree must have been built: <tree>/_build/librtosc-cpp.a, librtosc.a)
T=${1:?usage: run.sh <tree>}
D=$(cd "$(dirname "$0")" && pwd)
O=$(mktemp -d)
g++ -std=c++11 -I"$T/include" "$D/demo.cpp" "$T/_build/librtosc-cpp.a" "$T/_build/librtosc.a" -lpthread -o "$O/demo" || exit 2
"$O/demo"; rc=$?
rm -rf "$O"
exit $rc
