// C17: meta().length() equals the block's byte length including its terminator, for blocks of any size.
#include <rtosc/ports.h>
#include <rtosc/port-sugar.h>
#include <cstdio>
#include <cstring>
using namespace rtosc;
static int fails = 0;
#define BLOCK1 rProp(parameter) rMap(min, 0) rMap(max, 127) rMap(default, 64) \
    rOptions(sine, triangle, pulse, saw, power, gauss, diode, abssine, pulsesine, stretchsine, \
             chirp, absstretchsine, chebyshev, sqr, spike, circle) \
    rDoc("Base waveform of the oscillator; the remaining parameters reshape it")
#define BLOCK2 rProp(parameter) rMap(min, 0) rMap(max, 127) rDoc("short")
static void check(const char *what, const char *block, size_t size) {
    Port p = {"p", block, NULL, nullptr};
    size_t l = p.meta().length();
    if(l != size) { ++fails; printf("FAIL %s: length() = %zu, block has %zu bytes\n", what, l, size); }
    else printf("ok   %s: %zu bytes\n", what, size);
}
int main() {
    check("small block", BLOCK2, sizeof(BLOCK2));
    check("block with 16 options", BLOCK1, sizeof(BLOCK1));
    printf("%d failure(s)\n", fails);
    return fails ? 1 : 0;
}
