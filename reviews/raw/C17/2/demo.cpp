// C17: values are arbitrary NUL-free byte strings; UTF-8 text (bytes >= 0x80) must be read back exactly.
#include <rtosc/ports.h>
#include <cstdio>
#include <cstring>
#include <string>
using namespace rtosc;
static int fails = 0;
static void expect_eq(const char *what, const std::string &got, const std::string &exp) {
    if(got != exp) { ++fails; printf("FAIL %s:\n  got      %s\n  expected %s\n", what, got.c_str(), exp.c_str()); }
}
static std::string dump(const Port &p) {
    std::string s;
    for(const auto x : p.meta()) {
        s += "["; s += x.title; s += "|"; s += x.value ? x.value : "(null)"; s += "]";
    }
    return s;
}
int main() {
    // written: unit=° (UTF-8 c2 b0), min=0, max=360
    Port p = {"angle", ":unit\0=\xc2\xb0\0:min\0=0\0:max\0=360\0", NULL, nullptr};
    expect_eq("iteration", dump(p), "[unit|\xc2\xb0][min|0][max|360]");
    const char *mx = p.meta()["max"];
    expect_eq("meta[\"max\"]", mx ? mx : "(null)", "360");
    expect_eq("find(\"min\")", p.meta().find("min") ? "present" : "absent", "present");
    // a UTF-8 byte directly before ':' inside a value, and a key containing UTF-8
    Port q = {"q", ":doc\0=Gr\xc3\xb6\xc3\x9f:e\0:gr\xc3\xb6\xc3\x9f\0=1\0:z\0", NULL, nullptr};
    expect_eq("iteration 2", dump(q), "[doc|Gr\xc3\xb6\xc3\x9f:e][gr\xc3\xb6\xc3\x9f|1][z|(null)]");
    printf("%d failure(s)\n", fails);
    return fails ? 1 : 0;
}
