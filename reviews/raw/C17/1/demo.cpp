// C17: lookup/find must be by exact key. Keys differing only in letter case are different keys.
#include <rtosc/ports.h>
#include <cstdio>
#include <cstring>
using namespace rtosc;
static int fails = 0;
static void expect_str(const char *what, const char *got, const char *exp) {
    bool ok = (got == NULL && exp == NULL) || (got && exp && !strcmp(got, exp));
    if(!ok) { ++fails; printf("FAIL %s: got %s expected %s\n", what, got ? got : "(null)", exp ? exp : "(null)"); }
}
static void expect_bool(const char *what, bool got, bool exp) {
    if(got != exp) { ++fails; printf("FAIL %s: got %d expected %d\n", what, got, exp); }
}
int main() {
    // written: Min=1, min=2, Unit (no value), unit=Hz
    Port p = {"p", ":Min\0=1\0:min\0=2\0:Unit\0:unit\0=Hz\0", NULL, nullptr};
    expect_str("meta[\"min\"]", p.meta()["min"], "2");
    expect_str("meta[\"Min\"]", p.meta()["Min"], "1");
    expect_str("meta[\"unit\"]", p.meta()["unit"], "Hz");
    expect_str("meta[\"MIN\"] (absent)", p.meta()["MIN"], NULL);
    expect_bool("find(\"MIN\") (absent)", (bool)p.meta().find("MIN"), false);
    expect_bool("find(\"UNIT\") (absent)", (bool)p.meta().find("UNIT"), false);
    expect_bool("find(\"unit\")", (bool)p.meta().find("unit"), true);
    printf("%d failure(s)\n", fails);
    return fails ? 1 : 0;
}
