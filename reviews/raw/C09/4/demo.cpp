// C09, runtime clause + dispatch clause on an rRecurs sub-tree whose name contains a digit
// ("v0x#3/"): element 1 is switched off (its table's self: port is "enabled by" on), the
// elements 0 and 2 are on.  The walk must visit v0x0/ and v0x2/ and report only the toggle
// of v0x1/; every reported address must be dispatched to the element it names.
#include <rtosc/ports.h>
#include <rtosc/port-sugar.h>
#include <rtosc/rtosc.h>
#include <cstdio>
#include <cstring>
#include <string>
#include <vector>
#undef rChangeCb
#define rChangeCb
struct Leaf { static const rtosc::Ports ports; bool on = false; int v = 0; };
struct Root { static const rtosc::Ports ports; Leaf v0x[3]; };
#define rObject Leaf
const rtosc::Ports Leaf::ports = {
    rSelf(Leaf, rEnabledBy(on)),
    rToggle(on, "switch"),
    rParamI(v, "value"),
};
#undef rObject
#define rObject Root
const rtosc::Ports Root::ports = { rRecurs(v0x, 3, "embedded") };
#undef rObject
static void cb(const rtosc::Port *, const char *name, const char *, const rtosc::Ports &, void *d, void *) {
    *(std::string *)d += name; *(std::string *)d += " ";
}
struct Set : rtosc::RtData {
    void reply(const char *, const char *, ...) override {}
    void reply(const char *) override {}
    void broadcast(const char *, const char *, ...) override {}
    void broadcast(const char *) override {}
};
int main() {
    Root r;
    r.v0x[0].on = true; r.v0x[1].on = false; r.v0x[2].on = true;
    char buf[1024];
    memset(buf, 0, sizeof buf);
    std::string got;
    rtosc::walk_ports(&Root::ports, buf, sizeof buf, &got, cb, true, &r, false);
    printf("%s| %s\n", got.c_str(), buf);
    int bad = got != "/v0x0/self /v0x0/on /v0x0/v /v0x1/on /v0x2/self /v0x2/on /v0x2/v " || strcmp(buf, "/");
    // the reported address /v0x2/v, sent as a message, reaches element 2
    char msg[64], loc[128] = "";
    rtosc_message(msg, sizeof msg, "/v0x2/v", "i", 7);
    Set d; d.obj = &r; d.loc = loc; d.loc_size = sizeof loc;
    Root::ports.dispatch(msg, d, true);
    printf("v = %d %d %d\n", r.v0x[0].v, r.v0x[1].v, r.v0x[2].v);
    if (r.v0x[2].v != 7 || r.v0x[0].v || r.v0x[1].v) bad = 1;
    printf(bad ? "C09 violated\n" : "ok\n");
    return bad;
}
