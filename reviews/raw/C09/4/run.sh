#!/bin/sh
# usage: run.sh <tree>   (needs <tree>/_build/librtosc-cpp.a and librtosc.a)
T=$1
D=$(dirname "$0")
O=$(mktemp -d)
g++ -std=c++11 -O1 -I"$T/include" "$D/demo.cpp" "$T/_build/librtosc-cpp.a" "$T/_build/librtosc.a" -o "$O/demo" || { rm -rf "$O"; exit 2; }
"$O/demo"; rc=$?
rm -rf "$O"
exit $rc
