// C09: a leaf port "h#128" must be reported under /h0 .. /h127, each exactly once,
// and every reported address must be dispatched to that port.
#include <rtosc/ports.h>
#include <rtosc/rtosc.h>
#include <cstdio>
#include <cstring>
#include <set>
#include <string>
#include <vector>
static int hits;
static const rtosc::Ports ports = {
    {"h#128::i", 0, 0, [](const char *, rtosc::RtData &) { ++hits; }},
};
static void cb(const rtosc::Port *, const char *name, const char *, const rtosc::Ports &, void *d, void *) {
    ((std::vector<std::string> *)d)->push_back(name);
}
int main() {
    char buf[1024];
    memset(buf, 0, sizeof buf);
    std::vector<std::string> got;
    rtosc::walk_ports(&ports, buf, sizeof buf, &got, cb, true, nullptr, false);
    int bad = 0;
    if (got.size() != 128) { printf("reported %zu addresses, expected 128\n", got.size()); bad = 1; }
    std::set<std::string> seen;
    for (size_t i = 0; i < got.size(); ++i) {
        char want[32];
        snprintf(want, sizeof want, "/h%zu", i);
        if (got[i] != want) { if (bad < 5) printf("#%zu: reported %s, expected %s\n", i, got[i].c_str(), want); ++bad; }
        if (!seen.insert(got[i]).second) { if (bad < 5) printf("%s reported twice\n", got[i].c_str()); ++bad; }
        char msg[128];
        rtosc_message(msg, sizeof msg, got[i].c_str(), "");
        rtosc::RtData d;
        hits = 0;
        ports.dispatch(msg, d, true);
        if (hits != 1) { if (bad < 5) printf("%s dispatched to %d ports\n", got[i].c_str(), hits); ++bad; }
    }
    if (strcmp(buf, "/")) { printf("buffer afterwards: %s\n", buf); ++bad; }
    printf(bad ? "C09 violated\n" : "ok\n");
    return bad ? 1 : 0;
}
