// C09, runtime clause: a sub-tree is skipped only if its object pointer is NULL or its
// "enabled by" port answers false.  Here the enabling port is an integer parameter
// (rParamI, as zynaddsubfx's Penabled ports are) holding 1: the sub-tree must be visited;
// with 0 it must be skipped.
#include <rtosc/ports.h>
#include <rtosc/port-sugar.h>
#include <rtosc/rtosc.h>
#include <cstdio>
#include <cstring>
#include <string>
#include <vector>
#undef rChangeCb
#define rChangeCb
struct Leaf { static const rtosc::Ports ports; int v = 0; };
struct Root { static const rtosc::Ports ports; int enabled = 0; Leaf a; };
#define rObject Leaf
const rtosc::Ports Leaf::ports = { rParamI(v, "value") };
#undef rObject
#define rObject Root
const rtosc::Ports Root::ports = {
    rParamI(enabled, "0 = off"),
    rRecur(a, rEnabledBy(enabled), "embedded"),
};
#undef rObject
static void cb(const rtosc::Port *, const char *name, const char *, const rtosc::Ports &, void *d, void *) {
    *(std::string *)d += name; *(std::string *)d += " ";
}
static std::string walk(Root &r) {
    char buf[1024];
    memset(buf, 0, sizeof buf);
    std::string got;
    rtosc::walk_ports(&Root::ports, buf, sizeof buf, &got, cb, true, &r, false);
    return got + "| " + buf;
}
int main() {
    Root r;
    int bad = 0;
    r.enabled = 1;
    std::string on = walk(r);
    r.enabled = 0;
    std::string off = walk(r);
    printf("enabled=1: %s\nenabled=0: %s\n", on.c_str(), off.c_str());
    if (on != "/enabled /a/v /a | /") bad = 1;
    if (off != "/enabled /a | /") bad = 1;
    printf(bad ? "C09 violated\n" : "ok\n");
    return bad;
}
