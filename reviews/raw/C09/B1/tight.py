import sys, random, subprocess, os
sys.path.insert(0, '/verif/tools'); sys.path.insert(0, '/verif/tools/props')
os.environ.setdefault('VERIF_BUILD', '/tmp/revbuild-C09')
import c09
H = './h-walk-8b0d2fc8aea47105981c'; D = '/verif/lean/.lake/build/bin/drv_walk'
trees = []
open('tt.ops','w').write('T 0\nT 1\nT 2\n')
out = subprocess.run([H, 'tt.ops'], stdout=subprocess.PIPE, text=True).stdout
trees = [l[2:] for l in out.split('\n') if l.startswith('T [')]
rng = random.Random(5)
ops = []
for n in range(600):
    tid = rng.choice([0, 1, 2]); ts = trees[tid]; table = c09.parse_tree(ts)
    obj = c09.rand_obj(rng, table, {})
    prefix = rng.choice([b'', b'/', b'/zz/'])
    eff = prefix or b'/'
    full = c09.enumerate_tree(table, eff)
    need = max(len(a) for _, a in full) + 1
    size = need + rng.choice([0, 0, 1, 2, 3, 4])
    buf = prefix + bytes(size - len(prefix))
    ops.append('R %d %s %s %s' % (tid, ts, c09.show_obj(obj), c09.hx(buf)))
open('tight.ops', 'w').write('\n'.join(ops) + '\n')
env = dict(os.environ, ASAN_OPTIONS='detect_leaks=0')
impl = []
for op in ops:   # one process per op: a crash must not hide the rest
    open('one.ops','w').write(op + '\n')
    r = subprocess.run([H, 'one.ops'], stdout=subprocess.PIPE, stderr=subprocess.PIPE, text=True, env=env)
    o = r.stdout.strip().split('\n')[-1] if r.returncode == 0 else 'crash: ' + next((l for l in r.stderr.split('\n') if 'ERROR' in l or 'runtime error' in l), 'rc=%d' % r.returncode)[:150]
    impl.append(o)
model = subprocess.run([D], input='\n'.join(ops) + '\n', stdout=subprocess.PIPE, text=True).stdout.strip().split('\n')
nd = 0
kinds = {}
for op, i, m in zip(ops, impl, model):
    if i != m:
        nd += 1
        w = op.split()
        k = 'crash' if i.startswith('crash') else 'diff'
        kinds[k] = kinds.get(k, 0) + 1
        if nd <= 6:
            print('tid', w[1], 'obj', w[3][:60], 'buf', w[4]); print('  impl ', i[:200]); print('  model', m[:200])
            fail = c09.oracle(op, i); print('  oracle on impl:', fail)
print(nd, 'of', len(ops), 'differ', kinds)
