// Defect of the UNMODIFIED library (no patch): a walk with a runtime object in a buffer that
// is large enough for every address it reports (here 6 bytes: "/arr1" + NUL; the walk below
// only forms "/on") reports the disabling toggle under a truncated address.
// port_is_enabled: strncat(loc_copy, enable_port, loc_size - loclen - 3 - 1) reserves room
// for "../" even when it is not appended (ports.cpp:993-994); loc_size is the caller's
// buffer_size.  The Lean model (Walk/Model.lean portIsEnabled) never looks at the size.
#include <rtosc/ports.h>
#include <rtosc/port-sugar.h>
#include <rtosc/rtosc.h>
#include <cstdio>
#include <cstring>
#include <string>
#undef rChangeCb
#define rChangeCb
struct Leaf { static const rtosc::Ports ports; bool on = false; int v = 0; float arr[2] = {0, 0}; };
#define rObject Leaf
const rtosc::Ports Leaf::ports = {
    rSelf(Leaf, rEnabledBy(on)),
    rToggle(on, "switch"),
    rParamI(v, "value"),
    rArrayF(arr, 2, "array"),
};
#undef rObject
static void cb(const rtosc::Port *p, const char *name, const char *, const rtosc::Ports &, void *d, void *) {
    *(std::string *)d += std::string(name) + "(" + p->name + ") ";
}
static std::string walk(Leaf &l, size_t size) {
    char *buf = new char[size];
    memset(buf, 0, size);
    std::string got;
    rtosc::walk_ports(&Leaf::ports, buf, size, &got, cb, true, &l, false);
    got += std::string("| ") + buf;
    delete[] buf;
    return got;
}
int main() {
    Leaf l;            // on == false: the table switches itself off, only its toggle is reported
    std::string big = walk(l, 1024), tight = walk(l, 6);
    printf("1024 bytes: %s\n   6 bytes: %s\n", big.c_str(), tight.c_str());
    int bad = big != tight;
    printf(bad ? "C09 violated (reported address depends on spare room in the buffer)\n" : "ok\n");
    return bad;
}
