// C09, runtime clause: with a runtime object, every sub-tree whose object pointer is not NULL
// and whose "enabled by" toggle answers true must be visited - also when the table is
// mounted under a long address (300 characters here, the check assumes < 1000).
#include <rtosc/ports.h>
#include <rtosc/port-sugar.h>
#include <rtosc/rtosc.h>
#include <cstdio>
#include <cstring>
#include <string>
#include <vector>
#undef rChangeCb
#define rChangeCb
struct Leaf { static const rtosc::Ports ports; int v = 0; };
struct Root { static const rtosc::Ports ports; bool a_on = true; Leaf a; Leaf *p = nullptr; };
#define rObject Leaf
const rtosc::Ports Leaf::ports = { rParamI(v, "value") };
#undef rObject
#define rObject Root
const rtosc::Ports Root::ports = {
    rToggle(a_on, "switch"),
    rRecur(a, rEnabledBy(a_on), "embedded"),
    rRecurp(p, "pointer"),
};
#undef rObject
static void cb(const rtosc::Port *, const char *name, const char *, const rtosc::Ports &, void *d, void *) {
    ((std::vector<std::string> *)d)->push_back(name);
}
static std::vector<std::string> walk(const std::string &prefix, Root &r) {
    char buf[1024];
    memset(buf, 0, sizeof buf);
    strcpy(buf, prefix.c_str());
    std::vector<std::string> got;
    rtosc::walk_ports(&Root::ports, buf, sizeof buf, &got, cb, true, &r, false);
    if (prefix != buf) got.push_back("buffer afterwards: " + std::string(buf));
    return got;
}
int main() {
    Root r; Leaf other; r.p = &other;
    std::string lng = "/" + std::string(298, 'x') + "/";     // 300 characters
    std::vector<std::string> s = walk("/", r), l = walk(lng, r);
    int bad = 0;
    // the same tree and the same object: the same leaves, only the prefix differs
    if (s.size() != l.size()) { printf("prefix \"/\": %zu pairs, 300-character prefix: %zu pairs\n", s.size(), l.size()); bad = 1; }
    for (size_t i = 0; i < s.size() && i < l.size(); ++i)
        if (lng + s[i].substr(1) != l[i]) { printf("#%zu differs: %s\n", i, s[i].c_str()); bad = 1; }
    if (s.size() != 4) { printf("short walk reported %zu pairs, expected 4 (a_on, a/v, a, p/v)\n", s.size()); bad = 1; }
    for (auto &x : l) printf("  %s...%s\n", x.substr(0, 4).c_str(), x.substr(x.size() > 8 ? x.size() - 8 : 0).c_str());
    printf(bad ? "C09 violated\n" : "ok\n");
    return bad;
}
