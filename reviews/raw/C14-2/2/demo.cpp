// An int parameter port and an int array port inside an enumerated sub-tree (rRecurs).
// Property C14: a query replies the stored value at the port's full address; a change is broadcast
// (and the undo event names) that address.
#include <rtosc/ports.h>
#include <rtosc/port-sugar.h>
#include <cstdio>
#include <cstring>
#include <string>
#include <vector>
struct Voice { int vol; int arr[4]; static const rtosc::Ports ports; };
struct Synth { Voice voice[4]; static const rtosc::Ports ports; };
#define rObject Voice
const rtosc::Ports Voice::ports = {
    rParamI(vol, rLinear(0, 100), "volume"),
    rArrayI(arr, 4, rLinear(0, 100), "array"),
};
#undef rObject
#define rObject Synth
const rtosc::Ports Synth::ports = {
    rRecurs(voice, 4, "voices"),
};
#undef rObject
struct D : rtosc::RtData {
    std::vector<std::string> addr;
    void reply(const char *m) override { addr.push_back(m); }
    void broadcast(const char *m) override { addr.push_back(m); }
    using rtosc::RtData::reply; using rtosc::RtData::broadcast;
};
int main()
{
    static Synth s; int bad = 0;
    char loc[128], msg[128];
    {   D d; memset(loc, 0, sizeof loc); d.loc = loc; d.loc_size = sizeof loc; d.obj = &s;
        rtosc_message(msg, sizeof msg, "/voice2/vol", "");
        Synth::ports.dispatch(msg, d, true);
        for(auto &a : d.addr) { printf("query /voice2/vol  -> reply at %s\n", a.c_str()); bad |= a != "/voice2/vol"; }
        bad |= d.addr.size() != 1; }
    {   D d; memset(loc, 0, sizeof loc); d.loc = loc; d.loc_size = sizeof loc; d.obj = &s;
        rtosc_message(msg, sizeof msg, "/voice2/arr1", "i", 7);
        Synth::ports.dispatch(msg, d, true);
        for(auto &a : d.addr) { printf("set   /voice2/arr1 -> message at %s\n", a.c_str());
                                bad |= a != "/voice2/arr1" && a != "/undo_change"; }
        bad |= d.addr.size() != 2 || s.voice[2].arr[1] != 7; }
    return bad;
}
