#!/bin/sh
# usage: run.sh <tree>   (needs <tree>/_build/librtosc-cpp.a and librtosc.a)
T="$1"; D="$(dirname "$0")"; O="$(mktemp -d)"
g++ -std=c++17 -I"$T/include" "$D/demo.cpp" "$T/_build/librtosc-cpp.a" "$T/_build/librtosc.a" -o "$O/demo" || exit 2
"$O/demo"; R=$?; rm -rf "$O"; exit $R
