// A string parameter of capacity 2048.  Property C14: the stored string is the incoming one
// truncated to the declared length, the change is broadcast with the new value, a query replies it.
#include <rtosc/ports.h>
#include <rtosc/port-sugar.h>
#include <cstdio>
#include <cstring>
#include <string>
struct Obj { char text[2048]; static const rtosc::Ports ports; };
#define rObject Obj
const rtosc::Ports Obj::ports = { rString(text, 2048, "long text"), };
#undef rObject
struct D : rtosc::RtData {
    std::string bval, rval; int nb = 0, nr = 0;
    void reply(const char *m) override { ++nr; if(!strcmp(m, "/text") && rtosc_type(m, 0) == 's') rval = rtosc_argument(m, 0).s; }
    void broadcast(const char *m) override { ++nb; if(!strcmp(m, "/text") && rtosc_type(m, 0) == 's') bval = rtosc_argument(m, 0).s; }
    using rtosc::RtData::reply; using rtosc::RtData::broadcast;
};
int main()
{
    static Obj o; static char msg[4096]; char loc[128];
    std::string s(1500, 'x');
    int bad = 0;
    {   D d; memset(loc, 0, sizeof loc); d.loc = loc; d.loc_size = sizeof loc; d.obj = &o;
        rtosc_message(msg, sizeof msg, "/text", "s", s.c_str());
        Obj::ports.dispatch(msg, d, true);
        printf("set 1500 chars: stored %zu chars, %d broadcast(s), broadcast value has %zu chars\n", strlen(o.text), d.nb, d.bval.size());
        bad |= d.bval != s || s != o.text; }
    {   D d; memset(loc, 0, sizeof loc); d.loc = loc; d.loc_size = sizeof loc; d.obj = &o;
        rtosc_message(msg, sizeof msg, "/text", "");
        Obj::ports.dispatch(msg, d, true);
        printf("query: %d reply(ies), replied value has %zu chars\n", d.nr, d.rval.size());
        bad |= d.rval != s; }
    return bad;
}
