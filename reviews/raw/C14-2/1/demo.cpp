// A float parameter declared with seven macro arguments; the declared range is the sixth.
// Property C14: incoming 7.0 must be stored as 2.0 (clamped to the declared maximum).
#include <rtosc/ports.h>
#include <rtosc/port-sugar.h>
#include <cstdio>
#include <cstring>
struct Obj { float x; static const rtosc::Ports ports; };
#define rObject Obj
const rtosc::Ports Obj::ports = {
    rParamF(x, rShort("x"), rMap(unit, Hz), rDefault(0.5), rCentered, rSpecial(off), rLinear(-2, 2), "seven arguments"),
};
#undef rObject
struct D : rtosc::RtData {
    void reply(const char *) override {}
    void broadcast(const char *) override {}
    using rtosc::RtData::reply; using rtosc::RtData::broadcast;
};
int main()
{
    Obj o; o.x = 0.5f;
    char loc[128] = {0}, msg[128];
    D d; d.loc = loc; d.loc_size = sizeof loc; d.obj = &o;
    rtosc_message(msg, sizeof msg, "/x", "f", 7.0f);
    Obj::ports.dispatch(msg, d, true);
    printf("declared rLinear(-2,2), incoming 7.0, stored %g, metadata has max: %s\n", o.x,
           Obj::ports.ports[0].meta()["max"] ? "yes" : "NO");
    return o.x == 2.0f ? 0 : 1;
}
