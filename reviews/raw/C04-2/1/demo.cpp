// C04 regression seed: a perfectly hashed table with more than 256 ports.
// 384 six-character names  <a-d><e-h><i-n><zzz|qzz|qqz|qqq>; every port is addressed once, with and
// without location buffer; the callback of exactly that port must be invoked once either way.
#include <rtosc/rtosc.h>
#include <rtosc/ports.h>
#include <cstdio>
#include <cstring>
#include <string>
#include <vector>
struct DynPorts : rtosc::Ports {
    DynPorts() : rtosc::Ports({}) {}
    void rebuild() { refreshMagic(); }
};
static int g_hit = -1, g_count = 0;
int main()
{
    std::vector<std::string> names;
    const char *hi[4] = {"zzz", "qzz", "qqz", "qqq"};
    for (int h = 0; h < 4; ++h)
        for (char a = 'a'; a <= 'd'; ++a)
            for (char b = 'e'; b <= 'h'; ++b)
                for (char c = 'i'; c <= 'n'; ++c)
                    names.push_back(std::string() + a + b + c + hi[h]);
    DynPorts tab;
    for (size_t i = 0; i < names.size(); ++i) {
        int k = (int)i;
        tab.ports.push_back({names[i].c_str(), "", nullptr,
                             [k](const char *, rtosc::RtData &) { g_hit = k; ++g_count; }});
    }
    tab.rebuild();
    int bad = 0;
    for (size_t i = 0; i < names.size(); ++i) {
        char msg[64];
        std::string addr = "/" + names[i];
        rtosc_message(msg, sizeof(msg), addr.c_str(), "");
        for (int withloc = 1; withloc >= 0; --withloc) {
            char loc[64];
            rtosc::RtData d;
            d.loc = withloc ? loc : nullptr;
            d.loc_size = withloc ? sizeof(loc) : 0;
            d.obj = &tab;
            g_hit = -1;
            g_count = 0;
            tab.dispatch(msg, d, true);
            if (g_count != 1 || g_hit != (int)i || (withloc && d.matches != 1)) {
                if (bad < 5)
                    printf("port %zu (%s) %s location buffer: %d callbacks, last = %d, matches = %d\n", i,
                           names[i].c_str(), withloc ? "with" : "without", g_count, g_hit, d.matches);
                ++bad;
            }
        }
    }
    printf("%zu ports, %d wrong dispatches\n", names.size(), bad);
    return bad ? 1 : 0;
}
