#!/bin/sh
# usage: run.sh <tree>   (needs <tree>/_build/librtosc-cpp.a and librtosc.a; the change is in a header)
set -e
T="$1"
D="$(cd "$(dirname "$0")" && pwd)"
O="$(mktemp -d)"
g++ -std=c++17 -O1 -I"$T/include" "$D/demo.cpp" "$T/_build/librtosc-cpp.a" "$T/_build/librtosc.a" -o "$O/demo"
"$O/demo"
