// C04 regression seed: sub-tree arrays whose member name contains a digit (rRecurs(op2s, 3), rRecursp(lfo1p, 2)).
// "/op2s1/v" must run the callback of `v` with the object &top.op2s[1]; "/lfo1p0/v" with top.lfo1p[0].
#include <rtosc/rtosc.h>
#include <rtosc/ports.h>
#include <rtosc/port-sugar.h>
#include <cstdio>
#include <cstring>
struct Leaf { int v; static const rtosc::Ports ports; };
struct Top {
    Leaf op2s[3];
    Leaf *lfo1p[2];
    Leaf plain[3];
    static const rtosc::Ports ports;
};
static void *g_obj = nullptr;
static int g_count = 0;
const rtosc::Ports Leaf::ports = {
    {"v", "", nullptr, [](const char *, rtosc::RtData &d) { g_obj = d.obj; ++g_count; }},
};
#define rObject Top
const rtosc::Ports Top::ports = {
    rRecurs(op2s, 3, "d"),
    rRecursp(lfo1p, 2, "d"),
    rRecurs(plain, 3, "d"),
};
#undef rObject
static int check(Top &top, const char *addr, void *want)
{
    int bad = 0;
    char msg[64];
    rtosc_message(msg, sizeof(msg), addr, "");
    for (int withloc = 1; withloc >= 0; --withloc) {
        char loc[64];
        rtosc::RtData d;
        d.loc = withloc ? loc : nullptr;
        d.loc_size = withloc ? sizeof(loc) : 0;
        d.obj = &top;
        g_obj = nullptr;
        g_count = 0;
        Top::ports.dispatch(msg, d, true);
        if (g_count != 1 || g_obj != want) {
            printf("%s %s location buffer: %d callbacks, object %p, expected %p (offset %ld instead of %ld)\n", addr,
                   withloc ? "with" : "without", g_count, g_obj, want, (long)((char *)g_obj - (char *)&top),
                   (long)((char *)want - (char *)&top));
            ++bad;
        }
    }
    return bad;
}
int main()
{
    static Leaf extra[2];
    Top top;
    memset(&top, 0, sizeof(top));
    top.lfo1p[0] = &extra[0];
    top.lfo1p[1] = &extra[1];
    int bad = 0;
    bad += check(top, "/plain2/v", &top.plain[2]);
    bad += check(top, "/op2s0/v", &top.op2s[0]);
    bad += check(top, "/op2s1/v", &top.op2s[1]);
    bad += check(top, "/lfo1p0/v", top.lfo1p[0]);
    printf("%d wrong dispatches\n", bad);
    return bad ? 1 : 0;
}
