/* C08 demo: the usual way of sending bundles - one scratch buffer for the message, reused:
 *   msg <- message 1; bundle(msg);  msg <- message 2 (other length); bundle(msg)
 * Each bundle must hold exactly the message that was in the scratch buffer at the time of the call.
 * exit 0 = property holds. */
#include <rtosc/rtosc.h>
#include <stdio.h>
#include <stdlib.h>
#include <string.h>
#include <stdint.h>

static int fails;
#define CHECK(c, ...) do { if(!(c)) { ++fails; printf("FAIL: " __VA_ARGS__); printf("\n"); } } while(0)

static void roundtrip(const char *msg, size_t lm, uint64_t tt, const char *what)
{
    char copy[128];
    memcpy(copy, msg, lm);
    size_t want = 16 + 4 + lm;
    size_t cap = want + 4;
    char *buf = malloc(cap);
    memset(buf, 0xAA, cap);
    size_t r = rtosc_bundle(buf, cap, tt, 1, msg);
    CHECK(r == want, "%s: rtosc_bundle returned %zu, expected %zu", what, r, want);
    CHECK(rtosc_bundle_p(buf), "%s: not recognised as a bundle", what);
    CHECK(rtosc_bundle_timetag(buf) == tt, "%s: time tag", what);
    CHECK(rtosc_message_length(buf, want) == want, "%s: rtosc_message_length = %zu, expected %zu", what,
          rtosc_message_length(buf, want), want);
    CHECK(rtosc_bundle_elements(buf, want) == 1, "%s: rtosc_bundle_elements = %zu", what,
          rtosc_bundle_elements(buf, want));
    CHECK(rtosc_bundle_size(buf, 0) == lm, "%s: rtosc_bundle_size = %zu, expected %zu", what,
          rtosc_bundle_size(buf, 0), lm);
    CHECK(rtosc_bundle_fetch(buf, 0) == buf + 20, "%s: rtosc_bundle_fetch", what);
    CHECK(!memcmp(buf + 20, copy, lm), "%s: element bytes differ", what);
    free(buf);
}

int main(void)
{
    char msg[128];
    size_t l1 = rtosc_message(msg, sizeof(msg), "/a", "i", 1);
    roundtrip(msg, l1, 1, "first bundle");
    size_t l2 = rtosc_message(msg, sizeof(msg), "/a/longer/address", "si", "hello world", 2);
    roundtrip(msg, l2, 2, "second bundle (same scratch buffer, other message)");
    printf(fails ? "C08 violated (%d checks failed)\n" : "C08 holds on this input\n", fails);
    return fails ? 1 : 0;
}
