#!/bin/sh
# usage: run.sh <tree>   (tree must contain _build/librtosc.a, _build/librtosc-cpp.a, include/)
set -e
T="$1"; D="$(cd "$(dirname "$0")" && pwd)"
O="$(mktemp -d)"
gcc -std=gnu99 -O1 -g -I"$T/include" "$D/demo.c" "$T/_build/librtosc-cpp.a" "$T/_build/librtosc.a" -o "$O/demo" -lstdc++ -lm
set +e
"$O/demo"; rc=$?
rm -rf "$O"
exit $rc
