/* C08 demo: bundle [M, small] where M is a well-formed message with 20 int arguments
 * (C01's space has type strings up to 40 tags), then take it apart. exit 0 = property holds. */
#include <rtosc/rtosc.h>
#include <stdio.h>
#include <stdlib.h>
#include <string.h>
#include <stdint.h>

static int fails;
#define CHECK(c, ...) do { if(!(c)) { ++fails; printf("FAIL: " __VA_ARGS__); printf("\n"); } } while(0)

int main(void)
{
    char small[64], many[256];
    size_t ls = rtosc_message(small, sizeof(small), "/small", "i", 42);
    size_t lm = rtosc_message(many, sizeof(many), "/many", "iiiiiiiiiiiiiiiiiiii",
                              1,2,3,4,5,6,7,8,9,10,11,12,13,14,15,16,17,18,19,20);
    CHECK(lm == 8 + 24 + 80, "message length %zu", lm);

    size_t want = 16 + 2 * 4 + lm + ls;
    size_t cap = want + 4;
    char *buf = malloc(cap);
    memset(buf, 0xAA, cap);
    const uint64_t tt = 0x0123456789abcdefULL;
    size_t r = rtosc_bundle(buf, cap, tt, 2, many, small);
    CHECK(r == want, "rtosc_bundle returned %zu, expected %zu", r, want);
    CHECK(rtosc_bundle_p(buf), "result is not recognised as a bundle");
    CHECK(rtosc_bundle_timetag(buf) == tt, "time tag");
    CHECK(rtosc_message_length(buf, r) == r, "rtosc_message_length = %zu, rtosc_bundle returned %zu",
          rtosc_message_length(buf, r), r);
    CHECK(rtosc_bundle_elements(buf, r) == 2, "rtosc_bundle_elements = %zu, expected 2",
          rtosc_bundle_elements(buf, r));
    const char *src[2] = {many, small};
    size_t      len[2] = {lm, ls};
    size_t off = 20;
    for(unsigned i = 0; i < 2; ++i) {
        const char *e = rtosc_bundle_fetch(buf, i);
        size_t es = rtosc_bundle_size(buf, i);
        CHECK(es == len[i], "element %u: rtosc_bundle_size = %zu, expected %zu", i, es, len[i]);
        CHECK(e == buf + off, "element %u: rtosc_bundle_fetch at offset %ld, expected %zu", i,
              e ? (long)(e - buf) : -1L, off);
        if(e && e + len[i] <= buf + cap)
            CHECK(!memcmp(e, src[i], len[i]), "element %u: bytes differ from the message that was bundled", i);
        off += 4 + len[i];
    }
    printf(fails ? "C08 violated (%d checks failed)\n" : "C08 holds on this input\n", fails);
    return fails ? 1 : 0;
}
