/* C08 demo: bundle [small, BIG (one 70000-byte blob), small] and take it apart again.
 * Every clause of C08 is checked against the bytes that went in. exit 0 = property holds. */
#include <rtosc/rtosc.h>
#include <stdio.h>
#include <stdlib.h>
#include <string.h>
#include <stdint.h>

#define BIG 70000
static int fails;
#define CHECK(c, ...) do { if(!(c)) { ++fails; printf("FAIL: " __VA_ARGS__); printf("\n"); } } while(0)

int main(void)
{
    char small[64];
    size_t ls = rtosc_message(small, sizeof(small), "/small", "i", 42);
    unsigned char *blob = malloc(BIG);
    for(int i = 0; i < BIG; ++i) blob[i] = (unsigned char)(i * 7 + 1);
    size_t capm = BIG + 64;
    char *big = calloc(1, capm);
    size_t lb = rtosc_message(big, capm, "/big", "b", BIG, blob);
    CHECK(lb == 8 + 4 + 4 + BIG, "big message length %zu", lb);
    CHECK(rtosc_message_length(big, lb) == lb, "big message is not well-formed?");

    size_t want = 16 + 3 * 4 + ls + lb + ls;
    size_t cap = want + 4;
    char *buf = malloc(cap);
    memset(buf, 0xAA, cap);
    const uint64_t tt = 0x0123456789abcdefULL;
    size_t r = rtosc_bundle(buf, cap, tt, 3, small, big, small);
    CHECK(r == want, "rtosc_bundle returned %zu, expected %zu", r, want);
    CHECK(rtosc_bundle_p(buf), "result is not recognised as a bundle");
    CHECK(rtosc_bundle_timetag(buf) == tt, "time tag");
    CHECK(rtosc_message_length(buf, r) == want, "rtosc_message_length = %zu, expected %zu",
          rtosc_message_length(buf, r), want);
    CHECK(rtosc_bundle_elements(buf, r) == 3, "rtosc_bundle_elements = %zu, expected 3",
          rtosc_bundle_elements(buf, r));
    const char *src[3] = {small, big, small};
    size_t      len[3] = {ls, lb, ls};
    size_t off = 20;
    for(unsigned i = 0; i < 3; ++i) {
        const char *e = rtosc_bundle_fetch(buf, i);
        size_t es = rtosc_bundle_size(buf, i);
        CHECK(es == len[i], "element %u: rtosc_bundle_size = %zu, expected %zu", i, es, len[i]);
        CHECK(e == buf + off, "element %u: rtosc_bundle_fetch at offset %ld, expected %zu", i,
              e ? (long)(e - buf) : -1L, off);
        CHECK(!memcmp(buf + off, src[i], len[i]), "element %u: bytes differ", i);
        off += 4 + len[i];
    }
    printf(fails ? "C08 violated (%d checks failed)\n" : "C08 holds on this input\n", fails);
    return fails ? 1 : 0;
}
