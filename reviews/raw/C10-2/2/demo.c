/* C10: five equal arrays [1 2 3 4 5] (arrays of length 0..8, 0..12 values, compression on: all inside the
   property's quantifier).  The printer writes `5x[1 ... 5]`; checker count, scanner byte count and
   rtosc_arg_vals_eq(original, scanned) must agree with the round-trip statement. */
#include <stdio.h>
#include <string.h>
#include <rtosc/rtosc.h>
#include <rtosc/arg-ext.h>
#include <rtosc/arg-val-cmp.h>
#include <rtosc/pretty-format.h>

int main(void)
{
    setvbuf(stdout, NULL, _IONBF, 0);
    rtosc_arg_val_t orig[30];
    memset(orig, 0, sizeof(orig));
    for(int a = 0; a < 5; ++a)
    {
        rtosc_arg_val_t* h = orig + 6 * a;
        h->type = 'a';
        rtosc_av_arr_type_set(h, 'i');
        rtosc_av_arr_len_set(h, 5);
        for(int k = 1; k <= 5; ++k) { h[k].type = 'i'; h[k].val.i = k; }
    }
    rtosc_print_options opt = { true, 2, " ", 80, true };
    char text[256];
    size_t wrt = rtosc_print_arg_vals(orig, 30, text, sizeof(text), &opt, 0);
    printf("printed (%zu): %s\n", wrt, text);
    if(wrt != strlen(text)) { printf("FAIL: length\n"); return 1; }
    int count = rtosc_count_printed_arg_vals(text);
    printf("checker: %d\n", count);
    if(count <= 0 || count > 30) { printf("FAIL: checker rejects the printed text\n"); return 1; }

    rtosc_arg_val_t scanned[64];
    memset(scanned, 0, sizeof(scanned));
    char strbuf[256];
    size_t rd = rtosc_scan_arg_vals(text, scanned, (size_t)count, strbuf, sizeof(strbuf));
    printf("scanner consumed %zu of %zu\n", rd, strlen(text));
    if(rd != strlen(text)) { printf("FAIL: scanner does not consume the whole text\n"); return 1; }
    if(!rtosc_arg_vals_eq(orig, scanned, 30, (size_t)count, NULL)) { printf("FAIL: values differ\n"); return 1; }
    printf("ok\n");
    return 0;
}
