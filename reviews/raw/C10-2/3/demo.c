/* C10: symbols of printable ASCII must come back as the same symbols.  `nIL`, `tRUE`, `iNF`, `nOW`,
   `fALSE`, `iMMEDIATELY` are identifiers that are no reserved words: the printer writes them plain. */
#include <stdio.h>
#include <string.h>
#include <rtosc/rtosc.h>
#include <rtosc/arg-val-cmp.h>
#include <rtosc/pretty-format.h>

int main(void)
{
    const char* syms[] = { "nIL", "tRUE", "iNF", "nOW", "fALSE", "iMMEDIATELY" };
    int bad = 0;
    for(size_t k = 0; k < sizeof(syms)/sizeof(syms[0]); ++k)
    {
        rtosc_arg_val_t orig[2];
        memset(orig, 0, sizeof(orig));
        orig[0].type = 'S'; orig[0].val.s = syms[k];
        orig[1].type = 'i'; orig[1].val.i = 5;
        rtosc_print_options opt = { true, 2, " ", 80, true };
        char text[64];
        size_t wrt = rtosc_print_arg_vals(orig, 2, text, sizeof(text), &opt, 0);
        int count = rtosc_count_printed_arg_vals(text);
        rtosc_arg_val_t scanned[2];
        memset(scanned, 0, sizeof(scanned));
        char strbuf[64];
        size_t rd = (count == 2) ? rtosc_scan_arg_vals(text, scanned, 2, strbuf, sizeof(strbuf)) : 0;
        int ok = wrt == strlen(text) && count == 2 && rd == strlen(text)
              && scanned[0].type == 'S' && !strcmp(scanned[0].val.s, syms[k])
              && rtosc_arg_vals_eq(orig, scanned, 2, 2, NULL);
        printf("%-12s -> \"%s\": count %d, scanned type '%c' %s\n", syms[k], text, count,
               scanned[0].type ? scanned[0].type : '?', ok ? "ok" : "FAIL");
        if(!ok) bad = 1;
    }
    return bad;
}
