#!/bin/sh
# usage: run.sh <tree>   (tree built with cmake into <tree>/_build)
set -e
T=${1:?tree}
D=$(dirname "$0")
cc -O1 -I "$T/include" "$D/demo.c" "$T/_build/librtosc-cpp.a" "$T/_build/librtosc.a" -lm -o /tmp/rev2-C10-demo3
exec /tmp/rev2-C10-demo3
