/* C10: "the scanned values equal the originals exactly ... compared with rtosc_arg_vals_eq and bitwise".
   The caller's cell array is NOT zeroed (as in the library's own callers, which scan into stack arrays).
   Prints `true false`, scans it back and compares the payload val.T of every boolean: an 'F' must carry 0
   (rtosc_arg_val_to_int() and the range arithmetic read val.T, not the type letter). */
#include <stdio.h>
#include <string.h>
#include <rtosc/rtosc.h>
#include <rtosc/pretty-format.h>
#include <rtosc/arg-val-math.h>

int main(void)
{
    rtosc_arg_val_t orig[2];
    memset(orig, 0, sizeof(orig));
    orig[0].type = 'T'; orig[0].val.T = 1;
    orig[1].type = 'F'; orig[1].val.T = 0;

    char text[64];
    size_t wrt = rtosc_print_arg_vals(orig, 2, text, sizeof(text), NULL, 0);
    if(wrt != strlen(text) || rtosc_count_printed_arg_vals(text) != 2) return 2;

    rtosc_arg_val_t scanned[2];
    memset(scanned, 0xa5, sizeof(scanned));          /* what an uninitialised array may hold */
    char strbuf[64];
    size_t rd = rtosc_scan_arg_vals(text, scanned, 2, strbuf, sizeof(strbuf));
    if(rd != strlen(text)) return 3;

    int bad = 0;
    for(int i = 0; i < 2; ++i)
    {
        int o, s;
        rtosc_arg_val_to_int(orig + i, &o);
        rtosc_arg_val_to_int(scanned + i, &s);
        printf("value %d: type %c/%c, val.T %d/%d, as int %d/%d\n", i, orig[i].type, scanned[i].type,
               orig[i].val.T, scanned[i].val.T, o, s);
        if(orig[i].type != scanned[i].type || orig[i].val.T != scanned[i].val.T || o != s)
            bad = 1;
    }
    printf(bad ? "FAIL: scanned boolean differs bitwise from the original\n" : "ok\n");
    return bad;
}
