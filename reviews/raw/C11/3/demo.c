/* C11 review mutation 3: "printing those values and scanning again gives equal values".
   A quoted symbol ("..."S, Guide: "If the C convention does not suffice ... with a capital 'S'
   directly appended to the closing quote") whose content is the keyword `now`. */
#include <stdio.h>
#include <string.h>
#include <rtosc/rtosc.h>
#include <rtosc/pretty-format.h>
#include <rtosc/arg-val-cmp.h>
int main(void)
{
    const char* text = "\"now\"S 1";
    int n = rtosc_count_printed_arg_vals(text);
    if(n != 2) { printf("count %d\n", n); return 2; }
    rtosc_arg_val_t av[2], av2[2];
    char buf[64], buf2[64], out[256];
    size_t rd = rtosc_scan_arg_vals(text, av, 2, buf, sizeof(buf));
    if(rd != strlen(text) || av[0].type != 'S' || strcmp(av[0].val.s, "now")) return 3;
    rtosc_print_arg_vals(av, 2, out, sizeof(out), NULL, 0);
    int n2 = rtosc_count_printed_arg_vals(out);
    printf("printed: %s  -> checker count %d\n", out, n2);
    if(n2 != 2) return 1;
    rtosc_scan_arg_vals(out, av2, 2, buf2, sizeof(buf2));
    printf("rescanned types: %c %c\n", av2[0].type, av2[1].type);
    if(!rtosc_arg_vals_eq(av, av2, 2, 2, NULL)) { puts("WRONG: scan(print(scan text)) differs: the symbol \"now\" came back as a timestamp"); return 1; }
    return 0;
}
