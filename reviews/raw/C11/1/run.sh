#!/bin/bash
# usage: run.sh <tree>   (tree must have been built: <tree>/_build/librtosc.a, librtosc-cpp.a)
set -e
tree=${1:?usage: run.sh <tree>}
here=$(cd "$(dirname "$0")" && pwd)
out=$(mktemp -d)
cc -O1 -g -I"$tree/include" "$here/demo.c" "$tree/_build/librtosc-cpp.a" "$tree/_build/librtosc.a" -lstdc++ -lm -o "$out/demo"
set +e
"$out/demo"; rc=$?
rm -rf "$out"
exit $rc
