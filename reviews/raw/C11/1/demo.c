/* C11 review mutation 1: the scanner must yield the value the spelling denotes.
   `true` denotes the boolean with val.T == 1 (rtosc_arg_val_to_int gives 1), `false` val.T == 0. */
#include <stdio.h>
#include <string.h>
#include <rtosc/rtosc.h>
#include <rtosc/pretty-format.h>
#include <rtosc/arg-val-math.h>
int main(void)
{
    const char* text = "true false";
    int n = rtosc_count_printed_arg_vals(text);
    if(n != 2) { printf("count %d\n", n); return 2; }
    rtosc_arg_val_t av[2];
    char buf[64];
    memset(av, 0x55, sizeof(av));
    size_t rd = rtosc_scan_arg_vals(text, av, 2, buf, sizeof(buf));
    int t = -1, f = -1;
    rtosc_arg_val_to_int(&av[0], &t);
    rtosc_arg_val_to_int(&av[1], &f);
    printf("rd=%zu types=%c%c val.T=%d,%d to_int=%d,%d\n", rd, av[0].type, av[1].type, av[0].val.T, av[1].val.T, t, f);
    if(av[0].type != 'T' || av[1].type != 'F') return 3;
    if(av[0].val.T != 1 || av[1].val.T != 0) { puts("WRONG: scanned `true` does not carry the value 1"); return 1; }
    return 0;
}
