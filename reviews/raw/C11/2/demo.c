/* C11 review mutation 2: "printing those values and scanning again gives equal values".
   Six explicit 'i' values in arithmetic progression spanning more than 2^31. */
#include <stdio.h>
#include <string.h>
#include <rtosc/rtosc.h>
#include <rtosc/pretty-format.h>
#include <rtosc/arg-val-cmp.h>
int main(void)
{
    const char* text = "-2000000000 -1200000000 -400000000 400000000 1200000000 2000000000";
    int n = rtosc_count_printed_arg_vals(text);
    if(n != 6) { printf("count %d\n", n); return 2; }
    rtosc_arg_val_t av[6], av2[16];
    char buf[64], buf2[64], out[256];
    size_t rd = rtosc_scan_arg_vals(text, av, 6, buf, sizeof(buf));
    if(rd != strlen(text)) return 3;
    rtosc_print_arg_vals(av, 6, out, sizeof(out), NULL, 0);
    int n2 = rtosc_count_printed_arg_vals(out);
    printf("printed: \"%s\"  -> checker count %d\n", out, n2);
    if(n2 <= 0 || n2 > 16) { puts("WRONG: the printed form of the scanned values is rejected by the checker"); return 1; }
    rtosc_scan_arg_vals(out, av2, n2, buf2, sizeof(buf2));
    if(!rtosc_arg_vals_eq(av, av2, 6, n2, NULL)) { puts("WRONG: scan(print(scan text)) differs"); return 1; }
    return 0;
}
