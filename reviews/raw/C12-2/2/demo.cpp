// An array of enumerated parameters (rArrayOption) whose default is spelled with the option symbols:
// an untouched application saves only the two header lines, and a changed element is restored.
#include <rtosc/rtosc.h>
#include <rtosc/ports.h>
#include <rtosc/port-sugar.h>
#include <rtosc/savefile.h>
#include <cstdio>
#include <cstring>
#include <string>
struct Obj { int shape[3]; int gain; Obj() : gain(5) { shape[0] = 0; shape[1] = 0; shape[2] = 1; } static const rtosc::Ports ports; };
#define rObject Obj
const rtosc::Ports Obj::ports = {
    rArrayOption(shape, 3, rOptions(sine, tri, saw), rDefault([sine sine tri]), "wave shapes"),
    rParamI(gain, rDefault(5), "gain"),
};
#undef rObject
static void send(Obj &o, const char *path, const char *types, int v)
{
    char buf[256], loc[256] = "";
    rtosc_message(buf, sizeof buf, path, types, v);
    rtosc::RtData d; d.obj = &o; d.loc = loc; d.loc_size = sizeof loc;
    Obj::ports.dispatch(buf, d, true);
}
int main()
{
    rtosc_version ver = {1, 0, 0};
    int bad = 0;
    {
        Obj o;
        std::set<std::string> written;
        std::string file = rtosc::save_to_file(Obj::ports, &o, "demo", ver, written, {});
        printf("--- untouched:\n%s\n", file.c_str());
        if(file != "% RT OSC v0.3.1 savefile\n% demo v1.0.0\n") { puts("WRONG: untouched application saved lines"); bad = 1; }
    }
    {
        Obj o;
        send(o, "/shape1", "i", 2);
        std::set<std::string> written;
        std::string file = rtosc::save_to_file(Obj::ports, &o, "demo", ver, written, {});
        printf("--- shape1 := saw:\n%s\n", file.c_str());
        Obj fresh;
        int rc = rtosc::load_from_file(file.c_str(), Obj::ports, &fresh, "demo", ver);
        printf("load returned %d; shape = %d %d %d\n", rc, fresh.shape[0], fresh.shape[1], fresh.shape[2]);
        if(rc != 1 || fresh.shape[0] != 0 || fresh.shape[1] != 2 || fresh.shape[2] != 1) { puts("WRONG: state not restored"); bad = 1; }
    }
    return bad;
}
