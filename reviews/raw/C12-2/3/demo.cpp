// A `#N` array with 128 elements (zynaddsubfx has Phmag#128, Pmapping#128, ...): a changed state is
// saved and restored like that of a small array.
#include <rtosc/rtosc.h>
#include <rtosc/ports.h>
#include <rtosc/port-sugar.h>
#include <rtosc/savefile.h>
#include <cstdio>
#include <cstring>
#include <string>
struct Obj { int guard0[64]; int mag[128]; int gain; int guard1[64];
    Obj() : gain(5) { for(int &x : mag) x = 64; } static const rtosc::Ports ports; };
#define rObject Obj
const rtosc::Ports Obj::ports = {
    rArrayI(mag, 128, rDefault([128x64]), "harmonic magnitudes"),
    rParamI(gain, rDefault(5), "gain"),
};
#undef rObject
static void send(Obj &o, const char *path, const char *types, int v)
{
    char buf[256], loc[256] = "";
    rtosc_message(buf, sizeof buf, path, types, v);
    rtosc::RtData d; d.obj = &o; d.loc = loc; d.loc_size = sizeof loc;
    Obj::ports.dispatch(buf, d, true);
}
int main()
{
    rtosc_version ver = {1, 0, 0};
    Obj o;
    for(int k = 0; k < 128; k += 3) {
        char path[32]; snprintf(path, sizeof path, "/mag%d", k);
        send(o, path, "i", (k * 7) % 100);
    }
    send(o, "/gain", "i", 9);
    std::set<std::string> written;
    std::string file = rtosc::save_to_file(Obj::ports, &o, "demo", ver, written, {});
    printf("%s\n", file.c_str());
    Obj fresh;
    int rc = rtosc::load_from_file(file.c_str(), Obj::ports, &fresh, "demo", ver);
    int same = !memcmp(o.mag, fresh.mag, sizeof o.mag) && o.gain == fresh.gain;
    printf("load returned %d; state %s\n", rc, same ? "restored" : "NOT restored");
    return (rc == 2 && same) ? 0 : 1;
}
