// A sub-tree enabled by an int/option port (rEnabledBy(mode): any value but 0 switches it on;
// port_is_enabled takes an 'i' reply) - state below it must be saved and restored.
#include <rtosc/rtosc.h>
#include <rtosc/ports.h>
#include <rtosc/port-sugar.h>
#include <rtosc/savefile.h>
#include <cstdio>
#include <cstring>
#include <string>
struct Sub { int depth; Sub() : depth(10) {} static const rtosc::Ports ports; };
#define rObject Sub
const rtosc::Ports Sub::ports = {
    rParamI(depth, rDefault(10), "depth"),
};
#undef rObject
struct Obj { int mode; Sub fx; Obj() : mode(0) {} static const rtosc::Ports ports; };
#define rObject Obj
const rtosc::Ports Obj::ports = {
    rOption(mode, rOptions(off, chorus, phaser), rDefault(off), "effect type; 0 = no effect"),
    rRecur(fx, rEnabledBy(mode), "effect parameters"),
};
#undef rObject
static void send(Obj &o, const char *path, const char *types, int v)
{
    char buf[256], loc[256] = "";
    rtosc_message(buf, sizeof buf, path, types, v);
    rtosc::RtData d; d.obj = &o; d.loc = loc; d.loc_size = sizeof loc;
    Obj::ports.dispatch(buf, d, true);
}
int main()
{
    Obj o;
    send(o, "/mode", "i", 2);
    send(o, "/fx/depth", "i", 77);
    rtosc_version ver = {1, 0, 0};
    std::set<std::string> written;
    std::string file = rtosc::save_to_file(Obj::ports, &o, "demo", ver, written, {});
    puts(file.c_str());
    Obj fresh;
    int rc = rtosc::load_from_file(file.c_str(), Obj::ports, &fresh, "demo", ver);
    printf("saved mode=%d depth=%d; load returned %d; restored mode=%d depth=%d\n", o.mode, o.fx.depth, rc, fresh.mode, fresh.fx.depth);
    if(rc != 2 || fresh.mode != 2 || fresh.fx.depth != 77) { puts("WRONG: state not restored"); return 1; }
    return 0;
}
