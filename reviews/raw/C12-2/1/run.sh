#!/bin/sh
# usage: run.sh <tree>   (tree has _build/librtosc-cpp.a and _build/librtosc.a)
T="$1"; D="$(dirname "$0")"; X="$(mktemp -d)"
g++ -std=c++17 -O0 -I"$T/include" "$D/demo.cpp" "$T/_build/librtosc-cpp.a" "$T/_build/librtosc.a" -o "$X/demo" || exit 2
"$X/demo"; rc=$?; rm -rf "$X"; exit $rc
