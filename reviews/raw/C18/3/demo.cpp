// path_search, options sorted / sorted_and_unique_prefix: the children must come in string
// (strcmp) order; names with numbers of different width show the difference.
#include <rtosc/ports.h>
#include <rtosc/rtosc.h>
#include <cstdio>
#include <cstring>
#include <string>
#include <vector>
#include <algorithm>
using namespace rtosc;
static void null_fn(const char*, RtData&) {}
static const Ports kit = { {"x:i", 0, 0, null_fn} };
static const Ports root = {
    {"osc2:i",  ":doc\0=second\0", 0, null_fn},
    {"osc10:i", ":doc\0=tenth\0",  0, null_fn},
    {"osc1:i",  0,                 0, null_fn},
    {"kit10/",  0,                 &kit, null_fn},
    {"kit9/",   0,                 &kit, null_fn},
    {"kit10/pan:f", 0,             0, null_fn},
    {"volume:f", 0,                0, null_fn},
};
static int run(path_search_opts opt, const char *what)
{
    char types[32];
    rtosc_arg_t args[31];
    path_search(root, "", "", types, sizeof(types), args, 31, opt, false);
    std::vector<std::string> got, want;
    for(size_t i = 0; types[i]; i += 2) got.push_back(args[i].s);
    for(const Port &p : root)
        want.push_back(p.name);
    std::sort(want.begin(), want.end());              // std::string compares like strcmp
    if(opt == path_search_opts::sorted_and_unique_prefix)
        want.erase(std::find(want.begin(), want.end(), std::string("kit10/pan:f")));
    // the message overload must agree
    char q[64], reply[1024];
    rtosc_message(q, sizeof(q), "/path-search", "ss", "", "");
    size_t len = path_search(root, q, 16, reply, sizeof(reply), opt, false);
    std::vector<std::string> gotm;
    for(unsigned i = 0; len && i < rtosc_narguments(reply); i += 2) gotm.push_back(rtosc_argument(reply, i).s);
    int bad = 0;
    if(got != want || gotm != want) {
        bad = 1;
        printf("FAIL (%s)\n  got :", what);
        for(auto &s : got) printf(" %s", s.c_str());
        printf("\n  want:");
        for(auto &s : want) printf(" %s", s.c_str());
        printf("\n");
    }
    return bad;
}
int main()
{
    int bad = run(path_search_opts::sorted, "sorted") + run(path_search_opts::sorted_and_unique_prefix, "sorted_and_unique_prefix");
    // unmodified: table order
    {
        char types[32]; rtosc_arg_t args[31];
        path_search(root, "", "osc", types, sizeof(types), args, 31, path_search_opts::unmodified, false);
        if(strcmp(types, "sbsbsb") || strcmp(args[0].s, "osc2:i") || strcmp(args[2].s, "osc10:i") || strcmp(args[4].s, "osc1:i")) {
            printf("FAIL (unmodified)\n"); ++bad;
        }
    }
    printf("%d failing queries\n", bad);
    return bad ? 1 : 0;
}
