// path_search: every child is paired with its metadata bytes - the whole block, whatever its length.
#include <rtosc/ports.h>
#include <rtosc/rtosc.h>
#include <cstdio>
#include <cstring>
#include <string>
#include <vector>
using namespace rtosc;
static void null_fn(const char*, RtData&) {}
int main()
{
    int bad = 0, n = 0;
    for(size_t doclen : {1u, 20u, 100u, 240u, 250u, 260u, 400u, 1000u, 5000u}) {
        // ":parameter\0:documentation\0=<doclen chars>\0" + the literal's own NUL
        std::string meta(":parameter\0:documentation\0=", 27);
        meta += std::string(doclen, 'd');
        meta.push_back('\0');
        meta.push_back('\0');
        std::vector<char> block(meta.begin(), meta.end());   // exact size
        struct P : Ports { P() : Ports({}) {} void add(const char *n, const char *m) { ports.push_back(Port{n, m, 0, null_fn}); refreshMagic(); } } tab;
        tab.add("short:i", ":k\0");
        tab.add("long:i", block.data());
        char types[8]; rtosc_arg_t args[7];
        path_search(tab, "", "long", types, sizeof(types), args, 7, path_search_opts::sorted_and_unique_prefix, false);
        bool ok = !strcmp(types, "sb") && !strcmp(args[0].s, "long:i") && args[1].b.data == (uint8_t*)block.data()
                  && (size_t)args[1].b.len == block.size();
        char q[64], reply[8192];
        rtosc_message(q, sizeof(q), "/path-search", "ss", "", "long");
        size_t len = path_search(tab, q, 4, reply, sizeof(reply), path_search_opts::unmodified, false);
        bool okm = len && rtosc_narguments(reply) == 2 && (size_t)rtosc_argument(reply, 1).b.len == block.size()
                   && !memcmp(rtosc_argument(reply, 1).b.data, block.data(), block.size());
        ++n;
        if(!ok || !okm) {
            printf("FAIL: metadata block of %zu bytes: blob of %d bytes in the array reply, %d in the message\n", block.size(),
                   (int)args[1].b.len, len ? (int)rtosc_argument(reply, 1).b.len : -1);
            ++bad;
        }
    }
    printf("%d blocks, %d wrong\n", n, bad);
    return bad ? 1 : 0;
}
