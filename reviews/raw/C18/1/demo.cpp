// collapsePath on deep paths (more than 16 kept components), compared with a stack reference
#include <rtosc/ports.h>
#include <cstdio>
#include <cstring>
#include <string>
#include <vector>
static std::string stack_ref(const std::string &p)
{
    std::vector<std::string> st;
    size_t i = 1;
    while(i <= p.size()) {
        size_t j = p.find('/', i);
        if(j == std::string::npos) j = p.size();
        std::string c = p.substr(i, j - i);
        if(c == "..") { if(!st.empty()) st.pop_back(); }
        else st.push_back(c);
        i = j + 1;
    }
    std::string o;
    for(auto &c : st) o += "/" + c;
    return o;
}
int main()
{
    int bad = 0, n = 0;
    for(int depth = 1; depth <= 40; ++depth)
        for(int dots = 0; dots <= 3; ++dots) {
            std::string p;
            for(int i = 0; i < depth; ++i) p += "/n" + std::to_string(i);
            for(int i = 0; i < dots; ++i) p += "/..";
            p += "/leaf";
            std::vector<char> buf(p.begin(), p.end());
            buf.push_back(0);
            char *r = rtosc::Ports::collapsePath(buf.data());
            std::string want = stack_ref(p);
            ++n;
            if(want != r || (size_t)(r - buf.data()) != p.size() - want.size()) {
                if(bad < 5) printf("FAIL %s\n  got  %s\n  want %s\n", p.c_str(), r, want.c_str());
                ++bad;
            }
        }
    printf("%d paths, %d wrong\n", n, bad);
    return bad ? 1 : 0;
}
