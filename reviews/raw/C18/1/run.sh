#!/bin/sh
# usage: run.sh <tree>   (tree must have been built: <tree>/_build/librtosc-cpp.a, librtosc.a)
T=${1:?tree}
D=$(dirname "$0")
O=$(mktemp -d)
g++ -std=c++11 -I"$T/include" "$D/demo.cpp" "$T/_build/librtosc-cpp.a" "$T/_build/librtosc.a" -o "$O/demo" || exit 2
"$O/demo"; rc=$?
rm -rf "$O"
exit $rc
