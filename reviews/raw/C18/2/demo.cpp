// Ports::apropos on every address reported by walk_ports, in a tree with enumerated
// ("name#N/") sub-trees next to literal ones (with and without argument specifications).
#include <rtosc/ports.h>
#include <cstdio>
#include <cstring>
#include <string>
#include <vector>
using namespace rtosc;
static void null_fn(const char*, RtData&) {}
static const Ports voice_ports = {
    {"detune:i",  0, 0, null_fn},
    {"enabled:T:F", 0, 0, null_fn},
};
static const Ports part_ports = {
    {"gain:f",    0, 0,            null_fn},
    {"voice#8/",  0, &voice_ports, null_fn},
    {"lfo/:",     0, &voice_ports, null_fn},
};
static const Ports root = {
    {"volume:f",    0, 0,            null_fn},
    {"part#16/",    0, &part_ports,  null_fn},
    {"sys/efx#4/",  0, &voice_ports, null_fn},
    {"master/::i",  0, &part_ports,  null_fn},
};
struct seen_t { const Port *port; std::string addr; };
static std::vector<seen_t> seen;
static void walker(const Port *p, const char *addr, const char*, const Ports&, void*, void*)
{
    seen.push_back({p, addr});
}
int main()
{
    char buf[1024];
    memset(buf, 0, sizeof(buf));
    walk_ports(&root, buf, sizeof(buf), nullptr, walker);
    int bad = 0, bad_literal = 0;
    for(const auto &s : seen) {
        const Port *found = root.apropos(s.addr.c_str());
        if(found != s.port) {
            bool literal = s.addr.compare(0, 8, "/master/") == 0 && s.addr.find("voice") == std::string::npos;
            if(bad < 6)
                printf("FAIL: apropos(\"%s\") = %s, walked port was %s\n",
                       s.addr.c_str(), found ? found->name : "NULL", s.port->name);
            ++bad;
            bad_literal += literal;
        }
    }
    printf("%d addresses walked, %d wrong lookups (%d of them below literal-only names)\n",
           (int)seen.size(), bad, bad_literal);
    if(seen.size() < 50)
        return 2;
    return bad ? 1 : 0;
}
