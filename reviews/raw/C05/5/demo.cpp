// C05 review demo 5: a message matches when its type string equals ANY of the ':types'
// alternatives, however many are listed.
#include "common.h"
int main()
{
    expect_msg("value:i:f:s", "value", "s", true);
    expect_msg("value:i:f:s:T", "value", "T", true);
    expect_msg("value:i:f:s:T:F", "value", "T", true);
    expect_msg("value:i:f:s:T:F", "value", "F", true);
    expect_msg("value::i:f:T:F", "value", "F", true);
    expect_msg("value::i:f:T:F", "value", "", true);
    expect_msg("value:i:f:s:T:F", "value", "h", false);
    expect_msg("bank#8/slot#16/name:i:f:s:b:c:h", "bank7/slot15/name", "h", true);
    return done();
}
