// C05 review demo 2: '?' is not part of the documented pattern language (literal text, #N,
// {a,b}, trailing '/', ':types'); in a pattern it is literal text and only matches itself.
#include "common.h"
int main()
{
    expect_path("what?", "what?", true);
    expect_path("what?", "whatx", false);
    expect_path("a?c", "abc", false);
    expect_path("a?c", "a?c", true);
    expect_path("load?/", "load1/x", false);
    expect_path("ready?#4", "readyX3", false);
    expect_path("ready?#4", "ready?3", true);
    expect_msg("is-on?:T:F", "is-on!", "T", false);
    expect_msg("is-on?:T:F", "is-on?", "T", true);
    return done();
}
