// shared by the C05 review demos: check rtosc_match_path / rtosc_match on (pattern, address, types)
#include <rtosc/rtosc.h>
#include <cstdio>
#include <cstring>
#include <vector>
#include <string>
static int failures = 0;
// message "address ,types" with all-zero arguments, laid out as rtosc_amessage does, plus spare zero bytes
static std::vector<char> mk(const char *addr, const char *types)
{
    std::vector<char> b(strlen(addr) + strlen(types) + 16 + 8 * strlen(types) + 64, 0);
    size_t a = strlen(addr);
    memcpy(b.data(), addr, a);
    size_t p = a + (4 - a % 4);
    b[p] = ',';
    memcpy(b.data() + p + 1, types, strlen(types));
    return b;
}
static void expect_path(const char *pattern, const char *addr, bool expect)
{
    bool got = rtosc_match_path(pattern, addr, NULL) != NULL;
    if(got != expect) {
        printf("FAIL: rtosc_match_path('%s', '%s'): expected %s, got %s\n", pattern, addr,
               expect ? "match" : "no match", got ? "match" : "no match");
        failures++;
    }
}
static void expect_msg(const char *pattern, const char *addr, const char *types, bool expect)
{
    std::vector<char> m = mk(addr, types);
    bool got = rtosc_match(pattern, m.data(), NULL);
    if(got != expect) {
        printf("FAIL: rtosc_match('%s', '%s' ,'%s'): expected %d, got %d\n", pattern, addr, types, expect, got);
        failures++;
    }
}
static int done()
{
    if(failures) { printf("%d failure(s)\n", failures); return 1; }
    printf("ok\n");
    return 0;
}
