// C05 review demo 3: with ':types' alternatives a message only matches when its type string
// equals (or, for the last alternative, extends) one of them.  "[ii]" is neither equal to nor
// an extension of "ii"; "[ii]" listed as an alternative is matched by the type string "[ii]".
#include "common.h"
int main()
{
    expect_msg("pos:ii", "pos", "ii", true);
    expect_msg("pos:ii", "pos", "[ii]", false);
    expect_msg("pos:ii", "pos", "[i]i", false);
    expect_msg("pos:ii:f", "pos", "i[i]", false);
    expect_msg("pos:f:ii", "pos", "[ii", false);
    expect_msg("gains:[ff]", "gains", "[ff]", true);
    expect_msg("gains:[ff]:i", "gains", "[ff]", true);
    expect_msg("osc#4/pos:i", "osc3/pos", "[i]", false);
    // the message as the library itself builds it
    {
        char buf[128];
        memset(buf, 0, sizeof(buf));
        rtosc_arg_t a[4];
        memset(a, 0, sizeof(a));
        a[0].i = 1; a[1].i = 2;
        if(rtosc_amessage(buf, sizeof(buf), "pos", "[ii]", a) == 0) { printf("FAIL: cannot build message\n"); failures++; }
        if(rtosc_match("pos:ii", buf, NULL)) { printf("FAIL: rtosc_match('pos:ii', rtosc_amessage(pos,[ii])) = 1\n"); failures++; }
    }
    return done();
}
