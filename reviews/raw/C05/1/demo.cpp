// C05 review demo 1: literal text of a pattern is matched character for character;
// an address that differs in the case of a letter has a different character and must not match.
#include "common.h"
int main()
{
    expect_path("volume", "volume", true);
    expect_path("Volume", "Volume", true);
    expect_path("volume", "Volume", false);
    expect_path("volume", "VOLUME", false);
    expect_path("Pan/", "pan/x", false);
    expect_path("part#16/Pvolume", "part3/pvolume", false);
    expect_path("part#16/Pvolume", "part3/Pvolume", true);
    expect_path("osc#4/{a,b}x", "osc3/aX", false);
    expect_msg("Pfreq:i", "pfreq", "i", false);
    expect_msg("Pfreq:i", "Pfreq", "i", true);
    return done();
}
