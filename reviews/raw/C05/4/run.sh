#!/bin/sh
# usage: run.sh <tree>   (library must be built in <tree>/_build)
set -e
TREE="$1"
HERE="$(cd "$(dirname "$0")" && pwd)"
OUT="$(mktemp -d)"
c++ -std=c++11 -O1 -I"$TREE/include" "$HERE/demo.cpp" \
    "$TREE/_build/librtosc-cpp.a" "$TREE/_build/librtosc.a" -o "$OUT/demo"
set +e
"$OUT/demo"
rc=$?
rm -rf "$OUT"
exit $rc
