// C05 review demo 4: whether a message matches does not depend on whether the caller asks for
// path_end.  A pattern without trailing '/' only matches an address that ends where the
// pattern's path ends; Ports::dispatch calls rtosc_match with a non-NULL path_end.
#include "common.h"
#include <rtosc/ports.h>
static void expect_path_pe(const char *pattern, const char *addr, bool expect)
{
    const char *end = NULL;
    bool got = rtosc_match_path(pattern, addr, &end) != NULL;
    if(got != expect) {
        printf("FAIL: rtosc_match_path('%s', '%s', &end): expected %s, got %s\n", pattern, addr,
               expect ? "match" : "no match", got ? "match" : "no match");
        failures++;
    }
}
static void expect_msg_pe(const char *pattern, const char *addr, const char *types, bool expect)
{
    std::vector<char> m = mk(addr, types);
    const char *end = NULL;
    bool got = rtosc_match(pattern, m.data(), &end);
    if(got != expect) {
        printf("FAIL: rtosc_match('%s', '%s' ,'%s', &end): expected %d, got %d\n", pattern, addr, types, expect, got);
        failures++;
    }
}
static int called = 0;
static rtosc::Ports ports = {
    {"volume:i", "", NULL, [](const char *, rtosc::RtData &) { called++; }},
    {"slot#4:i", "", NULL, [](const char *, rtosc::RtData &) { called++; }},   // '#': no perfect hash, linear rtosc_match(.., &m_end)
};
int main()
{
    expect_path("volume", "volume/x", false);          // path_end == NULL
    expect_path_pe("volume", "volume", true);
    expect_path_pe("volume/", "volume/x", true);
    expect_path_pe("volume", "volume/x", false);
    expect_path_pe("part#4", "part3/x", false);
    expect_path_pe("{lo,hi}", "lo/", false);
    expect_msg_pe("volume:i", "volume/x", "i", false);
    expect_msg_pe("volume:i", "volume", "i", true);
    // seen through the dispatcher (location tracking on, table with a '#' port: ports.cpp:592)
    {
        std::vector<char> m = mk("volume/x", "i");
        rtosc::RtData d;
        char loc[128] = {0};
        d.loc = loc; d.loc_size = sizeof(loc); d.obj = NULL;
        ports.dispatch(m.data(), d, true);
        if(called) { printf("FAIL: message 'volume/x' ,i dispatched to port 'volume:i'\n"); failures++; }
    }
    return done();
}
