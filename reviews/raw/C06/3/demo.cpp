// C06 reviewer seed 3: raw_write() stages the message in write_buffer (memset + memcpy) before
// ring_write().  buffer() hands exactly that write_buffer to the caller "for more complicated
// tasks": the documented idiom is  rtosc_message(tl.buffer(), n, ...); tl.raw_write(tl.buffer());
// With the change the memset wipes the caller's message first, zeros are queued, read() frames
// length 0: the message is lost and the queue is stuck (hasNext stays true).
// Messages handed over in any other block still work, and that is all the C06 harness does.
#include <rtosc/rtosc.h>
#include <rtosc/thread-link.h>
#include <cstdio>
#include <cstring>
int main()
{
    rtosc::ThreadLink tl(32, 4);
    int fail = 0;
    char exp[32];
    for(int i = 0; i < 6; ++i) {
        size_t n = rtosc_message(exp, sizeof exp, "/composed/here", "i", i);
        rtosc_message(tl.buffer(), 32, "/composed/here", "i", i);
        tl.raw_write(tl.buffer());
        if(!tl.hasNext()) { printf("FAIL: message %d not queued\n", i); fail = 1; break; }
        const char *m = tl.read();
        if(memcmp(m, exp, n)) { printf("FAIL: message %d: read() did not return the message written\n", i); fail = 1; break; }
        if(tl.hasNext()) { printf("FAIL: hasNext() true after message %d was consumed\n", i); fail = 1; break; }
    }
    if(!fail) printf("OK\n");
    return fail;
}
