#!/bin/sh
# usage: run.sh <tree>   (tree must have been built: <tree>/_build/librtosc.a, librtosc-cpp.a)
T=${1:?usage: run.sh <tree>}
D=$(cd "$(dirname "$0")" && pwd)
OUT=$(mktemp -d)
trap 'rm -rf "$OUT"' EXIT
g++ -std=c++11 -O1 -g -fsanitize=thread -DNDEBUG -I"$T/include" -I"$T/src/cpp" "$D/demo.cpp" \
    "$T/_build/librtosc-cpp.a" "$T/_build/librtosc.a" -lpthread -o "$OUT/demo" || exit 3
export TSAN_OPTIONS="halt_on_error=1:exitcode=66:report_signal_unsafe=0"
setarch -R "$OUT/demo" > "$OUT/log" 2>&1
rc=$?
if grep -q "unexpected memory mapping" "$OUT/log" || [ $rc -eq 127 ]; then "$OUT/demo" > "$OUT/log" 2>&1; rc=$?; fi
grep -E "WARNING: ThreadSanitizer|FAIL|OK" "$OUT/log" | head -3
exit $rc
