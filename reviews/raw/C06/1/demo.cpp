// C06 reviewer seed 1: the write index is published / observed with memory_order_relaxed.
// Under the C++ memory model the reader's copy out of the ring is then unordered with the
// writer's copy into it (data race => torn/stale messages on weakly ordered hardware or after
// compiler reordering).  x86 hardware hides it, so the demo runs <tree>/src/cpp/thread-link.cpp
// under ThreadSanitizer: one writer thread, one reader thread, FIFO contents checked as well.
#include "thread-link.cpp"          // from <tree>/src/cpp (instrumented by -fsanitize=thread)
#include <thread>
#include <cstdio>
#include <cstdlib>
#include <sched.h>
int main()
{
    rtosc::ThreadLink tl(32, 4);
    const int N = 20000;
    int bad = 0;
    std::thread w([&] {
        for(int i = 0; i < N; ) {
            // "accepted" cannot be observed through the API: use the free space rule (28-byte messages)
            tl.write("/abcdefghijklmnop", "i", i);
            // the reader tells us what arrived; resend until it shows up is not possible without
            // feedback, so simply pace the writer: wait until the ring is drained enough
            ++i;
            while(tl.hasNext() && (i % 3) == 0) sched_yield();
        }
    });
    std::thread r([&] {
        int last = -1;
        long idle = 0;
        while(last < N - 1 && idle < 200000000L) {
            if(!tl.hasNext()) { ++idle; continue; }
            idle = 0;
            const char *m = tl.read();
            if(strcmp(m, "/abcdefghijklmnop") || strcmp(rtosc_argument_string(m), "i")) { ++bad; break; }
            int v = rtosc_argument(m, 0).i;
            if(v <= last) { ++bad; break; }       // duplicated / reordered
            last = v;                              // (drops of non-fitting writes are allowed)
        }
    });
    w.join();
    r.join();
    if(bad) { printf("FAIL: torn / duplicated message\n"); return 1; }
    printf("OK (FIFO contents)\n");
    return 0;   // ThreadSanitizer turns a detected data race into exit code 66
}
