// C06 reviewer seed 2: ThreadLink::read keeps its two-segment ring view in a function-local
// `static`, i.e. in storage shared by every ThreadLink of the process.  Every real user has
// two links (GUI->RT read by the RT thread, RT->GUI read by the GUI thread).  Each link still
// has exactly one writer and one reader, but when the two readers overlap, link A frames its
// next message on link B's ring view: wrong length, torn message, read index left inside a
// message.
// The demo forces that overlap deterministically with two real reader threads: thread-link.cpp
// of <tree> is compiled into this file with rtosc_message_ring_length() routed through a hook;
// when reader A reaches its framing step it lets reader B perform one complete B.read() and
// waits for it, then goes on.
#include <rtosc/rtosc.h>
#include <atomic>
#include <thread>
#include <cstdio>
#include <cstring>
#include <string>

static std::atomic<int> g_phase(0);    // 0 idle, 1 "B: go", 2 "B: done"
static std::atomic<bool> g_arm(false);
static thread_local bool t_isA = false;
static size_t hook_ring_length(ring_t *r)
{
    if(t_isA && g_arm.exchange(false)) {
        g_phase.store(1);
        while(g_phase.load() != 2) std::this_thread::yield();
    }
    return rtosc_message_ring_length(r);
}
#define rtosc_message_ring_length hook_ring_length
#include "thread-link.cpp"
#undef rtosc_message_ring_length

int main()
{
    rtosc::ThreadLink A(32, 4), B(32, 4);
    // writers (their threads have finished: nothing but the two readers runs below)
    A.write("/abcdefghijklmnop", "i", 1);       // 28 bytes
    A.write("/abcdefghijklmnop", "i", 2);
    B.write("/b", "");                          // 8 bytes
    B.write("/c", "");
    char expA[64], expA2[64];
    size_t la = rtosc_message(expA, sizeof expA, "/abcdefghijklmnop", "i", 1);
    rtosc_message(expA2, sizeof expA2, "/abcdefghijklmnop", "i", 2);
    std::string gotB;
    std::thread rb([&] {
        while(g_phase.load() != 1) std::this_thread::yield();
        gotB = B.read();                        // one complete read of the *other* link
        g_phase.store(2);
    });
    int fail = 0;
    std::thread ra([&] {
        t_isA = true;
        g_arm.store(true);
        const char *m = A.read();
        if(memcmp(m, expA, la)) { printf("FAIL: A.read() #1 is not the first message written to A (torn)\n"); fail = 1; }
        m = A.read();
        if(memcmp(m, expA2, la)) { printf("FAIL: A.read() #2 is not the second message written to A\n"); fail = 1; }
        if(A.hasNext()) { printf("FAIL: A.hasNext() is true after both messages were consumed\n"); fail = 1; }
    });
    ra.join();
    rb.join();
    if(gotB != "/b") { printf("FAIL: B.read() returned %s\n", gotB.c_str()); fail = 1; }
    if(!fail) printf("OK\n");
    return fail;
}
