// C06 reviewer seed 4: hasNext() passes the number of queued bytes through an `unsigned char`.
// Whenever a multiple of 256 bytes is queued, hasNext()/hasNextLookahead() answer false although
// accepted messages have not been consumed: a polling reader (`while(tl.hasNext()) tl.read()`)
// stops and the messages stay in the ring.  Needs a ring of more than 256 bytes; the C06
// generator never builds one larger than 128 bytes (MaxMsg <= 32, max_messages <= 4).
#include <rtosc/rtosc.h>
#include <rtosc/thread-link.h>
#include <cstdio>
#include <cstring>
int main()
{
    int fail = 0;
    for(int shift = 0; shift < 3 && !fail; ++shift) {
        rtosc::ThreadLink tl(64, 8);                 // 512-byte ring
        for(int k = 0; k < shift; ++k) {             // rotate the ring a little
            tl.write("/abcdefghijklmnopqrs", "i", -1);
            tl.read();
        }
        int queued = 0;
        for(int i = 0; i < 8; ++i) {                 // 8 x 32 bytes = 256 bytes queued
            tl.write("/abcdefghijklmnopqrs", "i", i);   // 21+3 pad, ",i\0\0", 4 = 32 bytes
            ++queued;
            if(!tl.hasNext()) { printf("FAIL: hasNext() false with %d accepted messages unread\n", queued); fail = 1; break; }
            if(!tl.hasNextLookahead()) { printf("FAIL: hasNextLookahead() false with %d accepted messages unseen\n", queued); fail = 1; break; }
        }
        int got = 0;
        while(!fail && tl.hasNext()) {
            const char *m = tl.read();
            if(rtosc_argument(m, 0).i != got) { printf("FAIL: wrong order\n"); fail = 1; }
            ++got;
        }
        if(!fail && got != queued) { printf("FAIL: %d of %d messages came out\n", got, queued); fail = 1; }
    }
    if(!fail) printf("OK\n");
    return fail;
}
