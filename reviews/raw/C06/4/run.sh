#!/bin/sh
# usage: run.sh <tree>   (tree must have been built: <tree>/_build/librtosc.a, librtosc-cpp.a)
T=${1:?usage: run.sh <tree>}
D=$(cd "$(dirname "$0")" && pwd)
OUT=$(mktemp -d)
trap 'rm -rf "$OUT"' EXIT
g++ -std=c++11 -O1 -g -I"$T/include" "$D/demo.cpp" "$T/_build/librtosc-cpp.a" "$T/_build/librtosc.a" -o "$OUT/demo" || exit 3
"$OUT/demo"
