#include "common.h"
struct Obj { int arr[4]; int big[300]; float pf; static const rtosc::Ports ports; };
#define rObject Obj
const rtosc::Ports Obj::ports = {
    rArrayI(arr, 4, rLinear(0, 200), "int array, max above CHAR_MAX"),
    rArrayI(big, 300, rLinear(0, 100), "long array"),
    rParamF(pf, rLinear(0,1), "f"),
};
#undef rObject
struct Mid { Obj sub; static const rtosc::Ports ports; };
#define rObject Mid
const rtosc::Ports Mid::ports = { rRecur(sub, "o") };
#undef rObject
struct Top { Mid mid; static const rtosc::Ports ports; };
#define rObject Top
const rtosc::Ports Top::ports = { rRecur(mid, "o") };
#undef rObject
int main() {
    Top t; memset(&t, 0, sizeof t);
    char m[256];
    { Log l(&t.mid.sub); rtosc_message(m, 256, "/arr1", "i", 100); Obj::ports.dispatch(m, l, true);
      printf("arr1 <- 100 (declared 0..200): stored %d\n", t.mid.sub.arr[1]); for(auto&e:l.ev) printf("  %c %s %s\n", e.kind, e.addr.c_str(), e.tags.c_str()); }
    { Log l(&t); rtosc_message(m, 256, "/mid/sub/big260", "i", 5); Top::ports.dispatch(m, l, true);
      printf("big260 <- 5: big[260]=%d big[4]=%d matches=%d\n", t.mid.sub.big[260], t.mid.sub.big[4], l.matches); for(auto&e:l.ev) printf("  %c %s %s %s\n", e.kind, e.addr.c_str(), e.tags.c_str(), e.s.size()?e.s[0].c_str():""); }
    { Log l(&t); rtosc_message(m, 256, "/mid/sub/pf", "f", 0.5f); Top::ports.dispatch(m, l, true);
      for(auto&e:l.ev) printf("  %c %s %s %s\n", e.kind, e.addr.c_str(), e.tags.c_str(), e.s.size()?e.s[0].c_str():""); }
    return 0;
}
