#include "common.h"
struct Obj { int col; static const rtosc::Ports ports; };
#define rObject Obj
const rtosc::Ports Obj::ports = { rOption(col, rOptions(red, blue, green), "colour") };
#undef rObject
int main() {
    Obj o; o.col = 0; char m[256]; Log l(&o);
    rtosc_message(m, 256, "/col", "Si", "blue", 1);
    Obj::ports.dispatch(m, l, true);
    printf("survived, col=%d, %zu events\n", o.col, l.ev.size());
    return 0;
}
