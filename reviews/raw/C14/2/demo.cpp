// M2: typo in the OPTIONS_IMP9 table -> the 9th symbol of rOptions(...) is declared as `map 7`
#include "common.h"
struct Obj { int shape; static const rtosc::Ports ports; };
#define rObject Obj
const rtosc::Ports Obj::ports = {
    rOption(shape, rOptions(sine, tri, saw, square, pulse, noise, ramp, exp, chirp), rLinear(0, 8), "nine options"),
};
#undef rObject
int main() {
    Obj o; o.shape = 0;
    char m[256];
    Log l(&o);
    rtosc_message(m, 256, "/shape", "S", "chirp");     // 9th symbol = index 8
    Obj::ports.dispatch(m, l, true);
    CHECK(o.shape == 8, "symbol `chirp` (index 8 of rOptions) stored as %d", o.shape);
    bool bc = false;
    for(auto &e : l.ev) if(e.kind == 'B' && e.addr == "/shape" && e.a.size() == 1 && e.a[0].i == 8) bc = true;
    CHECK(bc, "no broadcast of the value 8");
    printf(fails ? "property broken\n" : "ok\n");
    return fails ? 1 : 0;
}
