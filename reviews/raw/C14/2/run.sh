#!/bin/sh
# usage: run.sh <tree>   (exit 0 = property holds on the demo, non-zero = broken)
T="$1"; D="$(dirname "$0")"; O="$(mktemp -d)"
g++ -std=c++11 -O1 -DNDEBUG -I"$T/include" -I"$D" "$D/demo.cpp" "$T/_build/librtosc-cpp.a" "$T/_build/librtosc.a" -o "$O/demo" || exit 3
"$O/demo"; rc=$?; rm -rf "$O"; exit $rc
