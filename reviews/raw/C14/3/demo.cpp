// M3: rArrayTCbMember assigns before it compares -> a changed toggle is never broadcast
#include "common.h"
struct Voice { int pad; bool enabled; };
struct Obj { Voice voice[4]; static const rtosc::Ports ports; };
#define rObject Obj
const rtosc::Ports Obj::ports = {
    {"voice#4::T:F", rProp(parameter) rDoc("per-voice enable"), NULL, rArrayTCbMember(voice, enabled)},
};
#undef rObject
int main() {
    Obj o; memset(&o, 0, sizeof o);
    char m[256];
    Log l(&o);
    rtosc_message(m, 256, "/voice2", "T");
    Obj::ports.dispatch(m, l, true);
    CHECK(o.voice[2].enabled, "voice[2].enabled not set");
    bool bc = false;
    for(auto &e : l.ev) if(e.kind == 'B' && e.addr == "/voice2" && e.tags == "T") bc = true;
    CHECK(bc, "change false -> true of /voice2 was not broadcast (%zu events)", l.ev.size());
    printf(fails ? "property broken\n" : "ok\n");
    return fails ? 1 : 0;
}
