// M1: array index narrowed to one byte -> arrays longer than 256 address the wrong element
#include "common.h"
struct Obj { int g0; int big[300]; int g1; static const rtosc::Ports ports; };
#define rObject Obj
const rtosc::Ports Obj::ports = { rArrayI(big, 300, rLinear(0, 100), "long array") };
#undef rObject
int main() {
    Obj o; memset(&o, 0, sizeof o);
    char m[256];
    Log l(&o);
    rtosc_message(m, 256, "/big260", "i", 5);
    Obj::ports.dispatch(m, l, true);
    CHECK(o.big[260] == 5, "big[260] = %d after /big260 i 5", o.big[260]);
    for(int i = 0; i < 300; ++i) if(i != 260) CHECK(o.big[i] == 0, "element %d (not addressed) changed to %d", i, o.big[i]);
    Log q(&o);
    rtosc_message(m, 256, "/big260", "");
    Obj::ports.dispatch(m, q, true);
    CHECK(q.ev.size() == 1 && q.ev[0].addr == "/big260" && q.ev[0].a[0].i == 5, "query of /big260 does not reply 5");
    printf(fails ? "property broken\n" : "ok\n");
    return fails ? 1 : 0;
}
