// M4: RtData::reply/broadcast format into a 256-byte buffer -> replies that need more are lost
#include "common.h"
struct Obj { char comment[512]; static const rtosc::Ports ports; };
#define rObject Obj
const rtosc::Ports Obj::ports = { rString(comment, 512, "free text") };
#undef rObject
int main() {
    Obj o; memset(&o, 0, sizeof o);
    std::string text(300, 'x');
    std::vector<char> m(1024);
    Log l(&o);
    rtosc_message(m.data(), m.size(), "/comment", "s", text.c_str());
    Obj::ports.dispatch(m.data(), l, true);
    CHECK(text == o.comment, "stored string has length %zu", strlen(o.comment));
    bool bc = false;
    for(auto &e : l.ev) if(e.kind == 'B' && e.addr == "/comment" && e.tags == "s" && e.s[0] == text) bc = true;
    CHECK(bc, "the new string was not broadcast at /comment");
    Log q(&o);
    rtosc_message(m.data(), m.size(), "/comment", "");
    Obj::ports.dispatch(m.data(), q, true);
    bool rp = q.ev.size() == 1 && q.ev[0].kind == 'R' && q.ev[0].addr == "/comment" && q.ev[0].tags == "s" && q.ev[0].s[0] == text;
    CHECK(rp, "query does not reply the stored string");
    printf(fails ? "property broken\n" : "ok\n");
    return fails ? 1 : 0;
}
