// shared by the demo programs: an RtData that records replies/broadcasts
#include <rtosc/rtosc.h>
#include <rtosc/ports.h>
#include <rtosc/port-sugar.h>
#include <cstdio>
#include <cstring>
#include <string>
#include <vector>
struct Ev { char kind; std::string addr, tags; std::vector<rtosc_arg_t> a; std::vector<std::string> s; };
struct Log : rtosc::RtData {
    char locbuf[1024];
    std::vector<Ev> ev;
    Log(void *o) { memset(locbuf, 0, sizeof locbuf); loc = locbuf; loc_size = sizeof locbuf; obj = o; }
    void add(char k, const char *m) {
        Ev e; e.kind = k; e.addr = m; e.tags = rtosc_argument_string(m);
        for(unsigned i = 0; i < rtosc_narguments(m); ++i) {
            e.a.push_back(rtosc_argument(m, i));
            char t = rtosc_type(m, i);
            e.s.push_back((t == 's' || t == 'S') ? rtosc_argument(m, i).s : "");
        }
        ev.push_back(e);
    }
    void reply(const char *m) override { add('R', m); }
    void broadcast(const char *m) override { add('B', m); }
    using rtosc::RtData::reply;
    using rtosc::RtData::broadcast;
};
static int fails = 0;
#define CHECK(c, ...) do { if(!(c)) { ++fails; printf("FAIL: " __VA_ARGS__); printf("\n"); } } while(0)
