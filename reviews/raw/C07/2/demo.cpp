// C07 reviewer seed 2: rtosc_argument()/rtosc_itr_next() lose bits 8..15 of a blob length.
// Only blobs of >= 256 bytes are affected; the message below is 312 bytes (<= 512).
#include <rtosc/rtosc.h>
#include <cstdio>
#include <cstring>
#include <cstdlib>

int main()
{
    const unsigned L = 300;
    const size_t n = 4 + 4 + 4 + L;                  // "/b" ",b" len data(300, no padding)
    unsigned char *msg = (unsigned char*)calloc(n, 1);
    memcpy(msg, "/b\0\0,b\0\0", 8);
    msg[8] = 0; msg[9] = 0; msg[10] = L >> 8; msg[11] = L & 255;
    for(unsigned i = 0; i < L; ++i) msg[12 + i] = (unsigned char)(i * 7 + 1);
    const char *m = (const char*)msg;
    if(rtosc_message_length(m, n) != n || !rtosc_valid_message_p(m, n)) {
        puts("validator rejects a canonical message");
        return 2;
    }
    rtosc_arg_t a = rtosc_argument(m, 0);
    rtosc_arg_itr_t it = rtosc_itr_begin(m);
    rtosc_arg_val_t v = rtosc_itr_next(&it);
    printf("blob length in the bytes: %u; rtosc_argument: %d; iterator: %d\n", L, (int)a.b.len, (int)v.val.b.len);
    int bad = a.b.len != (int)L || v.val.b.len != (int)L || a.b.data != msg + 12;
    puts(bad ? "FAIL: accepted message, blob returned with the wrong length" : "OK");
    free(msg);
    return bad;
}
