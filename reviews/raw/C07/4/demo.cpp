// C07 reviewer seed 4: rtosc_valid_message_p() remembers (pointer, length) of the last accepted
// message and answers `true` for the same pair without looking at the bytes again.  A receive
// buffer that is reused for the next datagram of the same size is "validated" on its old content.
#include <rtosc/rtosc.h>
#include <cstdio>
#include <cstring>
#include <cstdlib>

int main()
{
    const size_t n = 16;
    char *buf = (char*)malloc(n);                       // the receive buffer
    memcpy(buf, "/a\0\0,ii\0\0\0\0\7\0\0\0\10", n);         // "/a" ",ii" 7 8 : canonical, 16 bytes
    bool first = rtosc_valid_message_p(buf, n);
    // next datagram, same size, same buffer: a string argument without terminator
    memcpy(buf, "/a\0\0,s\0\0AAAAAAAA", n);
    size_t len = rtosc_message_length(buf, n);
    bool second = rtosc_valid_message_p(buf, n);
    printf("first datagram valid=%d; second datagram: rtosc_message_length=%zu valid=%d\n",
           (int)first, len, (int)second);
    int bad = !first || second;
    puts(bad ? "FAIL: a buffer without string terminator is accepted (verdict taken from the previous content)" : "OK");
    free(buf);
    return bad;
}
