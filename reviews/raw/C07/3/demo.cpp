// C07 reviewer seed 3: rtosc_message_length() stops scanning a string argument after 256
// bytes.  A 268-byte buffer "/a" ",s" + 260 non-NUL bytes (no terminator anywhere) is then
// measured as 268 bytes and ACCEPTED by rtosc_valid_message_p(); following the string that
// rtosc_argument() returns runs past the end of the buffer.
#include <rtosc/rtosc.h>
#include <cstdio>
#include <cstring>
#include <cstdlib>

int main()
{
    const size_t n = 268;
    // the buffer sits at the end of a larger block whose tail plays "foreign memory"
    unsigned char *blk = (unsigned char*)malloc(n + 64);
    memset(blk, 'A', n + 64);
    blk[n + 40] = 0;
    memcpy(blk, "/a\0\0,s\0\0", 8);
    const char *m = (const char*)blk;
    size_t len = rtosc_message_length(m, n);
    bool ok = rtosc_valid_message_p(m, n);
    printf("n=%zu: rtosc_message_length=%zu valid=%d\n", n, len, (int)ok);
    int bad = 0;
    if(ok) {
        const char *s = rtosc_argument(m, 0).s;
        size_t end = (size_t)(s - m) + strlen(s) + 1;      // what a caller touches
        printf("string argument at offset %ld, terminator at offset %zu (buffer has %zu bytes)\n",
               (long)(s - m), end - 1, n);
        if(end > n) bad = 1;
    }
    puts(bad ? "FAIL: accepted buffer, string argument is not terminated inside the n bytes" : "OK");
    free(blk);
    return bad;
}
