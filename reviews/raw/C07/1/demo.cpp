// C07 reviewer seed 1: alignment of the argument area computed from the *pointer value*
// instead of from the offset inside the message.  Identical for a 4-byte aligned msg pointer
// (every malloc block, i.e. every case the `valid` harness runs); wrong for msg % 4 != 0.
#include <rtosc/rtosc.h>
#include <cstdio>
#include <cstring>
#include <cstdlib>

int main()
{
    // "/a" ",si" "ab" 7   -- 16 bytes, canonical OSC 1.0
    static const unsigned char m[16] = {'/','a',0,0, ',','s','i',0, 'a','b',0,0, 0,0,0,7};
    int bad = 0;
    for(int k = 0; k < 4; ++k) {
        // exact-size block placed at (16-aligned base)+k
        unsigned char *base = (unsigned char*)malloc(16 + k);
        char *msg = (char*)base + k;
        memcpy(msg, m, 16);
        if(rtosc_message_length(msg, 16) != 16 || !rtosc_valid_message_p(msg, 16)) {
            printf("k=%d: validator rejects a canonical message\n", k);
            bad = 1;
            free(base);
            continue;
        }
        // the validator accepted: every reader has to return what the bytes say
        int32_t by_index = rtosc_argument(msg, 1).i;
        const char *s0   = rtosc_argument(msg, 0).s;
        rtosc_arg_itr_t it = rtosc_itr_begin(msg);
        rtosc_arg_val_t a0 = rtosc_itr_next(&it);
        rtosc_arg_val_t a1 = rtosc_itr_next(&it);
        long soff = a0.val.s - msg;
        printf("k=%d: argument(1).i=%d  argument(0).s@%ld  itr: s@%ld i=%d\n",
               k, (int)by_index, (long)(s0 - msg), soff, (int)a1.val.i);
        if(by_index != 7 || s0 - msg != 8 || soff != 8 || a1.val.i != 7)
            bad = 1;
        free(base);
    }
    puts(bad ? "FAIL: readers disagree with the bytes of an accepted message" : "OK");
    return bad;
}
