// C15 demo: two different parameters whose addresses share a long common prefix are
// separate undo steps, even when changed within two seconds of each other.
#include <rtosc/rtosc.h>
#include <rtosc/undo-history.h>
#include <cstdio>
#include <cstring>
#include <ctime>
#include <string>
#include <vector>

static time_t fake_now = 1000;
extern "C" time_t time(time_t *t) { if(t) *t = fake_now; return fake_now; }

static std::vector<std::string> out;
static int fails = 0;
#define CHECK(c) do { if(!(c)) { printf("FAIL line %d: %s\n", __LINE__, #c); fails++; } } while(0)

static void rec(rtosc::UndoHistory &h, const char *addr, int o, int n)
{
    char buf[256];
    rtosc_message(buf, sizeof(buf), "/undo_change", "sii", addr, o, n);
    h.recordEvent(buf);
}

int main()
{
    rtosc::UndoHistory h;
    h.setCallback([](const char *m) {
        char s[160];
        snprintf(s, sizeof(s), "%s=%d", m, rtosc_argument(m, 0).i);
        out.push_back(s);
    });
    const char *vol = "/part0/kit3/adpars/VoicePar7/volume";
    const char *pan = "/part0/kit3/adpars/VoicePar7/panning";
    const char *v6  = "/part0/kit3/adpars/VoicePar6/volume";

    fake_now = 1000; rec(h, vol, 10, 20);
    fake_now = 1001; rec(h, pan, 64, 0);      // other parameter -> its own entry
    CHECK(h.size() == 2);
    CHECK(h.getPos() == 2);
    fake_now = 1001; rec(h, v6, 5, 6);        // other voice -> its own entry
    CHECK(h.size() == 3);

    h.seekHistory(-100);                      // undo everything: each parameter back to its old value
    CHECK(h.getPos() == 0);
    CHECK(out.size() == 3);
    CHECK(out.size() == 3 && out[0] == std::string(v6) + "=5");
    CHECK(out.size() == 3 && out[1] == std::string(pan) + "=64");
    CHECK(out.size() == 3 && out[2] == std::string(vol) + "=10");
    out.clear();
    h.seekHistory(+100);
    CHECK(out.size() == 3);
    CHECK(out.size() == 3 && out[0] == std::string(vol) + "=20");
    CHECK(out.size() == 3 && out[1] == std::string(pan) + "=0");

    // a genuine merge still works
    fake_now = 1002; rec(h, v6, 6, 7);
    CHECK(h.size() == 3);

    if(fails) { for(auto &s : out) printf("  emitted %s\n", s.c_str()); printf("%d check(s) failed\n", fails); return 1; }
    printf("ok\n");
    return 0;
}
