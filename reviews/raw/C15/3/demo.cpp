// C15 demo: the two-second merge window at a present-day wall clock (time() ~ 1.7e9):
// changes of one address 10 s apart are two undo steps, changes 1 s apart are one.
#include <rtosc/rtosc.h>
#include <rtosc/undo-history.h>
#include <cstdio>
#include <cstring>
#include <ctime>
#include <string>
#include <vector>

static time_t fake_now = 1000;
extern "C" time_t time(time_t *t) { if(t) *t = fake_now; return fake_now; }

static std::vector<std::string> out;
static int fails = 0;
#define CHECK(c) do { if(!(c)) { printf("FAIL line %d: %s\n", __LINE__, #c); fails++; } } while(0)

static void rec(rtosc::UndoHistory &h, const char *addr, int o, int n)
{
    char buf[256];
    rtosc_message(buf, sizeof(buf), "/undo_change", "sii", addr, o, n);
    h.recordEvent(buf);
}

static void scenario(time_t base)
{
    rtosc::UndoHistory h;
    out.clear();
    h.setCallback([](const char *m) {
        char s[128];
        snprintf(s, sizeof(s), "%s=%d", m, rtosc_argument(m, 0).i);
        out.push_back(s);
    });
    fake_now = base;      rec(h, "/vol", 0, 1);
    fake_now = base + 10; rec(h, "/vol", 1, 2);     // 10 s later -> a new undo step
    CHECK(h.size() == 2);
    CHECK(h.getPos() == 2);
    fake_now = base + 11; rec(h, "/vol", 2, 3);     // 1 s later -> merged into the second
    CHECK(h.size() == 2);
    fake_now = base + 14; rec(h, "/pan", 64, 0);    // other address
    CHECK(h.size() == 3);
    fake_now = base + 100; rec(h, "/pan", 0, 5);    // 86 s later -> new step
    CHECK(h.size() == 4);

    h.seekHistory(-1);
    CHECK(out.size() == 1 && out[0] == "/pan=0");
    h.seekHistory(-3);
    CHECK(out.size() == 4 && out[1] == "/pan=64" && out[2] == "/vol=1" && out[3] == "/vol=0");
    CHECK(h.getPos() == 0);
}

int main()
{
    scenario(1000);                 // small clock values
    scenario(1700000100);           // 2023-11-14, what time(NULL) really returns
    scenario(1790000000);
    if(fails) { printf("%d check(s) failed\n", fails); return 1; }
    printf("ok\n");
    return 0;
}
