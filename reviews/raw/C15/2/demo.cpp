// C15 demo: events for the same address recorded within two seconds merge into one
// (first old value, last new value) -- also for a long (but perfectly legal, < 248 byte) address.
#include <rtosc/rtosc.h>
#include <rtosc/undo-history.h>
#include <cstdio>
#include <cstring>
#include <ctime>
#include <string>
#include <vector>

static time_t fake_now = 1000;
extern "C" time_t time(time_t *t) { if(t) *t = fake_now; return fake_now; }

static std::vector<std::string> out;
static int fails = 0;
#define CHECK(c) do { if(!(c)) { printf("FAIL line %d: %s\n", __LINE__, #c); fails++; } } while(0)

static void rec(rtosc::UndoHistory &h, const char *addr, int o, int n)
{
    char buf[512];
    rtosc_message(buf, sizeof(buf), "/undo_change", "sii", addr, o, n);
    h.recordEvent(buf);
}

int main()
{
    rtosc::UndoHistory h;
    h.setCallback([](const char *m) {
        char s[300];
        snprintf(s, sizeof(s), "%s=%d", m, rtosc_argument(m, 0).i);
        out.push_back(s);
    });
    // 100-byte address (deeply nested parameter)
    std::string deep = "/part12/kit15/adpars/VoicePar7/FreqEnvelope/subtree/with/quite/some/more/levels/below/it/Penvval_017";
    while(deep.size() < 100) deep += "x";
    const char *a = deep.c_str();

    fake_now = 1000; rec(h, a, 0, 1);
    fake_now = 1001; rec(h, a, 1, 2);         // 1 s later, same address -> merge
    CHECK(h.size() == 1);
    CHECK(h.getPos() == 1);
    fake_now = 1002; rec(h, a, 2, 3);         // again
    CHECK(h.size() == 1);

    h.seekHistory(-1);                        // one undo step brings back the first old value
    CHECK(out.size() == 1 && out[0] == deep + "=0");
    CHECK(h.getPos() == 0);
    out.clear();
    h.seekHistory(+1);
    CHECK(out.size() == 1 && out[0] == deep + "=3");

    // short addresses were never affected
    rtosc::UndoHistory g;
    g.setCallback([](const char *) {});
    fake_now = 2000; rec(g, "/vol", 0, 1);
    fake_now = 2001; rec(g, "/vol", 1, 2);
    CHECK(g.size() == 1);

    if(fails) { for(auto &s : out) printf("  emitted %s\n", s.c_str()); printf("%d check(s) failed\n", fails); return 1; }
    printf("ok\n");
    return 0;
}
