import sys
p=sys.argv[1]+"/src/cpp/arg-val-cmp.c"
s=open(p).read()
# helper
old_inc="#include <rtosc/arg-ext.h>\n"
new_inc="""#include <rtosc/arg-ext.h>
#include <float.h>
#include <math.h>

// floating point values are "the same" if they are equal or differ by no more
// than the rounding error of their magnitude
static int feq_f(float a, float b)
{
    return a == b || fabsf(a - b) <= FLT_EPSILON * fmaxf(fabsf(a), fabsf(b));
}
static int feq_d(double a, double b)
{
    return a == b || fabs(a - b) <= DBL_EPSILON * fmax(fabs(a), fabs(b));
}
"""
assert old_inc in s
s=s.replace(old_inc,new_inc)
for (o,n) in [
 ("? _lhs->val.f == _rhs->val.f\n", "? feq_f(_lhs->val.f, _rhs->val.f)\n"),
 ("? _lhs->val.d == _rhs->val.d\n", "? feq_d(_lhs->val.d, _rhs->val.d)\n"),
 ("? cmp_3way(_lhs->val.f, _rhs->val.f)\n", "? (feq_f(_lhs->val.f, _rhs->val.f) ? 0 : cmp_3way(_lhs->val.f, _rhs->val.f))\n"),
 ("? cmp_3way(_lhs->val.d, _rhs->val.d)\n", "? (feq_d(_lhs->val.d, _rhs->val.d) ? 0 : cmp_3way(_lhs->val.d, _rhs->val.d))\n"),
]:
    assert o in s, o
    s=s.replace(o,n)
open(p,"w").write(s)
