import sys,re
p=sys.argv[1]+"/src/cpp/arg-val-cmp.c"
s=open(p).read()
old="""                     : cmp_3way(_lhs->val.t, _rhs->val.t);"""
new="""                     // compare the points in time, in seconds
                     : cmp_3way((double)_lhs->val.t / 4294967296.0,
                                (double)_rhs->val.t / 4294967296.0);"""
assert old in s
open(p,"w").write(s.replace(old,new))
