import sys
p=sys.argv[1]+"/src/cpp/arg-val-math.c"
s=open(p).read()
old="""        case 'f': av->val.f = number; return true;
        case 'c':
        case 'i': av->val.i = number; return true;
        case 'F':
        case 'T':
            // note: we discard av->type here!
            //       it's clear that the decision should be based on "number",
            //       not on the current type
            av->val.T = (number != 0.0);
            av->type = av->val.T ? 'T' : 'F';
            return true;
        default: return false;
    }
}

int rtosc_arg_val_from_double"""
new="""        case 'f': av->val.f = number; return true;
        case 'c': av->val.i = (char)number; return true; // a 'c' holds a char
        case 'i': av->val.i = number; return true;
        case 'F':
        case 'T':
            // note: we discard av->type here!
            //       it's clear that the decision should be based on "number",
            //       not on the current type
            av->val.T = (number != 0.0);
            av->type = av->val.T ? 'T' : 'F';
            return true;
        default: return false;
    }
}

int rtosc_arg_val_from_double"""
assert old in s
open(p,"w").write(s.replace(old,new))
