import sys
p=sys.argv[1]+"/src/cpp/arg-val-cmp.c"
s=open(p).read()
old="""            rval = memcmp(_lhs->val.b.data, _rhs->val.b.data, minlen);
            if(lbs != rbs && !rval)"""
new="""            rval = strncmp((const char*)_lhs->val.b.data,
                           (const char*)_rhs->val.b.data, minlen);
            if(lbs != rbs && !rval)"""
assert old in s
open(p,"w").write(s.replace(old,new))
