#!/bin/bash
# usage: try.sh <i> [tier]
i=$1; tier=${2:-quick}
cd /tmp/rev-C16 && git checkout -- . && python3 /tmp/rev-C16-out/patches/m$i.py /tmp/rev-C16 || exit 9
git -C /tmp/rev-C16 diff > /tmp/rev-C16-out/patches/m$i.diff
(cmake -G Ninja -B _build -S . >/dev/null 2>&1 && cmake --build _build 2>&1 | grep -E "error|warning: impl" | head; ctest --test-dir _build -j8 --timeout 900 2>&1 | grep -E "tests passed|Failed|\*\*\*" | head -5)
cd /verif && VERIF_REPO=/tmp/rev-C16 VERIF_BUILD=/tmp/revbuild-C16 python3 tools/check.py C16 --tier $tier 2>&1 | tail -4; echo "check exit=${PIPESTATUS[0]}"
