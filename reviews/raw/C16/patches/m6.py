import sys
p=sys.argv[1]+"/src/cpp/arg-val.c"
s=open(p).read()
old="""    rtosc_arg_val_itr itr;
    rtosc_arg_val_itr_init(&itr, args);
"""
new="""    rtosc_arg_val_itr itr;
    rtosc_arg_val_itr_init(&itr, args);

    // keep the stack arrays below small: no more than 128 arg vals per message
    if(nargs > 128)
        nargs = 128;
"""
assert old in s
open(p,"w").write(s.replace(old,new))
