// C16: "returns 0 exactly when the equality test reports equal", "orders numbers numerically":
// two NTP time tags (year ~2023) that differ in the lowest fraction bit
#include <rtosc/rtosc.h>
#include <rtosc/arg-val-cmp.h>
#include <cstdio>
#include <cstring>
int main() {
    rtosc_arg_val_t l, r;
    memset(&l, 0, sizeof l); memset(&r, 0, sizeof r);
    l.type = r.type = 't';
    l.val.t = 0xE8A1B2C300000001ull;
    r.val.t = 0xE8A1B2C300000000ull;
    int e  = rtosc_arg_vals_eq(&l, &r, 1, 1, NULL);
    int c  = rtosc_arg_vals_cmp(&l, &r, 1, 1, NULL);
    int c2 = rtosc_arg_vals_cmp(&r, &l, 1, 1, NULL);
    printf("eq=%d cmp(l,r)=%d cmp(r,l)=%d (expected 0, >0, <0)\n", e, c, c2);
    int bad = 0;
    if ((e != 0) != (c == 0)) { puts("VIOLATION: cmp == 0 but eq reports different"); bad = 1; }
    if (!(c > 0 && c2 < 0))   { puts("VIOLATION: time tags not ordered numerically"); bad = 1; }
    return bad;
}
