// C16: "blobs bytewise", "returns 0 exactly when the equality test reports equal":
// two blobs of equal length that differ after an embedded NUL byte
#include <rtosc/rtosc.h>
#include <rtosc/arg-val-cmp.h>
#include <cstdio>
#include <cstring>
int main() {
    static uint8_t a[2] = {0x00, 0x01}, b[2] = {0x00, 0x02};
    rtosc_arg_val_t l, r;
    memset(&l, 0, sizeof l); memset(&r, 0, sizeof r);
    l.type = r.type = 'b';
    l.val.b.len = 2; l.val.b.data = a;
    r.val.b.len = 2; r.val.b.data = b;
    int e  = rtosc_arg_vals_eq(&l, &r, 1, 1, NULL);
    int c  = rtosc_arg_vals_cmp(&l, &r, 1, 1, NULL);
    int c2 = rtosc_arg_vals_cmp(&r, &l, 1, 1, NULL);
    printf("eq=%d cmp(l,r)=%d cmp(r,l)=%d (expected 0, <0, >0)\n", e, c, c2);
    int bad = 0;
    if ((e != 0) != (c == 0)) { puts("VIOLATION: cmp == 0 but eq reports different"); bad = 1; }
    if (!(c < 0 && c2 > 0))   { puts("VIOLATION: blobs not ordered bytewise"); bad = 1; }
    return bad;
}
