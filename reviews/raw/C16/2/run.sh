#!/bin/bash
# usage: run.sh <tree>   (tree must contain _build/librtosc-cpp.a and _build/librtosc.a)
# exit 0: property holds on the demo input; non-zero: violated
set -e
T=${1:?usage: run.sh <tree>}
D=$(cd "$(dirname "$0")" && pwd)
O=$(mktemp -d)
trap 'rm -rf "$O"' EXIT
g++ -std=c++11 -O1 -DNDEBUG -I"$T/include" "$D/demo.cpp" "$T/_build/librtosc-cpp.a" "$T/_build/librtosc.a" -o "$O/demo"
set +e
"$O/demo"
rc=$?
exit $rc
