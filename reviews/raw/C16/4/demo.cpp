// C16 compress-blindness of rtosc_avmessage: 200 x the integer 7, written out  vs  `200 x 7`
#include <rtosc/rtosc.h>
#include <rtosc/arg-ext.h>
#include <rtosc/arg-val.h>
#include <rtosc/arg-val-cmp.h>
#include <cstdio>
#include <cstring>
int main() {
    enum { N = 200 };
    static rtosc_arg_val_t plain[N], rep[2];
    memset(plain, 0, sizeof plain); memset(rep, 0, sizeof rep);
    for (int i = 0; i < N; ++i) { plain[i].type = 'i'; plain[i].val.i = 7; }
    rep[0].type = '-'; rtosc_av_rep_num_set(&rep[0], N); rtosc_av_rep_has_delta_set(&rep[0], 0);
    rep[1].type = 'i'; rep[1].val.i = 7;
    int e = rtosc_arg_vals_eq(plain, rep, N, 2, NULL);
    static char m1[4096], m2[4096];
    size_t n1 = rtosc_avmessage(m1, sizeof m1, "/p", N, plain);
    size_t n2 = rtosc_avmessage(m2, sizeof m2, "/p", 2, rep);
    int msame = n1 == n2 && !memcmp(m1, m2, n1);
    printf("eq=%d message lengths %zu / %zu, same=%d (expected eq=1, same=1)\n", e, n1, n2, msame);
    return (e == 1 && msame) ? 0 : 1;
}
