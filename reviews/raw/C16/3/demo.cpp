// C16 compress-blindness: the chars 0,1,...,199 written out  vs  the range `0 ... 199` (delta 1)
#include <rtosc/rtosc.h>
#include <rtosc/arg-ext.h>
#include <rtosc/arg-val.h>
#include <rtosc/arg-val-cmp.h>
#include <rtosc/arg-val-itr.h>
#include <cstdio>
#include <cstring>
int main() {
    enum { N = 200 };
    static rtosc_arg_val_t plain[N], rng[3];
    memset(plain, 0, sizeof plain); memset(rng, 0, sizeof rng);
    for (int i = 0; i < N; ++i) { plain[i].type = 'c'; plain[i].val.i = i; }
    rng[0].type = '-'; rtosc_av_rep_num_set(&rng[0], N); rtosc_av_rep_has_delta_set(&rng[0], 1);
    rng[1].type = 'c'; rng[1].val.i = 1;   // delta
    rng[2].type = 'c'; rng[2].val.i = 0;   // start
    int e = rtosc_arg_vals_eq(plain, rng, N, 3, NULL);
    int c = rtosc_arg_vals_cmp(plain, rng, N, 3, NULL);
    // what iteration yields
    rtosc_arg_val_itr it; rtosc_arg_val_itr_init(&it, rng);
    int firstbad = -1;
    for (int k = 0; it.i < 3; ++k, rtosc_arg_val_itr_next(&it)) {
        rtosc_arg_val_t buf; memset(&buf, 0, sizeof buf);
        const rtosc_arg_val_t *cur = rtosc_arg_val_itr_get(&it, &buf);
        if ((cur->type != 'c' || cur->val.i != k) && firstbad < 0) { firstbad = k; printf("iteration yields %c%d at position %d\n", cur->type, (int)cur->val.i, k); }
    }
    static char m1[4096], m2[4096];
    size_t n1 = rtosc_avmessage(m1, sizeof m1, "/p", N, plain);
    size_t n2 = rtosc_avmessage(m2, sizeof m2, "/p", 3, rng);
    int msame = n1 == n2 && !memcmp(m1, m2, n1);
    printf("eq=%d cmp=%d iteration_ok=%d message_same=%d (expected 1 0 1 1)\n", e, c, firstbad < 0, msame);
    return (e == 1 && c == 0 && firstbad < 0 && msame) ? 0 : 1;
}
