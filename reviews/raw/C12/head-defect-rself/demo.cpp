// NOT a mutation: behaviour of the UNCHANGED library (HEAD b0269fd) on doc/Guide.adoc's own idiom
//     rSelf(some_parameters, rEnabledBy(i_am_enabled)), rToggle(i_am_enabled, ...)
// C12: "an untouched application saves only the two header lines"; load(save s) = s.
// With the toggle off, walk_ports -> port_is_enabled(self:, relative_to_parent=false) hands the enabling port to the
// walker with old_end = loc_copy + loclen + 3 (ports.cpp:1028: the 3 is the length of "../", which is only inserted
// when relative_to_parent is true), so get_changed_values' on_reach_port gets a port_from_base 3 bytes past the
// name: stack-buffer-overflow in map_arg_vals (ASan) / SIGSEGV / garbage line.
#include <rtosc/rtosc.h>
#include <rtosc/ports.h>
#include <rtosc/port-sugar.h>
#include <rtosc/savefile.h>
#include <cstring>
#include <cstdio>
#include <string>
#include <set>
#include <unistd.h>
#include <sys/wait.h>
using namespace rtosc;
struct Sub { bool on; int x; static const Ports ports; Sub() : on(false), x(3) {} };
#define rObject Sub
const Ports Sub::ports = { rSelf(Sub, rEnabledBy(on)), rToggle(on, rDefault(false), "d"), rParamI(x, rDefault(3), "d") };
#undef rObject
struct Obj { Sub sub; int y; Obj() : y(1) {} };
#define rObject Obj
static const Ports ports = { rRecur(sub, "d"), rParamI(y, rDefault(1), "d") };
#undef rObject
int main() {
    pid_t p = fork();
    if(p == 0) {
        Obj a;                                   // untouched application
        std::set<std::string> w;
        std::string f = save_to_file(ports, &a, "demo", rtosc_version{1, 2, 3}, w, {});
        printf("%s\n--\n", f.c_str());
        size_t l1 = f.find('\n'), l2 = f.find('\n', l1 + 1);
        bool header_only = l2 != std::string::npos && f.substr(l2 + 1).find_first_not_of(" \n") == std::string::npos;
        Obj b;
        int rc = load_from_file(f.c_str(), ports, &b, "demo", rtosc_version{1, 2, 3});
        printf("header_only=%d rc=%d\n", header_only, rc);
        _exit(header_only && rc == 0 ? 0 : 1);
    }
    int st = 0; waitpid(p, &st, 0);
    if(WIFSIGNALED(st)) { printf("save_to_file of an untouched application died with signal %d\n", WTERMSIG(st)); return 1; }
    return WEXITSTATUS(st);
}
