// C12: load(save s) restores s -- for a `#N` array with more than 10 elements (two-digit element addresses).
#include <rtosc/rtosc.h>
#include <rtosc/ports.h>
#include <rtosc/port-sugar.h>
#include <rtosc/savefile.h>
#include <cstring>
#include <cstdio>
#include <cstdarg>
#include <string>
#include <set>
using namespace rtosc;
struct Obj { int big[12]; Obj() { for(int i = 0; i < 12; ++i) big[i] = 0; } };
#define rObject Obj
static const Ports ports = { rArrayI(big, 12, rDefault([0 0 0 0 0 0 0 0 0 0 0 0]), "d") };
#undef rObject
static int send(Obj &o, const char *path, const char *types, ...) {
    char buf[256]; va_list va; va_start(va, types);
    rtosc_vmessage(buf, sizeof buf, path, types, va); va_end(va);
    char loc[256] = ""; RtData d; d.obj = &o; d.loc = loc; d.loc_size = sizeof loc;
    ports.dispatch(buf, d, true); return d.matches;
}
int main() {
    Obj a;
    if(send(a, "/big1", "i", 3) != 1 || send(a, "/big10", "i", 4) != 1 || send(a, "/big11", "i", 5) != 1) { puts("setup failed"); return 2; }
    std::set<std::string> w;
    std::string f = save_to_file(ports, &a, "demo", rtosc_version{1, 2, 3}, w, {});
    printf("%s\n--\n", f.c_str());
    Obj b;
    int rc = load_from_file(f.c_str(), ports, &b, "demo", rtosc_version{1, 2, 3});
    bool same = !memcmp(a.big, b.big, sizeof a.big);
    printf("rc=%d restored=%d (big[10]=%d big[11]=%d)\n", rc, same, b.big[10], b.big[11]);
    return (rc == 1 && same) ? 0 : 1;
}
