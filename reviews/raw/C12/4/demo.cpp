// C12: load(save s) restores s -- for a `#N` array whose default is spelled with the repetition syntax
// (`rDefault([6x7])`, as test/port-checker-testapp.cpp and test/default-value.cpp do).
#include <rtosc/rtosc.h>
#include <rtosc/ports.h>
#include <rtosc/port-sugar.h>
#include <rtosc/savefile.h>
#include <cstring>
#include <cstdio>
#include <cstdarg>
#include <string>
#include <set>
using namespace rtosc;
struct Obj { int comp[6]; Obj() { for(int i = 0; i < 6; ++i) comp[i] = 7; } };
#define rObject Obj
static const Ports ports = { rArrayI(comp, 6, rDefault([6x7]), "d") };
#undef rObject
static int send(Obj &o, const char *path, const char *types, ...) {
    char buf[256]; va_list va; va_start(va, types);
    rtosc_vmessage(buf, sizeof buf, path, types, va); va_end(va);
    char loc[256] = ""; RtData d; d.obj = &o; d.loc = loc; d.loc_size = sizeof loc;
    ports.dispatch(buf, d, true); return d.matches;
}
int main() {
    Obj a;
    if(send(a, "/comp0", "i", 9) != 1 || send(a, "/comp4", "i", 1) != 1) { puts("setup failed"); return 2; }
    std::set<std::string> w;
    std::string f = save_to_file(ports, &a, "demo", rtosc_version{1, 2, 3}, w, {});
    printf("%s\n--\n", f.c_str());
    Obj b;
    int rc = load_from_file(f.c_str(), ports, &b, "demo", rtosc_version{1, 2, 3});
    bool same = !memcmp(a.comp, b.comp, sizeof a.comp);
    printf("rc=%d restored=%d (comp[4]=%d, saved state has 1)\n", rc, same, b.comp[4]);
    return (rc == 1 && same) ? 0 : 1;
}
