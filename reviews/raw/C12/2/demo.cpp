// C12: a parameter appears in the savefile exactly when it differs from its default, and the file restores the state.
// Port whose *name* has a path component behind the enumeration: "v#3/en::T:F" (the "VoicePar#8/Enabled" shape of
// savefile.cpp:369-420) -- written as one line per element, never as an array.
#include <rtosc/rtosc.h>
#include <rtosc/ports.h>
#include <rtosc/port-sugar.h>
#include <rtosc/savefile.h>
#include <cstring>
#include <cstdio>
#include <cstdarg>
#include <string>
#include <set>
using namespace rtosc;
struct Obj { bool en[3]; int lvl[3]; Obj() { for(int i = 0; i < 3; ++i) { en[i] = false; lvl[i] = 10; } } };
#define rObject Obj
static const Ports ports = {
    {"v#3/en::T:F", rProp(parameter) rDefault([false false false]) rDoc("d"), NULL,
        rBOILS_BEGIN
            if(!strcmp("", args)) data.reply(loc, obj->en[idx] ? "T" : "F");
            else obj->en[idx] = rtosc_argument(msg, 0).T;
        rBOILS_END },
    {"v#3/lvl::i", rProp(parameter) rDefault([10 10 10]) rDoc("d"), NULL,
        rBOILS_BEGIN
            if(!strcmp("", args)) data.reply(loc, "i", obj->lvl[idx]);
            else obj->lvl[idx] = rtosc_argument(msg, 0).i;
        rBOILS_END },
};
#undef rObject
static int send(Obj &o, const char *path, const char *types, ...) {
    char buf[256]; va_list va; va_start(va, types);
    rtosc_vmessage(buf, sizeof buf, path, types, va); va_end(va);
    char loc[256] = ""; RtData d; d.obj = &o; d.loc = loc; d.loc_size = sizeof loc;
    ports.dispatch(buf, d, true); return d.matches;
}
int main() {
    Obj a;
    if(send(a, "/v1/en", "T") != 1 || send(a, "/v2/lvl", "i", 77) != 1) { puts("setup failed"); return 2; }
    std::set<std::string> w;
    std::string f = save_to_file(ports, &a, "demo", rtosc_version{1, 2, 3}, w, {});
    printf("%s\n--\n", f.c_str());
    Obj b;
    int rc = load_from_file(f.c_str(), ports, &b, "demo", rtosc_version{1, 2, 3});
    bool same = !memcmp(a.en, b.en, sizeof a.en) && !memcmp(a.lvl, b.lvl, sizeof a.lvl);
    bool lines = f.find("/v1/en true") != std::string::npos && f.find("/v2/lvl 77") != std::string::npos;
    printf("rc=%d restored=%d both-changed-parameters-in-file=%d\n", rc, same, lines);
    return (rc == 2 && same && lines) ? 0 : 1;
}
