// NOT a mutation: behaviour of the UNCHANGED library (HEAD b0269fd).
// C12: load(save s) = s for "values over each port's full declared range including ... extremes".
// An unbounded float parameter holding +infinity is written as `/f inf (inf)`; `inf` is the keyword of the 'I'
// (infinitum) argument, so the line does not scan and load_from_file returns a negative value for the file
// save_to_file just produced.  (-infinity is written `-inf (-inf)` and loads.)
// Same through the check's own harness:  sl 2 <descriptor of app 2> /guw~f~7f800000 - -   ->  "S - H 0 R neg F -"
#include <rtosc/rtosc.h>
#include <rtosc/ports.h>
#include <rtosc/port-sugar.h>
#include <rtosc/savefile.h>
#include <cmath>
#include <cstdio>
#include <string>
#include <set>
using namespace rtosc;
struct Obj { float f; Obj() : f(1.0f) {} };
#define rObject Obj
static const Ports ports = { rParamF(f, rDefault(1.0), "d") };
#undef rObject
int main() {
    Obj a;
    char buf[64]; rtosc_message(buf, sizeof buf, "/f", "f", INFINITY);
    char loc[64] = ""; RtData d; d.obj = &a; d.loc = loc; d.loc_size = sizeof loc;
    ports.dispatch(buf, d, true);
    std::set<std::string> w;
    std::string s = save_to_file(ports, &a, "demo", rtosc_version{1, 2, 3}, w, {});
    printf("%s\n--\n", s.c_str());
    Obj b;
    int rc = load_from_file(s.c_str(), ports, &b, "demo", rtosc_version{1, 2, 3});
    printf("state f=%f, rc=%d, restored f=%f\n", a.f, rc, b.f);
    return (rc == 1 && b.f == a.f) ? 0 : 1;
}
