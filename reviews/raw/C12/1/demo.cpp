// C12: "A file with a wrong header ... is rejected with a negative result."
// The first line must be `% RT OSC v<a>.<b>.<c> savefile`; here the word `savefile` is replaced.
#include <rtosc/ports.h>
#include <rtosc/port-sugar.h>
#include <rtosc/savefile.h>
#include <cstdio>
#include <cstring>
using namespace rtosc;
struct Obj { int a; Obj() : a(1) {} };
#define rObject Obj
static const Ports ports = { rParamI(a, rDefault(1), "d") };
#undef rObject
int main() {
    const char *files[] = {
        "% RT OSC v0.3.1 garbage\n% demo v1.2.3\n/a 5",
        "% RT OSC v0.3.1 presetfile\n% demo v1.2.3\n",
        "% RT OSC v0.3.1 savefil\n% demo v1.2.3\n/a 5",
    };
    int bad = 0;
    for(const char *f : files) {
        Obj o;
        int rc = load_from_file(f, ports, &o, "demo", rtosc_version{1, 2, 3});
        printf("rc=%d a=%d for first line <%.*s>\n", rc, o.a, (int)(strchr(f, '\n') - f), f);
        if(rc >= 0) bad = 1;
    }
    Obj o;   // sanity: the proper header is accepted
    if(load_from_file("% RT OSC v0.3.1 savefile\n% demo v1.2.3\n/a 5", ports, &o, "demo", rtosc_version{1, 2, 3}) != 1 || o.a != 5) { puts("proper file not loaded"); return 2; }
    puts(bad ? "WRONG: file with a wrong header accepted" : "ok");
    return bad;
}
