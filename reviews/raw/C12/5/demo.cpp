// C12: load(save s) restores s -- for a string parameter (rString) holding a few hundred characters.
#include <rtosc/rtosc.h>
#include <rtosc/ports.h>
#include <rtosc/port-sugar.h>
#include <rtosc/savefile.h>
#include <cstring>
#include <cstdio>
#include <cstdarg>
#include <string>
#include <set>
using namespace rtosc;
struct Obj { int a; char name[400]; Obj() : a(1) { strcpy(name, "x"); } };
#define rObject Obj
static const Ports ports = { rParamI(a, rDefault(1), "d"), rString(name, 400, rDefault("x"), "d") };
#undef rObject
static int send(Obj &o, const char *path, const char *types, ...) {
    char buf[1024]; va_list va; va_start(va, types);
    rtosc_vmessage(buf, sizeof buf, path, types, va); va_end(va);
    char loc[256] = ""; RtData d; d.obj = &o; d.loc = loc; d.loc_size = sizeof loc;
    ports.dispatch(buf, d, true); return d.matches;
}
int main() {
    Obj a;
    std::string s;
    for(int i = 0; i < 300; ++i) s += (char)('a' + i % 26);
    if(send(a, "/a", "i", 5) != 1 || send(a, "/name", "s", s.c_str()) != 1) { puts("setup failed"); return 2; }
    std::set<std::string> w;
    std::string f = save_to_file(ports, &a, "demo", rtosc_version{1, 2, 3}, w, {});
    printf("%s\n--\n", f.c_str());
    Obj b;
    int rc = load_from_file(f.c_str(), ports, &b, "demo", rtosc_version{1, 2, 3});
    bool same = a.a == b.a && !strcmp(a.name, b.name);
    printf("rc=%d restored=%d (strlen(name)=%zu, saved state has %zu)\n", rc, same, strlen(b.name), strlen(a.name));
    return (rc == 2 && same) ? 0 : 1;
}
