// C13 reviewer demo 4: a port with a long rDepends list (12 entries).  The last entry
// ("p11") is itself dependent on "base".  Changing any of p0..p11 re-initialises "mix".
// "/mix" must be applied after "/p11" wherever the lines stand.
#include <rtosc/ports.h>
#include <rtosc/port-sugar.h>
#include <rtosc/savefile.h>
#include <rtosc/rtosc-version.h>
#include <algorithm>
#include <cstdio>
#include <cstring>
#include <string>
#include <vector>
using namespace rtosc;

struct Mix {
    int p[12]; int base = 0; int mix = 0;
    static const Ports ports;
    Mix() { memset(p, 0, sizeof p); }
};
static bool has_arg(const char* m) { return *rtosc_argument_string(m) != 0; }
#define P(k, extra) {"p" #k "::i", rProp(parameter) extra rDefault(0), NULL, \
    [](const char* msg, RtData& d) { Mix* o = (Mix*)d.obj; \
        if(has_arg(msg)) { o->p[k] = rtosc_argument(msg, 0).i; o->mix = 0; } else d.reply(d.loc, "i", o->p[k]); }}
const Ports Mix::ports = {
    {"mix::i", rProp(parameter) rDepends(p0, p1, p2, p3, p4, p5, p6, p7, p8, p9, p10, p11) rDefault(0), NULL,
        [](const char* msg, RtData& d) { Mix* o = (Mix*)d.obj;
            if(has_arg(msg)) o->mix = rtosc_argument(msg, 0).i; else d.reply(d.loc, "i", o->mix); }},
    P(0,), P(1,), P(2,), P(3,), P(4,), P(5,), P(6,), P(7,), P(8,), P(9,), P(10,), P(11, rDepends(base)),
    {"base::i", rProp(parameter) rDefault(0), NULL,
        [](const char* msg, RtData& d) { Mix* o = (Mix*)d.obj;
            if(has_arg(msg)) { o->base = rtosc_argument(msg, 0).i; o->p[11] = 0; o->mix = 0; } else d.reply(d.loc, "i", o->base); }},
};

int main()
{
    std::vector<std::string> lines = { "/base 1", "/mix 99", "/p11 5" };
    char vbuf[12]; rtosc_version v = rtosc_current_version(); rtosc_version_print_to_12byte_str(&v, vbuf);
    const std::string header = std::string("% RT OSC v") + vbuf + " savefile\n% c13demo v1.0.0\n";
    {   // these are the lines save_to_file writes for that state
        Mix s; s.base = 1; s.p[11] = 5; s.mix = 99;
        std::set<std::string> w;
        std::string f = save_to_file(Mix::ports, &s, "c13demo", rtosc_version{1, 0, 0}, w, {});
        for(const std::string& l : lines) if(f.find(l) == std::string::npos) { fprintf(stderr, "unexpected savefile:\n%s\n", f.c_str()); return 2; }
    }
    int bad = 0, total = 0;
    std::sort(lines.begin(), lines.end());
    do {
        std::string file = header;
        for(size_t i = 0; i < lines.size(); ++i) { file += lines[i]; if(i + 1 < lines.size()) file += "\n"; }
        Mix s;
        int rval = load_from_file(file.c_str(), Mix::ports, &s, "c13demo", rtosc_version{1, 0, 0});
        ++total;
        if(rval != 3 || s.base != 1 || s.p[11] != 5 || s.mix != 99) {
            if(!bad) fprintf(stderr, "order-dependent load; first bad file:\n%s\n  -> rval %d base %d p11 %d mix %d\n",
                             file.c_str(), rval, s.base, s.p[11], s.mix);
            ++bad;
        }
    } while(std::next_permutation(lines.begin(), lines.end()));
    printf("%d of %d permutations loaded wrongly\n", bad, total);
    return bad ? 1 : 0;
}
