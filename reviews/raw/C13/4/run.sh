#!/bin/sh
# usage: run.sh <tree>   (expects the library built in <tree>/_build)
set -e
tree="$1"
[ -n "$tree" ] || { echo "usage: $0 <tree>" >&2; exit 2; }
here="$(cd "$(dirname "$0")" && pwd)"
out="$(mktemp -d)"
trap 'rm -rf "$out"' EXIT
c++ -std=c++11 -O1 -g -I"$tree/include" "$here/demo.cpp" \
    "$tree/_build/librtosc-cpp.a" "$tree/_build/librtosc.a" -o "$out/demo"
set +e
"$out/demo"
exit $?
