import Driver.SaveEngine
open Rtosc Rtosc.Save Driver.SaveEngine
def tree2 : List PNode := [PNode.mk "gate::T:F".toList ⟨none, none, none⟩ [], PNode.mk "voi#4/level::i".toList ⟨some "gate".toList, none, none⟩ []]
#eval (aproposTree tree2 "/voi2/level".toList)
#eval (aproposTree tree2 "/gate".toList)
