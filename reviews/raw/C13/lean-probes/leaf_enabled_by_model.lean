import Driver.SaveEngine
open Rtosc Rtosc.Save Driver.SaveEngine
-- hand-written application: /on (toggle), /cut (int, guard-less leaf whose metadata says enabled by on)
def desc1 := "X|/on,T,KF,-,-,F;/cut,I:,Ki64,-,0,i64|s0;s1|0," ++ "6f6e3a3a543a46" ++ ",-,-,-;0," ++ "6375743a3a69" ++ "," ++ "6f6e" ++ ",-,-"
#eval step s!"perm 0 {desc1} /on~T~;/cut~i~90 1 40"
