import Driver.SaveEngine
open Driver.SaveEngine
#eval step "perm 0 X|/mode,I:,Ki0,-,-,i0;/depth,I:,P0:0=i0/1=i10:i0,-,0,i0;/depthmod,I:,Ki0,-,-,i0|s2;s0;s1|0,64657074686d6f643a3a69,-,-,-;0,6d6f64653a3a69,-,-,-;0,64657074683a3a69,-,-,6d6f6465 /mode~i~1;/depth~i~64 1 40"
