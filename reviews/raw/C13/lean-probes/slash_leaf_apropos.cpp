#include <rtosc/ports.h>
#include <rtosc/port-sugar.h>
#include <cstdio>
using namespace rtosc;
static void cb(const char*, RtData&) {}
static const Ports ports = {
    {"gate::T:F", rProp(parameter) rDefault(false), NULL, cb},
    {"voi#4/level::i", rProp(parameter) rEnabledBy(gate) rDefault(0), NULL, cb},
};
int main() {
    const Port* p = ports.apropos("/voi2/level");
    printf("apropos(/voi2/level) = %s, enabled by = %s\n", p ? p->name : "NULL", p ? p->meta()["enabled by"] : "-");
    return 0;
}
