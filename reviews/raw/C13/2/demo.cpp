// C13 reviewer demo 2: a *sub-tree* port that declares a value dependency
// (rRecurs(kit, 3, rDepends(kitmode), ...)): choosing another kit mode re-initialises every
// kit item.  "/kit1/level" must be applied after "/kitmode" wherever the two lines stand.
#include <rtosc/ports.h>
#include <rtosc/port-sugar.h>
#include <rtosc/savefile.h>
#include <rtosc/rtosc-version.h>
#include <algorithm>
#include <cstdio>
#include <cstring>
#include <string>
#include <vector>
using namespace rtosc;

struct Item {
    int level = 0, pan = 64;
    static const Ports ports;
    void reset() { level = 0; pan = 64; }
};
#define rObject Item
const Ports Item::ports = {
    rParamI(level, rDefault(0), "level"),
    rParamI(pan, rDefault(64), "pan"),
};
#undef rObject

struct Part {
    int kitmode = 0;
    int volume = 100;
    Item kit[3];
    static const Ports ports;
    void changed(const char* n) { if(!strncmp(n, "kitmode:", 8)) for(Item& i : kit) i.reset(); }
};
#define rObject Part
#undef rChangeCb
#define rChangeCb obj->changed(data.port->name);
const Ports Part::ports = {
    rRecurs(kit, 3, rDepends(kitmode), "kit items, re-initialised by the kit mode"),
    rParamI(volume, rDefault(100), "unrelated"),
    rParamI(kitmode, rDefault(0), "kit mode"),
};
#undef rChangeCb
#define rChangeCb
#undef rObject

static bool same(const Part& a, const Part& b) {
    if(a.kitmode != b.kitmode || a.volume != b.volume) return false;
    for(int i = 0; i < 3; ++i) if(a.kit[i].level != b.kit[i].level || a.kit[i].pan != b.kit[i].pan) return false;
    return true;
}

int main()
{
    Part ref; ref.kitmode = 2; ref.volume = 90; ref.kit[1].level = 5; ref.kit[2].pan = 0;
    std::set<std::string> w;
    std::string text = save_to_file(Part::ports, &ref, "c13demo", rtosc_version{1, 0, 0}, w, {});
    size_t h = text.find('\n', text.find('\n') + 1) + 1;
    std::string header = text.substr(0, h), body = text.substr(h);
    std::vector<std::string> lines;
    for(size_t a = 0; a < body.size(); ) { size_t b = body.find('\n', a); if(b == std::string::npos) b = body.size();
                                           if(b > a) lines.push_back(body.substr(a, b - a)); a = b + 1; }
    if(lines.size() != 4) { fprintf(stderr, "unexpected savefile:\n%s\n", text.c_str()); return 2; }
    std::sort(lines.begin(), lines.end());
    int bad = 0, total = 0;
    do {
        std::string file = header;
        for(size_t i = 0; i < lines.size(); ++i) { file += lines[i]; if(i + 1 < lines.size()) file += "\n"; }
        Part s;
        int rval = load_from_file(file.c_str(), Part::ports, &s, "c13demo", rtosc_version{1, 0, 0});
        ++total;
        if(rval != 4 || !same(s, ref)) {
            if(!bad) fprintf(stderr, "order-dependent load; first bad file:\n%s\n  -> rval %d kitmode %d volume %d kit1/level %d kit2/pan %d\n",
                             file.c_str(), rval, s.kitmode, s.volume, s.kit[1].level, s.kit[2].pan);
            ++bad;
        }
    } while(std::next_permutation(lines.begin(), lines.end()));
    printf("%d of %d permutations loaded wrongly\n", bad, total);
    return bad ? 1 : 0;
}
