// C13 reviewer demo 1: a *leaf* parameter that is enabled by a switch of its own level
// (rEnabledBy on the parameter port itself, not on a sub-tree).  The parameter ignores
// writes while it is disabled, so "/cutoff" must be applied after "/filter_on" wherever
// the two lines stand.
#include <rtosc/ports.h>
#include <rtosc/port-sugar.h>
#include <rtosc/savefile.h>
#include <rtosc/rtosc-version.h>
#include <algorithm>
#include <cstdio>
#include <string>
#include <vector>
using namespace rtosc;

struct Synth { bool filter_on = false; int cutoff = 64; int volume = 100; static const Ports ports; };
static bool has_arg(const char* m) { return *rtosc_argument_string(m) != 0; }

const Ports Synth::ports = {
    {"volume::i", rProp(parameter) rDefault(100), NULL,
        [](const char* msg, RtData& d) { Synth* o = (Synth*)d.obj;
            if(has_arg(msg)) o->volume = rtosc_argument(msg, 0).i; else d.reply(d.loc, "i", o->volume); }},
    {"cutoff::i", rProp(parameter) rEnabledBy(filter_on) rDefault(64), NULL,
        [](const char* msg, RtData& d) { Synth* o = (Synth*)d.obj;
            if(has_arg(msg)) { if(o->filter_on) o->cutoff = rtosc_argument(msg, 0).i; }   // no filter, no cutoff
            else d.reply(d.loc, "i", o->cutoff); }},
    {"filter_on::T:F", rProp(parameter) rDefault(false), NULL,
        [](const char* msg, RtData& d) { Synth* o = (Synth*)d.obj;
            if(has_arg(msg)) { o->filter_on = rtosc_argument(msg, 0).T; if(!o->filter_on) o->cutoff = 64; }
            else d.reply(d.loc, o->filter_on ? "T" : "F"); }},
};

int main()
{
    // what save_to_file writes for {filter_on = true, cutoff = 90, volume = 80}, in every line order
    std::vector<std::string> lines = { "/volume 80", "/cutoff 90", "/filter_on true" };
    {   // make sure these are really the lines of the savefile
        Synth s; s.filter_on = true; s.cutoff = 90; s.volume = 80;
        std::set<std::string> w;
        std::string f = save_to_file(Synth::ports, &s, "c13demo", rtosc_version{1, 0, 0}, w, {});
        for(const std::string& l : lines)
            if(f.find(l) == std::string::npos) { fprintf(stderr, "unexpected savefile:\n%s\n", f.c_str()); return 2; }
    }
    char vbuf[12]; rtosc_version v = rtosc_current_version(); rtosc_version_print_to_12byte_str(&v, vbuf);
    const std::string header = std::string("% RT OSC v") + vbuf + " savefile\n% c13demo v1.0.0\n";
    std::vector<size_t> perm(lines.size());
    for(size_t i = 0; i < perm.size(); ++i) perm[i] = i;
    int bad = 0, total = 0;
    do {
        std::string file = header;
        for(size_t i = 0; i < perm.size(); ++i) { file += lines[perm[i]]; if(i + 1 < perm.size()) file += "\n"; }
        Synth s;
        int rval = load_from_file(file.c_str(), Synth::ports, &s, "c13demo", rtosc_version{1, 0, 0});
        ++total;
        if(rval != 3 || !s.filter_on || s.cutoff != 90 || s.volume != 80) {
            if(!bad) fprintf(stderr, "order-dependent load; first bad file:\n%s\n  -> rval %d filter_on %d cutoff %d volume %d\n",
                             file.c_str(), rval, (int)s.filter_on, s.cutoff, s.volume);
            ++bad;
        }
    } while(std::next_permutation(perm.begin(), perm.end()));
    printf("%d of %d permutations loaded wrongly\n", bad, total);
    return bad ? 1 : 0;
}
