// unchanged library: a savefile line without arguments addressed to an existing parameter port
// ("/a") makes dispatch_printed_messages() send the same (query) message forever:
// savefile.cpp:771 `for(arr_idx = 0; itr.i < max(nargs,1) && ok; ++arr_idx)` - with nargs == 0 the
// iterator never advances.  The Lean model (Save/Load.lean:41, Args.plain []) dispatches once.
#include <rtosc/ports.h>
#include <rtosc/port-sugar.h>
#include <rtosc/savefile.h>
#include <cstdio>
#include <unistd.h>
using namespace rtosc;
struct S { int a = 0; static const Ports ports; };
static int calls = 0;
const Ports S::ports = {
    {"a::i", rProp(parameter) rDefault(0), NULL, [](const char* msg, RtData& d) { S* o = (S*)d.obj;
        if(++calls > 100000) { fprintf(stderr, "callback invoked >100000 times for one line: endless loop\n"); _exit(1); }
        if(*rtosc_argument_string(msg)) o->a = rtosc_argument(msg, 0).i; else d.reply(d.loc, "i", o->a); }},
};
int main() { S s; int r = dispatch_printed_messages("/a", S::ports, &s); printf("rval %d calls %d\n", r, calls); return 0; }
