// C13 reviewer demo 3: a chain of six ports, each with a default that depends on the previous
// one (stage5 <- stage4 <- ... <- stage0).  Changing a stage re-applies the defaults of all
// later stages.  Only the two ends differ from their defaults, so the savefile has the lines
// "/stage0" and "/stage5" and four depended-on ports in between are absent from the file.
// "/stage5" must be applied after "/stage0" wherever the two lines stand.
#include <rtosc/ports.h>
#include <rtosc/port-sugar.h>
#include <rtosc/savefile.h>
#include <rtosc/rtosc-version.h>
#include <algorithm>
#include <cstdio>
#include <cstring>
#include <string>
#include <vector>
using namespace rtosc;

struct Chain {
    int stage[6];
    int gain = 0;
    static const Ports ports;
    Chain() { stage[0] = 0; refresh(1); }
    // default of stage k is 10 * value of stage k-1 (for values 0 and 1), see the presets
    void refresh(int from) { for(int k = from; k < 6; ++k) stage[k] = stage[k-1] == 1 ? 10 : 0; }
};
static bool has_arg(const char* m) { return *rtosc_argument_string(m) != 0; }
#define STAGE0 {"stage0::i", rProp(parameter) rDefault(0), NULL, \
    [](const char* msg, RtData& d) { Chain* o = (Chain*)d.obj; \
        if(has_arg(msg)) { o->stage[0] = rtosc_argument(msg, 0).i; o->refresh(1); } else d.reply(d.loc, "i", o->stage[0]); }}
#define STAGE(k, prev) {"stage" #k "::i", rProp(parameter) rDefaultDepends(prev) rPreset(0, 0) rPreset(1, 10) rDefault(0), NULL, \
    [](const char* msg, RtData& d) { Chain* o = (Chain*)d.obj; \
        if(has_arg(msg)) { o->stage[k] = rtosc_argument(msg, 0).i; o->refresh(k + 1); } else d.reply(d.loc, "i", o->stage[k]); }}
const Ports Chain::ports = {
    STAGE(5, stage4), STAGE(4, stage3), STAGE(3, stage2), STAGE(2, stage1), STAGE(1, stage0), STAGE0,
    {"gain::i", rProp(parameter) rDefault(0), NULL,
        [](const char* msg, RtData& d) { Chain* o = (Chain*)d.obj;
            if(has_arg(msg)) o->gain = rtosc_argument(msg, 0).i; else d.reply(d.loc, "i", o->gain); }},
};

int main()
{
    Chain ref;                       // stage0 = 2 -> stages 1..5 take their fall-back default 0; stage5 = 77
    ref.stage[0] = 2; ref.refresh(1); ref.stage[5] = 77; ref.gain = 3;
    std::set<std::string> w;
    std::string text = save_to_file(Chain::ports, &ref, "c13demo", rtosc_version{1, 0, 0}, w, {});
    size_t h = text.find('\n', text.find('\n') + 1) + 1;
    std::string header = text.substr(0, h), body = text.substr(h);
    std::vector<std::string> lines;
    for(size_t a = 0; a < body.size(); ) { size_t b = body.find('\n', a); if(b == std::string::npos) b = body.size();
                                           if(b > a) lines.push_back(body.substr(a, b - a)); a = b + 1; }
    if(lines.size() != 3) { fprintf(stderr, "unexpected savefile:\n%s\n", text.c_str()); return 2; }
    std::sort(lines.begin(), lines.end());
    int bad = 0, total = 0;
    do {
        std::string file = header;
        for(size_t i = 0; i < lines.size(); ++i) { file += lines[i]; if(i + 1 < lines.size()) file += "\n"; }
        Chain s;
        int rval = load_from_file(file.c_str(), Chain::ports, &s, "c13demo", rtosc_version{1, 0, 0});
        ++total;
        if(rval != 3 || memcmp(s.stage, ref.stage, sizeof s.stage) || s.gain != ref.gain) {
            if(!bad) fprintf(stderr, "order-dependent load; first bad file:\n%s\n  -> rval %d stage0 %d stage5 %d gain %d\n",
                             file.c_str(), rval, s.stage[0], s.stage[5], s.gain);
            ++bad;
        }
    } while(std::next_permutation(lines.begin(), lines.end()));
    printf("%d of %d permutations loaded wrongly\n", bad, total);
    return bad ? 1 : 0;
}
