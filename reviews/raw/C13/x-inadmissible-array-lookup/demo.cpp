// array port (rArrayI "lev#4::i") with a dependency of its own: rDepends(mode); the mode re-initialises the levels.
#include <rtosc/ports.h>
#include <rtosc/port-sugar.h>
#include <rtosc/savefile.h>
#include <rtosc/rtosc-version.h>
#include <algorithm>
#include <cstdio>
#include <cstring>
#include <string>
#include <vector>
using namespace rtosc;
struct Mixer { int mode = 0; int lev[4] = {0, 0, 0, 0}; int pan = 64; static const Ports ports;
    void changed(const char* n) { if(!strncmp(n, "mode:", 5)) for(int i = 0; i < 4; ++i) lev[i] = 0; } };
#define rObject Mixer
#undef rChangeCb
#define rChangeCb obj->changed(data.port->name);
const Ports Mixer::ports = {
    rArrayI(lev, 4, rDepends(mode), rDefault([0 0 0 0]), "levels, reset by the mode"),
    rParamI(pan, rDefault(64), "unrelated"),
    rParamI(mode, rDefault(0), "mixer mode"),
};
#undef rChangeCb
#define rChangeCb
#undef rObject
int main()
{
    Mixer ref; ref.mode = 1; ref.pan = 10; ref.lev[0] = 1; ref.lev[1] = 2; ref.lev[2] = 3; ref.lev[3] = 4;
    std::set<std::string> w;
    std::string text = save_to_file(Mixer::ports, &ref, "c13demo", rtosc_version{1, 0, 0}, w, {});
    size_t h = text.find('\n', text.find('\n') + 1) + 1;
    std::string header = text.substr(0, h), body = text.substr(h);
    std::vector<std::string> lines;
    for(size_t a = 0; a < body.size(); ) { size_t b = body.find('\n', a); if(b == std::string::npos) b = body.size();
                                           if(b > a) lines.push_back(body.substr(a, b - a)); a = b + 1; }
    if(lines.size() != 3) { fprintf(stderr, "unexpected savefile:\n%s\n", text.c_str()); return 2; }
    std::sort(lines.begin(), lines.end());
    int bad = 0, total = 0;
    do {
        std::string file = header;
        for(size_t i = 0; i < lines.size(); ++i) { file += lines[i]; if(i + 1 < lines.size()) file += "\n"; }
        Mixer s;
        int rval = load_from_file(file.c_str(), Mixer::ports, &s, "c13demo", rtosc_version{1, 0, 0});
        ++total;
        if(rval != 3 || s.mode != 1 || s.pan != 10 || memcmp(s.lev, ref.lev, sizeof s.lev)) ++bad;
    } while(std::next_permutation(lines.begin(), lines.end()));
    printf("%d of %d permutations loaded wrongly\n", bad, total);
    return bad ? 1 : 0;
}
