// unchanged-library probe: sibling whose name starts like the dependent port's name
#include <rtosc/ports.h>
#include <rtosc/port-sugar.h>
#include <rtosc/savefile.h>
#include <rtosc/rtosc-version.h>
#include <algorithm>
#include <cstdio>
#include <string>
#include <vector>
using namespace rtosc;
struct Lfo { int mode = 0, depth = 0, depthmod = 0; static const Ports ports; };
static bool has_arg(const char* m) { return *rtosc_argument_string(m) != 0; }
const Ports Lfo::ports = {
    {"depthmod::i", rProp(parameter) rDefault(0), NULL,
        [](const char* msg, RtData& d) { Lfo* o = (Lfo*)d.obj;
            if(has_arg(msg)) o->depthmod = rtosc_argument(msg, 0).i; else d.reply(d.loc, "i", o->depthmod); }},
    {"mode::i", rProp(parameter) rDefault(0), NULL,
        [](const char* msg, RtData& d) { Lfo* o = (Lfo*)d.obj;
            if(has_arg(msg)) { o->mode = rtosc_argument(msg, 0).i; o->depth = o->mode == 1 ? 10 : 0; }
            else d.reply(d.loc, "i", o->mode); }},
    {"depth::i", rProp(parameter) rDefaultDepends(mode) rPreset(0, 0) rPreset(1, 10), NULL,
        [](const char* msg, RtData& d) { Lfo* o = (Lfo*)d.obj;
            if(has_arg(msg)) o->depth = rtosc_argument(msg, 0).i; else d.reply(d.loc, "i", o->depth); }},
};
int main() {
    std::vector<std::string> lines = { "/depth 64", "/mode 1" };
    char vbuf[12]; rtosc_version v = rtosc_current_version(); rtosc_version_print_to_12byte_str(&v, vbuf);
    const std::string header = std::string("% RT OSC v") + vbuf + " savefile\n% demo v1.0.0\n";
    std::vector<size_t> perm = {0, 1};
    int bad = 0;
    do {
        std::string file = header;
        for(size_t i = 0; i < perm.size(); ++i) { file += lines[perm[i]]; if(i + 1 < perm.size()) file += "\n"; }
        Lfo s;
        int rval = load_from_file(file.c_str(), Lfo::ports, &s, "demo", rtosc_version{1, 0, 0});
        printf("order %zu%zu: rval %d mode %d depth %d\n", perm[0], perm[1], rval, s.mode, s.depth);
        if(rval != 2 || s.mode != 1 || s.depth != 64) ++bad;
    } while(std::next_permutation(perm.begin(), perm.end()));
    // what does the app itself save in that state?
    Lfo s; s.mode = 1; s.depth = 64;
    std::set<std::string> w;
    printf("%s\n", save_to_file(Lfo::ports, &s, "demo", rtosc_version{1,0,0}, w, {}).c_str());
    return bad ? 1 : 0;
}
