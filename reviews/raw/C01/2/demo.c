/* C01: reading back must not depend on where the message lies in memory.
   The same message is built at a 4-aligned address and at address+1. */
#include <rtosc/rtosc.h>
#include <stdio.h>
#include <stdint.h>
#include <string.h>
static int check(char *msg, const char *what)
{
    size_t n = rtosc_message(msg, 64, "/s", "sis", "ab", 0x01020304, "xyz");
    int bad = 0;
    if(n != 24) bad = 1;
    rtosc_arg_t i1 = rtosc_argument(msg, 1);
    rtosc_arg_t s2 = rtosc_argument(msg, 2);
    rtosc_arg_itr_t it = rtosc_itr_begin(msg);
    rtosc_itr_next(&it);
    rtosc_arg_val_t v1 = rtosc_itr_next(&it);
    printf("%s (addr %% 4 = %d): size %zu, argument(1)=%08x, iterator 2nd=%08x, argument(2)=\"%.3s\"\n", what,
           (int)((uintptr_t)msg % 4), n, (unsigned)i1.i, (unsigned)v1.val.i, s2.s);
    if(i1.i != 0x01020304 || v1.val.i != 0x01020304 || strncmp(s2.s, "xyz", 4)) bad = 1;
    return bad;
}
int main(void)
{
    static char store[160] __attribute__((aligned(16)));
    int bad = 0;
    memset(store, 0, sizeof store);
    bad |= check(store, "aligned  ");
    bad |= check(store + 65, "unaligned");
    bad |= check(store + 130, "unaligned");
    return bad;
}
