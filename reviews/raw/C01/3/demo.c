/* C01: the value returned by the constructor is what rtosc_message_length reports
   for those bytes -- for any address, e.g. "#bundles/level". */
#include <rtosc/rtosc.h>
#include <stdio.h>
int main(void)
{
    static char buf[128];
    int bad = 0;
    const char *addrs[] = {"#bundles/level", "#bundle_size", "/ok"};
    for(int k = 0; k < 3; ++k) {
        size_t n = rtosc_message(buf, sizeof buf, addrs[k], "iis", 7, 0, "text");
        size_t l = rtosc_message_length(buf, n);
        printf("%-16s constructor returned %zu, rtosc_message_length says %zu\n", addrs[k], n, l);
        if(!n || l != n) bad = 1;
    }
    return bad;
}
