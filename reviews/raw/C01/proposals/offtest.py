import os, sys, random
tree=sys.argv[1]
os.environ["VERIF_REPO"]=tree; os.environ["VERIF_BUILD"]="/tmp/c01-strengthen-build"
sys.path.insert(0,"/verif/tools")
import vlib
from props import c01
exe=vlib.build_harness("oscoff", {"src":["/tmp/c01-strengthen-build/osc_off.cpp"],"deps":["common.h"]})
rng=random.Random(1000003+17)
ops=[o for o in c01.generate(rng,"quick",{})][:12000]
impl=vlib.run_harness(exe,ops,"/tmp/c01-strengthen-build/w","o")
model=vlib.run_driver("osc",ops,"/tmp/c01-strengthen-build/w","o",nproc=8)
of=[(o,c01.oracle(o,a)) for o,a in zip(ops,impl) if c01.oracle(o,a)]
df=[o for o,a,b in zip(ops,impl,model) if a!=b]
print(tree,"ops",len(ops),"oracle failures",len(of),"diffs",len(df))
if of: print("  e.g.",of[0][0][:100],"->",of[0][1][:200])
