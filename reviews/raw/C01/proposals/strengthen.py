# usage: strengthen.py <tree>  -- proposed generator extension, evaluated with the existing oracle/model
import os, sys, random
tree=sys.argv[1]
os.environ["VERIF_REPO"]=tree; os.environ["VERIF_BUILD"]="/tmp/c01-strengthen-build"
sys.path.insert(0,"/verif/tools")
import vlib
from props import c01
exe=vlib.build_harness(c01.ENGINE, c01.HARNESS)
rng=random.Random(5)
BIG=[127,128,129,255,256,257,300,1023,1024,1100]
st={"empty_str":0,"null_blob":0,"f_via_double":0}
def big_arg(t,mode):
    if t==ord('b') and rng.random()<0.3:
        n=rng.choice(BIG); return (n, None if rng.random()<0.1 else bytes(rng.getrandbits(8) for _ in range(n)))
    if t in b"sS" and rng.random()<0.3:
        return c01.rand_nonnul(rng, rng.choice(BIG))
    return c01.rand_arg(rng,t,mode,st)
ops=[]
for k in range(1500):
    mode=rng.choice("AVM")
    r=rng.random()
    if r<0.15: tags=c01.rand_tags(rng,41,120)
    else: tags=c01.rand_tags(rng,0,6)
    r=rng.random()
    if r<0.1: addr=b"#bundle"+bytes(rng.randint(0x21,0x7e) for _ in range(rng.randint(1,6)))
    elif r<0.2: addr=bytes(rng.randint(0x20,0x7e) for _ in range(rng.randint(1,9)))
    else: addr=c01.rand_addr(rng)
    if addr==b"#bundle": addr=b"/x"
    args=[big_arg(t,mode) for t in tags if bytes([t]) in c01.PAYLOAD]
    abstract=[c01.narrow(a) if (bytes([t])==b"f" and mode in "VL") else a for t,a in zip([t for t in tags if bytes([t]) in c01.PAYLOAD],args)]
    total=len(c01.encode(addr,tags,abstract))
    cap=rng.choice([total,total+rng.randint(0,8),None])
    rest=bytes(rng.getrandbits(8) for _ in range(rng.randint(0,6)))
    ops.append(c01.op_line(mode,cap,addr,tags,rest,args))
os.makedirs("/tmp/c01-strengthen-build/w",exist_ok=True)
impl=vlib.run_harness(exe,ops,"/tmp/c01-strengthen-build/w","s")
model=vlib.run_driver("osc",ops,"/tmp/c01-strengthen-build/w","s",nproc=8)
of=[(o,c01.oracle(o,a)) for o,a in zip(ops,impl) if c01.oracle(o,a)]
df=[o for o,a,b in zip(ops,impl,model) if a!=b]
print(tree,"ops",len(ops),"oracle failures",len(of),"diffs",len(df))
if of: print("  e.g.",of[0][0][:100],"->",of[0][1][:200])
