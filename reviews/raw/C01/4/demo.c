/* C01: a 200-character string argument must be encoded like any other string:
   returned size = size reported for the NULL buffer = rtosc_message_length, and the
   arguments read back unchanged. */
#include <rtosc/rtosc.h>
#include <stdio.h>
#include <string.h>
int main(void)
{
    static char str[201], buf[512];
    memset(str, 'x', 200);
    size_t need = rtosc_message(NULL, 0, "/long", "si", str, 0x01020304);
    size_t n    = rtosc_message(buf, sizeof buf, "/long", "si", str, 0x01020304);
    printf("size for NULL buffer %zu, returned %zu, expected %d\n", need, n, 8 + 4 + 204 + 4);
    if(need != 220 || n != 220) return 1;
    if(rtosc_message_length(buf, n) != n) return 1;
    if(strcmp(rtosc_argument(buf, 0).s, str) || rtosc_argument(buf, 1).i != 0x01020304) return 1;
    return 0;
}
