/* C01: a 300-byte blob must read back with length 300 (rtosc_argument and iterator). */
#include <rtosc/rtosc.h>
#include <stdio.h>
#include <string.h>
int main(void)
{
    static unsigned char data[300];
    static char buf[512];
    for(int i = 0; i < 300; ++i) data[i] = (unsigned char)(i * 7 + 1);
    size_t n = rtosc_message(buf, sizeof buf, "/blob", "b", 300, data);
    if(n != 8 + 4 + 4 + 300) { printf("bad size %zu\n", n); return 2; }
    rtosc_arg_t a = rtosc_argument(buf, 0);
    rtosc_arg_itr_t it = rtosc_itr_begin(buf);
    rtosc_arg_val_t v = rtosc_itr_next(&it);
    printf("rtosc_argument len=%d, iterator len=%d (expected 300)\n", (int)a.b.len, (int)v.val.b.len);
    if(a.b.len != 300 || v.val.b.len != 300) return 1;
    if(memcmp(a.b.data, data, 300)) return 1;
    return 0;
}
