/* C01: the varargs constructor and the argument-array constructor produce the same
   OSC 1.0 bytes for any argument list -- here 70 int arguments. */
#include <rtosc/rtosc.h>
#include <stdio.h>
#include <string.h>
#define N 70
int main(void)
{
    static char a[1024], v[1024];
    char tags[N + 1];
    rtosc_arg_t args[N];
    for(int i = 0; i < N; ++i) { tags[i] = 'i'; args[i].i = 1000 + i; }
    tags[N] = 0;
    size_t na = rtosc_amessage(a, sizeof a, "/many", tags, args);
    size_t nv = rtosc_message(v, sizeof v, "/many", tags, 1000, 1001, 1002, 1003, 1004, 1005, 1006, 1007, 1008, 1009, 1010, 1011, 1012, 1013, 1014, 1015, 1016, 1017, 1018, 1019, 1020, 1021, 1022, 1023, 1024, 1025, 1026, 1027, 1028, 1029, 1030, 1031, 1032, 1033, 1034, 1035, 1036, 1037, 1038, 1039, 1040, 1041, 1042, 1043, 1044, 1045, 1046, 1047, 1048, 1049, 1050, 1051, 1052, 1053, 1054, 1055, 1056, 1057, 1058, 1059, 1060, 1061, 1062, 1063, 1064, 1065, 1066, 1067, 1068, 1069);
    int same = na == nv && !memcmp(a, v, na);
    int last = rtosc_argument(v, N - 1).i;
    printf("amessage %zu bytes, message %zu bytes, identical: %s, last argument read back: %d (expected %d)\n",
           na, nv, same ? "yes" : "no", last, 1000 + N - 1);
    return !(same && last == 1000 + N - 1);
}
