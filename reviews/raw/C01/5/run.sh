#!/bin/sh
# usage: run.sh <tree>   (expects <tree>/_build/librtosc.a and librtosc-cpp.a, headers in <tree>/include)
# exit 0: property holds on the demo input; non-zero: broken
T="$1"; D="$(cd "$(dirname "$0")" && pwd)"
SRC="$(ls "$D"/demo.c "$D"/demo.cpp 2>/dev/null | head -1)"
case "$SRC" in *.cpp) CC=g++;; *) CC=gcc;; esac
OUT="$(mktemp -d)"
$CC -O1 -I"$T/include" "$SRC" "$T/_build/librtosc-cpp.a" "$T/_build/librtosc.a" -lstdc++ -lm -o "$OUT/demo" || { rm -rf "$OUT"; exit 3; }
"$OUT/demo"; rc=$?
rm -rf "$OUT"
exit $rc
