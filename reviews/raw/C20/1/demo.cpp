// Generic demonstration for C20 regression seeds.
// usage: demo  (configuration is compiled in through -DPORT_NAME, -DPORT_ADDR, -DPORT_MIN, -DPORT_MAX, -DPORT_EXTRA_KEY/-DPORT_EXTRA_VAL)
// Learns controller 5 (coarse) for one parameter through the real MidiMappernRT / MidiMapperRT pair (every message
// delivered at once), sends the values 0,1,..,127 and checks the clauses of C20 on what the backend callback receives:
// exactly one message per value, to the learned address, of the port's type, value within [min,max], monotone in v.
#include <rtosc/miditable.h>
#include <rtosc/ports.h>
#include <rtosc/rtosc.h>
#include <cstdio>
#include <cstring>
#include <deque>
#include <string>
#include <vector>

#ifndef PORT_NAME
#define PORT_NAME "p0:i"
#endif
#ifndef PORT_ADDR
#define PORT_ADDR "/p0"
#endif
#ifndef PORT_MIN
#define PORT_MIN "0"
#endif
#ifndef PORT_MAX
#define PORT_MAX "127"
#endif
#ifndef PORT_TYPE
#define PORT_TYPE 'i'
#endif

struct DynPorts : rtosc::Ports {
    DynPorts() : rtosc::Ports({}) {}
    void add(const char *name, const char *meta) {
        ports.push_back(rtosc::Port{name, meta, NULL, [](const char *, rtosc::RtData &) {}});
        refreshMagic();
    }
};

int main()
{
    std::string meta = ":min";
    meta.push_back('\0'); meta += "=" PORT_MIN; meta.push_back('\0');
    meta += ":max"; meta.push_back('\0'); meta += "=" PORT_MAX; meta.push_back('\0');
#ifdef PORT_EXTRA_KEY
    meta += ":" PORT_EXTRA_KEY; meta.push_back('\0'); meta += "=" PORT_EXTRA_VAL; meta.push_back('\0');
#endif
    meta.push_back('\0');
    DynPorts table;
    table.add(PORT_NAME, meta.data());
    table.add("other:f", meta.data());

    rtosc::MidiMapperRT rt;
    rtosc::MidiMappernRT nrt;
    std::deque<std::vector<char>> to_rt, to_nrt;
    std::vector<std::vector<char>> backend;
    auto copy = [](const char *m) { size_t n = rtosc_message_length(m, 1024); return std::vector<char>(m, m + (n ? n : 64)); };
    nrt.base_ports = &table;
    nrt.rt_cb = [&](const char *m) { to_rt.push_back(copy(m)); };
    rt.setFrontendCb([&](const char *m) { to_nrt.push_back(copy(m)); });
    rt.setBackendCb([&](const char *m) { backend.push_back(copy(m)); });
    auto drain = [&]() {
        for (;;) {
            if (!to_rt.empty()) {
                auto m = to_rt.front(); to_rt.pop_front();
                char loc[128] = {0};
                rtosc::RtData d; d.loc = loc; d.loc_size = sizeof loc; d.obj = &rt;
                rtosc::MidiMapperRT::ports.dispatch(m.data() + strlen("/midi-learn/"), d, false);
            } else if (!to_nrt.empty()) {
                auto m = to_nrt.front(); to_nrt.pop_front();
                nrt.useFreeID(rtosc_argument(m.data(), 0).i);
            } else break;
        }
    };
    nrt.map(PORT_ADDR, true);
    drain();
    rt.handleCC(5, 0, 1, false);   // asks to be learned
    drain();
    const double mn = atof(PORT_MIN), mx = atof(PORT_MAX);
    int bad = 0;
    double prev = 0;
    for (int v = 0; v < 128 && bad < 4; ++v) {
        backend.clear();
        rt.handleCC(5, v, 1, false);
        if (backend.size() != 1) { printf("v=%d: %zu messages instead of one\n", v, backend.size()); bad++; continue; }
        const char *m = backend[0].data();
        if (strcmp(m, PORT_ADDR)) { printf("v=%d: message to '%.60s' instead of '%s'\n", v, m, PORT_ADDR); bad++; continue; }
        const char *ty = rtosc_argument_string(m);
        if (strlen(ty) != 1 || ty[0] != PORT_TYPE) { printf("v=%d: argument types '%s' for a port of type '%c'\n", v, ty, PORT_TYPE); bad++; continue; }
        double val = PORT_TYPE == 'i' ? (double)rtosc_argument(m, 0).i : (double)rtosc_argument(m, 0).f;
        if (val < mn || val > mx) { printf("v=%d: value %g outside [%g,%g]\n", v, val, mn, mx); bad++; }
        if (v && val < prev) { printf("v=%d: value %g below the value %g sent for v-1\n", v, val, prev); bad++; }
        prev = val;
    }
    printf(bad ? "C20 VIOLATED\n" : "C20 holds on this scenario\n");
    return bad ? 1 : 0;
}
