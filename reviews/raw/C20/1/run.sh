#!/bin/sh
# usage: run.sh <tree>   (tree must have been built: <tree>/_build/librtosc-cpp.a, librtosc.a)
# exit 0 = C20 holds for an int parameter whose port is named "volume::i" (the usual rtosc spelling), non-zero = violated
T=${1:?usage: run.sh <tree>}
H=$(dirname "$0")
O=$(mktemp /tmp/c20seed1.XXXXXX)
g++ -std=c++11 -O1 -g -DNDEBUG '-DPORT_NAME="volume::i"' '-DPORT_ADDR="/volume"' '-DPORT_MIN="0"' '-DPORT_MAX="100"' "-DPORT_TYPE='i'" \
    -I "$T/include" "$H/demo.cpp" "$T/_build/librtosc-cpp.a" "$T/_build/librtosc.a" -o "$O" -lpthread || exit 2
"$O"; rc=$?; rm -f "$O"; exit $rc
