#!/bin/sh
# usage: run.sh <tree>   (tree must have been built: <tree>/_build/librtosc-cpp.a, librtosc.a)
# exit 0 = C20 holds for a float parameter 20..20000 whose metadata also carries scale=logarithmic, non-zero = violated
T=${1:?usage: run.sh <tree>}
H=$(dirname "$0")
O=$(mktemp /tmp/c20seed2.XXXXXX)
g++ -std=c++11 -O1 -g -DNDEBUG '-DPORT_NAME="cutoff:f"' '-DPORT_ADDR="/cutoff"' '-DPORT_MIN="20"' '-DPORT_MAX="20000"' "-DPORT_TYPE='f'" \
    '-DPORT_EXTRA_KEY="scale"' '-DPORT_EXTRA_VAL="logarithmic"' \
    -I "$T/include" "$H/demo.cpp" "$T/_build/librtosc-cpp.a" "$T/_build/librtosc.a" -o "$O" -lpthread || exit 2
"$O"; rc=$?; rm -f "$O"; exit $rc
