// C20 regression seed 5: a long session.  One parameter, one controller; 40 times: map, the controller arrives and
// is learned, it drives the parameter, unMap.  Every message is delivered at once (no defect trigger K1/K2 fires).
// C20: in every cycle the not yet assigned controller must be assigned to the queued address and drive it.
#include <rtosc/miditable.h>
#include <rtosc/ports.h>
#include <rtosc/rtosc.h>
#include <cstdio>
#include <cstring>
#include <deque>
#include <string>
#include <vector>

struct DynPorts : rtosc::Ports {
    DynPorts() : rtosc::Ports({}) {}
    void add(const char *name, const char *meta) {
        ports.push_back(rtosc::Port{name, meta, NULL, [](const char *, rtosc::RtData &) {}});
        refreshMagic();
    }
};

int main()
{
    std::string meta = ":min";
    meta.push_back('\0'); meta += "=-1"; meta.push_back('\0');
    meta += ":max"; meta.push_back('\0'); meta += "=1"; meta.push_back('\0'); meta.push_back('\0');
    DynPorts table;
    table.add("p0:f", meta.data());
    table.add("p1:f", meta.data());
    rtosc::MidiMapperRT rt;
    rtosc::MidiMappernRT nrt;
    std::deque<std::vector<char>> to_rt, to_nrt;
    std::vector<std::string> backend;
    auto copy = [](const char *m) { size_t n = rtosc_message_length(m, 1024); return std::vector<char>(m, m + n); };
    nrt.base_ports = &table;
    nrt.rt_cb = [&](const char *m) { to_rt.push_back(copy(m)); };
    rt.setFrontendCb([&](const char *m) { to_nrt.push_back(copy(m)); });
    rt.setBackendCb([&](const char *m) { backend.push_back(m); });
    auto drain = [&]() {
        for (;;) {
            if (!to_rt.empty()) {
                auto m = to_rt.front(); to_rt.pop_front();
                char loc[128] = {0};
                rtosc::RtData d; d.loc = loc; d.loc_size = sizeof loc; d.obj = &rt;
                rtosc::MidiMapperRT::ports.dispatch(m.data() + strlen("/midi-learn/"), d, false);
            } else if (!to_nrt.empty()) {
                auto m = to_nrt.front(); to_nrt.pop_front();
                nrt.useFreeID(rtosc_argument(m.data(), 0).i);
            } else break;
        }
    };
    for (int cycle = 1; cycle <= 40; ++cycle) {
        nrt.map("/p0", true);
        drain();
        rt.handleCC(5, 1, 1, false);      // not assigned: asks to be learned
        drain();
        backend.clear();
        rt.handleCC(5, 64, 1, false);     // must now drive /p0
        if (backend.size() != 1 || backend[0] != "/p0") {
            printf("cycle %d: controller 5 arrived while /p0 was queued but does not drive it (%zu messages)\nC20 VIOLATED\n",
                   cycle, backend.size());
            return 1;
        }
        nrt.unMap("/p0", true);
        drain();
    }
    printf("C20 holds on this scenario\n");
    return 0;
}
