#!/bin/sh
# usage: run.sh <tree>   (tree must have been built: <tree>/_build/librtosc-cpp.a, librtosc.a)
# exit 0 = controller 5 can be learned 40 times in a row in one session, non-zero = C20 violated
T=${1:?usage: run.sh <tree>}
H=$(dirname "$0")
O=$(mktemp /tmp/c20seed5.XXXXXX)
g++ -std=c++11 -O1 -g -DNDEBUG -I "$T/include" "$H/demo.cpp" "$T/_build/librtosc-cpp.a" "$T/_build/librtosc.a" -o "$O" -lpthread || exit 2
"$O"; rc=$?; rm -f "$O"; exit $rc
