#!/bin/sh
# usage: run.sh <tree>   (tree must have been built: <tree>/_build/librtosc-cpp.a, librtosc.a)
# exit 0 = C20 holds for a float parameter whose address is 32 characters long, non-zero = violated
T=${1:?usage: run.sh <tree>}
H=$(dirname "$0")
O=$(mktemp /tmp/c20seed4.XXXXXX)
g++ -std=c++11 -O1 -g -DNDEBUG '-DPORT_NAME="filter_cutoff_frequency_of_voice:f"' '-DPORT_ADDR="/filter_cutoff_frequency_of_voice"' '-DPORT_MIN="-8"' '-DPORT_MAX="8"' "-DPORT_TYPE='f'" \
    -I "$T/include" "$H/demo.cpp" "$T/_build/librtosc-cpp.a" "$T/_build/librtosc.a" -o "$O" -lpthread || exit 2
"$O"; rc=$?; rm -f "$O"; exit $rc
