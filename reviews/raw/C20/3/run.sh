#!/bin/sh
# usage: run.sh <tree>   (tree must have been built: <tree>/_build/librtosc-cpp.a, librtosc.a)
# exit 0 = C20 holds for an int parameter with range 64..127 (harness spelling: i:512:1016), non-zero = violated
T=${1:?usage: run.sh <tree>}
H=$(dirname "$0")
O=$(mktemp /tmp/c20seed3.XXXXXX)
g++ -std=c++11 -O1 -g -DNDEBUG '-DPORT_NAME="p0:i"' '-DPORT_ADDR="/p0"' '-DPORT_MIN="64"' '-DPORT_MAX="127"' "-DPORT_TYPE='i'" \
    -I "$T/include" "$H/demo.cpp" "$T/_build/librtosc-cpp.a" "$T/_build/librtosc.a" -o "$O" -lpthread || exit 2
"$O"; rc=$?; rm -f "$O"; exit $rc
