// C19 regression demo 1: a parameter whose address is longer than ~52 characters.
// Every message a slot emits must go to the bound parameter's address.
#include <rtosc/ports.h>
#include <rtosc/rtosc.h>
#include <rtosc/automations.h>
#include <cstdio>
#include <cstring>
#include <string>

static void nop(const char *, rtosc::RtData &) {}

// /part0/kit0/adpars/VoicePar0/FreqEnvelope/PA_dt : 3 levels of nesting, 67 characters with a long leaf
static rtosc::Ports leaf = {
    {"envelope_attack_time_in_seconds_of_the_modulator::f", ":parameter\0:min\0=0\0:max\0=10\0", NULL, nop},
};
static rtosc::Ports mid = {
    {"VoicePar0/", NULL, &leaf, nop},
};
static rtosc::Ports top = {
    {"part0/", NULL, &mid, nop},
    {"vol::f", ":parameter\0:min\0=0\0:max\0=10\0", NULL, nop},
};

int main()
{
    const char *longp = "/part0/VoicePar0/envelope_attack_time_in_seconds_of_the_modulator";
    const char *shortp = "/vol";
    rtosc::AutomationMgr mgr(4, 2, 4);
    mgr.set_ports(top);
    std::string got_addr;
    float got_val = -1;
    int n = 0;
    mgr.backend = [&](const char *msg) {
        ++n;
        got_addr = msg;
        got_val = (rtosc_argument_string(msg)[0] == 'f') ? rtosc_argument(msg, 0).f : -1;
    };
    int bad = 0;
    mgr.createBinding(0, shortp, false);
    mgr.setSlot(0, 1.0f);
    if (n != 1 || got_addr != shortp || got_val != 10.0f) { printf("short path: wrong message '%s' %g\n", got_addr.c_str(), got_val); bad = 1; }
    n = 0;
    mgr.createBinding(1, longp, false);
    if (!mgr.slots[1].used) { printf("long path was not bound at all\n"); return 2; }
    mgr.setSlot(1, 1.0f);
    if (n != 1 || got_addr != longp || got_val != 10.0f) {
        printf("long path (%zu chars): %d message(s), address '%s', value %g; expected address '%s' value 10\n",
               strlen(longp), n, got_addr.c_str(), got_val, longp);
        bad = 1;
    }
    if (!bad) printf("ok\n");
    return bad;
}
