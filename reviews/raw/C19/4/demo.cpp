// C19 regression demo 4: an emitted message carries exactly the bound parameter's type
// ("i", "f", "T"/"F"): one argument, nothing appended.
#include <rtosc/ports.h>
#include <rtosc/rtosc.h>
#include <rtosc/automations.h>
#include <cstdio>
#include <cstring>
#include <string>

struct Obj { int cnt; float vol; bool on; };
static void nop(const char *, rtosc::RtData &) {}
static rtosc::Ports top = {
    {"cnt::i", ":parameter\0:min\0=0\0:max\0=127\0", NULL, nop},
    {"vol::f", ":parameter\0:min\0=0\0:max\0=10\0", NULL, nop},
    {"on::T:F", ":parameter\0", NULL, nop},
};

int main()
{
    struct { const char *path; const char *types; } c[] = {{"/cnt", "i"}, {"/vol", "f"}, {"/on", "TF"}};
    int bad = 0;
    for (auto &k : c) {
        rtosc::AutomationMgr mgr(2, 1, 4);
        mgr.set_ports(top);
        std::string ts, addr; int n = 0;
        mgr.backend = [&](const char *msg) { ++n; addr = msg; ts = rtosc_argument_string(msg); };
        mgr.createBinding(0, k.path, true);
        mgr.handleMidi(0, 7, 100);
        n = 0;
        mgr.handleMidi(0, 7, 127);
        bool ok = n == 1 && addr == k.path && ts.size() == 1 && strchr(k.types, ts[0]);
        if (!ok) {
            printf("%s: %d message(s) to '%s' with type string \"%s\"; expected one message of type '%s'\n",
                   k.path, n, addr.c_str(), ts.c_str(), k.types);
            bad = 1;
        }
    }
    if (!bad) printf("ok\n");
    return bad;
}
