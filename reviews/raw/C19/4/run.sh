#!/bin/sh
# usage: run.sh <tree>   (tree must have been built: cmake -G Ninja -B _build -S . && cmake --build _build)
set -e
T="$1"; D="$(cd "$(dirname "$0")" && pwd)"
O="$(mktemp -d)"
g++ -std=c++11 -O1 -I "$T/include" "$D/demo.cpp" "$T/_build/librtosc-cpp.a" "$T/_build/librtosc.a" -o "$O/demo" -lm
set +e
"$O/demo"; rc=$?
rm -rf "$O"
exit $rc
