// C19, defect present in the UNMODIFIED library (no patch): an integer parameter that declares a
// logarithmic scale.  createBinding stores param_min/max = logf(min/max), but the 'i' branch of
// setSlotSub never applies expf: the emitted integers are natural logarithms of the range
// (0..7 for [1,1000]) -- below the declared minimum and nothing like min..max.
#include <rtosc/ports.h>
#include <rtosc/rtosc.h>
#include <rtosc/automations.h>
#include <cstdio>
static void nop(const char *, rtosc::RtData &) {}
static rtosc::Ports top = {
    {"freq::i", ":parameter\0:min\0=1\0:max\0=1000\0:scale\0=logarithmic\0", NULL, nop},
};
int main()
{
    rtosc::AutomationMgr mgr(2, 1, 4);
    mgr.set_ports(top);
    int v = -1, bad = 0;
    mgr.backend = [&](const char *msg) { v = rtosc_argument(msg, 0).i; };
    mgr.createBinding(0, "/freq", false);
    const float xs[] = {0.f, 0.5f, 1.f};
    for (float x : xs) {
        mgr.setSlot(0, x);
        printf("slot value %g -> %d (declared range [1,1000])\n", x, v);
        if (v < 1 || v > 1000 || (x == 1.f && v != 1000) || (x == 0.f && v != 1)) bad = 1;
    }
    return bad;
}
