// C19 regression demo 2: every previously unbound controller number serves the head of the
// learn queue -- here CC 120, 121, 123 (channel-mode numbers) and, as a control, CC 7.
#include <rtosc/ports.h>
#include <rtosc/rtosc.h>
#include <rtosc/automations.h>
#include <cstdio>
#include <string>

static void nop(const char *, rtosc::RtData &) {}
static rtosc::Ports top = {
    {"vol::f", ":parameter\0:min\0=0\0:max\0=10\0", NULL, nop},
};

int main()
{
    const int ccs[] = {7, 120, 121, 123};
    int bad = 0;
    for (int cc : ccs) {
        rtosc::AutomationMgr mgr(4, 1, 4);
        mgr.set_ports(top);
        int n = 0; float val = -1; std::string addr;
        mgr.backend = [&](const char *msg) { ++n; addr = msg; val = rtosc_argument(msg, 0).f; };
        mgr.createBinding(0, "/vol", true);   // asks first
        mgr.createBinding(1, "/vol", true);   // asks second
        mgr.handleMidi(0, cc, 64);            // unbound controller: must be given to slot 0
        if (mgr.slots[0].midi_cc != cc || mgr.slots[0].learning != -1 || mgr.slots[1].learning != 1) {
            printf("CC %d: after one unbound controller slot0 (learning,cc)=(%d,%d) slot1 learning=%d; expected (-1,%d) and 1\n",
                   cc, mgr.slots[0].learning, mgr.slots[0].midi_cc, mgr.slots[1].learning, cc);
            bad = 1;
            continue;
        }
        n = 0;
        mgr.handleMidi(0, cc, 127);           // now bound: drives slot 0 only
        if (n != 1 || addr != "/vol" || val != 10.0f || mgr.slots[1].midi_cc != -1) {
            printf("CC %d: bound controller emitted %d message(s) '%s' %g\n", cc, n, addr.c_str(), val);
            bad = 1;
        }
    }
    if (!bad) printf("ok\n");
    return bad;
}
