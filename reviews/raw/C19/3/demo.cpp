// C19 regression demo 3: min/max metadata written in exponent notation (accepted by atof).
// At the default gain/offset slot values 0..1 map linearly onto [min,max]; every value is in range.
#include <rtosc/ports.h>
#include <rtosc/rtosc.h>
#include <rtosc/automations.h>
#include <cstdio>
#include <cmath>
#include <string>

static void nop(const char *, rtosc::RtData &) {}
static rtosc::Ports top = {
    {"time::f",  ":parameter\0:min\0=1e-3\0:max\0=0.5\0", NULL, nop},
    {"freq::f",  ":parameter\0:min\0=20\0:max\0=2e4\0", NULL, nop},
    {"plain::f", ":parameter\0:min\0=0.001\0:max\0=0.5\0", NULL, nop},
    {"cnt::i",   ":parameter\0:min\0=0\0:max\0=1E2\0", NULL, nop},
};

int main()
{
    struct { const char *path; float mn, mx; } c[] = {
        {"/plain", 0.001f, 0.5f}, {"/time", 0.001f, 0.5f}, {"/freq", 20.f, 20000.f}, {"/cnt", 0.f, 100.f}};
    int bad = 0;
    for (auto &k : c) {
        rtosc::AutomationMgr mgr(2, 1, 4);
        mgr.set_ports(top);
        double val = -1; int n = 0;
        mgr.backend = [&](const char *msg) {
            ++n;
            val = rtosc_argument_string(msg)[0] == 'i' ? (double)rtosc_argument(msg, 0).i : (double)rtosc_argument(msg, 0).f;
        };
        mgr.createBinding(0, k.path, false);
        const float xs[] = {0.f, 0.25f, 0.5f, 1.f, 1.5f, -1.f};
        for (float x : xs) {
            n = 0;
            mgr.setSlot(0, x);
            float t = x < 0 ? 0 : x > 1 ? 1 : x;
            double ex = k.mn + (double)t * (k.mx - k.mn);
            if (n != 1 || val < k.mn || val > k.mx || fabs(val - ex) > 1e-4 * fabs(k.mx) + (k.path[1] == 'c' ? 0.5 : 0)) {
                printf("%s: slot value %g -> %d message(s), value %g; declared range [%g,%g], linear map gives %g\n",
                       k.path, x, n, val, k.mn, k.mx, ex);
                bad = 1;
            }
        }
    }
    if (!bad) printf("ok\n");
    return bad;
}
