// C04 / memory safety of Ports::dispatch: dispatching a well-formed message must not read
// outside the message buffer.  Table {detunevalue, x} (perfectly hashed); the message "/de"
// occupies exactly 8 bytes ("/de\0" ",\0\0\0") in an exact-size heap block.
// Built with -fsanitize=address: any read behind the block aborts the program.
#include <rtosc/ports.h>
#include <rtosc/rtosc.h>
#include <cstdio>
#include <cstring>
#include <cstdlib>
static int calls;
static void cb(const char *, rtosc::RtData &) { ++calls; }
int main()
{
    rtosc::Ports ports = {
        {"detunevalue", "", nullptr, cb},
        {"x",           "", nullptr, cb},
    };
    const char *addrs[] = {"/de", "/detune", "/x", "/detunevalue"};
    int bad = 0;
    for(const char *a : addrs) {
        size_t n = rtosc_message(nullptr, 0, a, "");
        char *msg = (char*)malloc(n);              // exact size: no spare bytes behind the message
        rtosc_message(msg, n, a, "");
        char loc[64];
        memset(loc, 0, sizeof loc);
        rtosc::RtData d;
        d.loc = loc; d.loc_size = sizeof loc; d.obj = nullptr;
        calls = 0;
        ports.dispatch(msg, d, true);
        int expect = (!strcmp(a, "/x") || !strcmp(a, "/detunevalue")) ? 1 : 0;
        if(calls != expect) { printf("FAIL %s: %d callbacks\n", a, calls); bad = 1; }
        free(msg);
    }
    if(!bad) puts("ok");
    return bad;
}
