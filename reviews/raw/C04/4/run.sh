#!/bin/bash
# usage: run.sh <tree>   (tree built with cmake into <tree>/_build)
# The demo is linked with AddressSanitizer: its interceptors check the ranges that the
# (uninstrumented) library hands to memcmp/strncmp/...
T=${1:?tree}
D=$(cd "$(dirname "$0")" && pwd)
O=$(mktemp -d)
g++ -std=c++11 -O1 -g -fsanitize=address -I"$T/include" "$D/demo.cpp" "$T/_build/librtosc-cpp.a" "$T/_build/librtosc.a" -o "$O/demo" || exit 2
ASAN_OPTIONS=detect_leaks=0 "$O/demo" 2>&1 | head -12; rc=${PIPESTATUS[0]}
rm -rf "$O"
exit $rc
