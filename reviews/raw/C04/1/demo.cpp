// C04: a message invokes a port's callback iff its address matches the port's path.
// Table {volume, pan} (perfectly hashed).  "/VOLUME" and "/Pan" match no port.
#include <rtosc/ports.h>
#include <rtosc/rtosc.h>
#include <cstdio>
#include <cstring>
static int calls;
static void cb(const char *, rtosc::RtData &) { ++calls; }
int main()
{
    rtosc::Ports ports = {
        {"volume", "", nullptr, cb},
        {"pan",    "", nullptr, cb},
    };
    int bad = 0;
    const char *addrs[] = {"/VOLUME", "/Pan", "/volumE"};
    for(const char *a : addrs) {
        char msg[64];
        memset(msg, 0, sizeof msg);
        rtosc_message(msg, sizeof msg, a, "");
        // with location buffer
        char loc[64];
        memset(loc, 0, sizeof loc);
        rtosc::RtData d;
        d.loc = loc; d.loc_size = sizeof loc; d.obj = nullptr;
        calls = 0;
        ports.dispatch(msg, d, true);
        int with = calls, matches = d.matches;
        // without
        rtosc::RtData e;
        e.obj = nullptr;
        calls = 0;
        ports.dispatch(msg, e, true);
        int without = calls;
        if(with != 0 || without != 0 || matches != 0) {
            printf("FAIL %s: %d callback(s) with location buffer (matches=%d), %d without\n", a, with, matches, without);
            bad = 1;
        }
    }
    if(!bad) puts("ok");
    return bad;
}
