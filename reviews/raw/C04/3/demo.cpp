// C04: "... invokes that one callback exactly once and no other, with the runtime object
// handed down by the parent levels".  Tree: voice#4/ -> { level }, built with the
// library's own recursion macro rRecurs: the callback of /voice<k>/level must be handed
// &synth.voice[k].
#include <rtosc/ports.h>
#include <rtosc/port-sugar.h>
#include <rtosc/rtosc.h>
#include <cstdio>
#include <cstring>
#include <cctype>
#include <cstdlib>
static void *seen;
static int   calls;
struct Voice {
    int level;
    static const rtosc::Ports ports;
};
const rtosc::Ports Voice::ports = {
    {"level:", "", nullptr, [](const char *, rtosc::RtData &d) { seen = d.obj; ++calls; }},
};
struct Synth {
    Voice voice[4];
    static const rtosc::Ports ports;
};
#define rObject Synth
const rtosc::Ports Synth::ports = {
    rRecurs(voice, 4, "the voices"),
};
#undef rObject
int main()
{
    Synth synth;
    int bad = 0;
    for(int withloc = 0; withloc < 2; ++withloc) {
        for(int k = 0; k < 4; ++k) {
            char addr[32], msg[64], loc[64];
            snprintf(addr, sizeof addr, "/voice%d/level", k);
            memset(msg, 0, sizeof msg);
            rtosc_message(msg, sizeof msg, addr, "");
            memset(loc, 0, sizeof loc);
            rtosc::RtData d;
            d.obj = &synth;
            if(withloc) { d.loc = loc; d.loc_size = sizeof loc; }
            seen = nullptr; calls = 0;
            Synth::ports.dispatch(msg, d, true);
            if(calls != 1 || seen != (void*)&synth.voice[k]) {
                printf("FAIL %s (%s location buffer): %d call(s), object handed down is voice[%ld], expected voice[%d]\n",
                       addr, withloc ? "with" : "without", calls,
                       seen ? (long)((Voice*)seen - synth.voice) : -1L, k);
                bad = 1;
            }
        }
    }
    if(!bad) puts("ok");
    return bad;
}
