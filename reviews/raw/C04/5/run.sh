#!/bin/bash
# usage: run.sh <tree>   (tree built with cmake into <tree>/_build)
T=${1:?tree}
D=$(cd "$(dirname "$0")" && pwd)
O=$(mktemp -d)
g++ -std=c++11 -O1 -g -I"$T/include" "$D/demo.cpp" "$T/_build/librtosc-cpp.a" "$T/_build/librtosc.a" -o "$O/demo" || exit 2
"$O/demo"; rc=$?
rm -rf "$O"
exit $rc
