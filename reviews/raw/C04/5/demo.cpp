// C04: "When a location buffer is supplied the callback sees the full address in it".
// Leaf ports whose names have an enumeration followed by further path components
// (the shape of "gain#3/value::i" used with bundle_foreach / walk_ports).
#include <rtosc/ports.h>
#include <rtosc/rtosc.h>
#include <cstdio>
#include <cstring>
#include <string>
static std::string seen;
static int calls;
static void cb(const char *, rtosc::RtData &d) { seen = d.loc ? d.loc : "(null)"; ++calls; }
int main()
{
    rtosc::Ports ports = {
        {"voice#4/level:", "", nullptr, cb},
        {"bank/slot#8:",   "", nullptr, cb},
        {"volume:",        "", nullptr, cb},
    };
    int bad = 0;
    for(const char *a : {"/voice2/level", "/bank/slot5", "/volume"}) {
        char msg[64], loc[64];
        memset(msg, 0, sizeof msg);
        rtosc_message(msg, sizeof msg, a, "");
        memset(loc, 0, sizeof loc);
        rtosc::RtData d;
        d.loc = loc; d.loc_size = sizeof loc; d.obj = nullptr;
        calls = 0; seen = "";
        ports.dispatch(msg, d, true);
        if(calls != 1 || seen != a || d.matches != 1) {
            printf("FAIL %s: %d callback(s), matches=%d, the callback saw loc \"%s\"\n", a, calls, d.matches, seen.c_str());
            bad = 1;
        }
    }
    if(!bad) puts("ok");
    return bad;
}
