// C04: a message invokes the callback of the port it addresses.  The ports of a ClonePorts
// table are the source table's ports (name, metadata, sub-table) with the callbacks given
// in the ClonePort list: a message to /gain must invoke the clone's callback for "gain".
#include <rtosc/ports.h>
#include <rtosc/rtosc.h>
#include <cstdio>
#include <cstring>
static int src_calls, clone_calls, dflt_calls;
int main()
{
    rtosc::Ports realtime = {
        {"gain:f", "", nullptr, [](const char *, rtosc::RtData &) { ++src_calls; }},
        {"pan:f",  "", nullptr, [](const char *, rtosc::RtData &) { ++src_calls; }},
    };
    rtosc::ClonePorts nonrt(realtime, {
        {"gain:f", [](const char *, rtosc::RtData &) { ++clone_calls; }},
        {"pan:f",  [](const char *, rtosc::RtData &) { ++clone_calls; }},
        {"*",      [](const char *, rtosc::RtData &) { ++dflt_calls; }},
    });
    int bad = 0;
    for(int withloc = 0; withloc < 2; ++withloc) {
        for(const char *a : {"/gain", "/pan"}) {
            char msg[64];
            memset(msg, 0, sizeof msg);
            rtosc_message(msg, sizeof msg, a, "f", 0.5f);
            char loc[64];
            memset(loc, 0, sizeof loc);
            rtosc::RtData d;
            d.obj = nullptr;
            if(withloc) { d.loc = loc; d.loc_size = sizeof loc; }
            src_calls = clone_calls = dflt_calls = 0;
            nonrt.dispatch(msg, d, true);
            if(clone_calls != 1 || src_calls != 0 || dflt_calls != 0) {
                printf("FAIL %s (%s location buffer): clone's callback %d, source table's callback %d, default handler %d\n",
                       a, withloc ? "with" : "without", clone_calls, src_calls, dflt_calls);
                bad = 1;
            }
        }
    }
    if(!bad) puts("ok");
    return bad;
}
