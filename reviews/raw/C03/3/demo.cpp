// C03 regression seed: dispatching a message to a port declared with the library's own rDummy()
// macro must not allocate.  With an empty std::function in the table, Ports::dispatch throws
// std::bad_function_call: the exception object is heap-allocated (and the process dies unless
// the application catches it).
#include <rtosc/ports.h>
#include <rtosc/port-sugar.h>
#include <rtosc/rtosc.h>
#include <cstdio>
#include <cstdlib>
#include <new>
#include <exception>
extern "C" { void *__libc_malloc(size_t); void __libc_free(void *); void *__libc_calloc(size_t, size_t); void *__libc_realloc(void *, size_t); }
static volatile int g_on = 0;
static volatile unsigned long g_hits = 0;
extern "C" {
void *malloc(size_t n) { if(g_on) ++g_hits; return __libc_malloc(n); }
void *calloc(size_t a, size_t b) { if(g_on) ++g_hits; return __libc_calloc(a, b); }
void *realloc(void *p, size_t n) { if(g_on) ++g_hits; return __libc_realloc(p, n); }
void  free(void *p) { if(g_on && p) ++g_hits; __libc_free(p); }
}
void *operator new(size_t n) { if(g_on) ++g_hits; void *p = __libc_malloc(n ? n : 1); if(!p) abort(); return p; }
void *operator new[](size_t n) { return operator new(n); }
void  operator delete(void *p) noexcept { if(g_on && p) ++g_hits; __libc_free(p); }
void  operator delete[](void *p) noexcept { operator delete(p); }
void  operator delete(void *p, size_t) noexcept { operator delete(p); }
void  operator delete[](void *p, size_t) noexcept { operator delete(p); }

using rtosc::msg_t;
struct Obj { int x; };
#define rObject Obj
static const rtosc::Ports ports = {
    rParamI(x, "a parameter"),
    rDummy(nothing),
};
#undef rObject

int main()
{
    Obj o = {0};
    rtosc::RtData d;
    char loc[128] = "";
    char msg[64];
    rtosc_message(msg, sizeof(msg), "/nothing", "");
    bool threw = false;
    for(int with_loc = 0; with_loc < 2; ++with_loc) {
        d.obj = &o;
        d.loc = with_loc ? loc : NULL;
        d.loc_size = with_loc ? sizeof(loc) : 0;
        g_on = 1;
        try { ports.dispatch(msg, d, true); } catch(const std::exception &) { threw = true; }
        g_on = 0;
    }
    if(g_hits || threw) {
        fprintf(stderr, "VIOLATION: dispatch to an rDummy port: %lu allocator calls, exception=%d\n", g_hits, (int) threw);
        return 1;
    }
    printf("ok: dispatch to an rDummy port neither allocates nor throws\n");
    return 0;
}
