// C03 regression seed: the default RtData::reply(path, args, ...) forwarding must not allocate.
// Counts allocator calls (malloc family + operator new/delete interposed in this executable)
// around d.reply("/x", "i", 1) on a plain rtosc::RtData, against the library AS SHIPPED
// (cmake build: CMAKE_CXX_STANDARD 17).
#include <rtosc/ports.h>
#include <cstdio>
#include <cstdlib>
#include <new>
extern "C" { void *__libc_malloc(size_t); void __libc_free(void *); void *__libc_calloc(size_t, size_t); void *__libc_realloc(void *, size_t); }
static volatile int g_on = 0;
static volatile unsigned long g_hits = 0;
extern "C" {
void *malloc(size_t n) { if(g_on) ++g_hits; return __libc_malloc(n); }
void *calloc(size_t a, size_t b) { if(g_on) ++g_hits; return __libc_calloc(a, b); }
void *realloc(void *p, size_t n) { if(g_on) ++g_hits; return __libc_realloc(p, n); }
void  free(void *p) { if(g_on && p) ++g_hits; __libc_free(p); }
}
void *operator new(size_t n) { if(g_on) ++g_hits; void *p = __libc_malloc(n ? n : 1); if(!p) abort(); return p; }
void *operator new[](size_t n) { return operator new(n); }
void  operator delete(void *p) noexcept { if(g_on && p) ++g_hits; __libc_free(p); }
void  operator delete[](void *p) noexcept { operator delete(p); }
void  operator delete(void *p, size_t) noexcept { operator delete(p); }
void  operator delete[](void *p, size_t) noexcept { operator delete(p); }

int main()
{
    rtosc::RtData d;
    char loc[128] = "/x";
    d.loc = loc; d.loc_size = sizeof(loc);
    g_on = 1;
    d.reply("/x", "i", 1);
    d.reply("/a/long/path/of/more/than/fifteen/characters", "sif", "payload", 2, 3.0f);
    d.broadcast("/y", "f", 1.0f);
    g_on = 0;
    if(g_hits) { fprintf(stderr, "VIOLATION: default RtData reply/broadcast forwarding made %lu allocator calls\n", g_hits); return 1; }
    printf("ok: no allocator call in RtData::reply/broadcast\n");
    return 0;
}
