#!/bin/sh
# usage: run.sh <tree>   (tree must have been built: <tree>/_build/librtosc-cpp.a, librtosc.a)
set -e
T=${1:?usage: run.sh <tree>}
D=$(dirname "$(readlink -f "$0")")
O=$(mktemp -d)
g++ -std=c++17 -O1 -I"$T/include" "$D/demo.cpp" "$T/_build/librtosc-cpp.a" "$T/_build/librtosc.a" -lpthread -o "$O/demo"
set +e
"$O/demo"
rc=$?
rm -rf "$O"
exit $rc
