// C03 regression seed: ThreadLink::write must not take a lock.
// A write() is interrupted in the middle (the string argument lives on a PROT_NONE page, so
// rtosc_vmessage faults while ThreadLink::write is in progress); the fault handler posts a message
// to the SAME link.  A wait-free write() completes in the handler (the handler then makes the page
// readable and the interrupted write resumes).  A write() that serialises writers with a lock
// never returns in the handler: the lock is held by the interrupted call -> watchdog -> exit 1.
#include <rtosc/thread-link.h>
#include <rtosc/rtosc.h>
#include <signal.h>
#include <sys/mman.h>
#include <unistd.h>
#include <cstdio>
#include <cstring>
#include <cstdlib>

static rtosc::ThreadLink *g_link;
static char *g_page;
static volatile int g_nested_done = 0;

static void on_alarm(int)
{
    const char m[] = "VIOLATION: ThreadLink::write blocked on a lock held by an interrupted writer\n";
    (void) !write(2, m, sizeof(m) - 1);
    _exit(1);
}
static void on_segv(int)
{
    if(g_nested_done) _exit(3);              // unrelated crash
    g_link->write("/nested", "i", 42);       // second writer while the first one is in progress
    g_nested_done = 1;
    mprotect(g_page, 4096, PROT_READ | PROT_WRITE);
}

int main()
{
    g_link = new rtosc::ThreadLink(256, 8);
    g_page = (char *) mmap(NULL, 4096, PROT_READ | PROT_WRITE, MAP_PRIVATE | MAP_ANONYMOUS, -1, 0);
    if(g_page == MAP_FAILED) return 2;
    strcpy(g_page, "hello");
    mprotect(g_page, 4096, PROT_NONE);
    signal(SIGALRM, on_alarm);
    struct sigaction sa;
    memset(&sa, 0, sizeof(sa));
    sa.sa_handler = on_segv;
    sa.sa_flags = SA_NODEFER;
    sigaction(SIGSEGV, &sa, NULL);
    alarm(3);
    g_link->write("/outer", "s", g_page);    // faults inside write()
    alarm(0);
    if(!g_nested_done) { fprintf(stderr, "demo did not interrupt write()\n"); return 2; }
    printf("ok: the nested write completed while another write was in progress (no lock)\n");
    return 0;
}
