#!/bin/bash
# usage: revalidate_seeds.sh [jobs=4] [pattern=C*]
# Re-confirms every kept seed against the CURRENT /repo HEAD (patch applies, 31 tests pass, demonstration fails with the
# change and passes without, the property's quick check reports a VIOLATION) and writes one line per seed to
# /verif/seeded/REVALIDATION.log.  meta.json of each seed gets "revalidated": {"repo_head":…, "outcome":…}.
J=${1:-4}; PAT=${2:-C*}
cd "$(dirname "$0")/.."
HEAD=$(git -C /repo rev-parse --short HEAD)
( cd /repo && cmake --build _build >/dev/null 2>&1 )
one() {
  d=$1; s=$(basename $d); P=${s%%-*}
  line=$(bash tools/try_seed.sh $P $d 2>&1 | grep "^SEED" | tail -1 | sed 's/replay=[^ ]*/(replay)/')
  python3 - "$d" "$2" "$line" <<'E'
import json,sys
d,head,line=sys.argv[1:4]
p=d+"/meta.json"; m=json.load(open(p))
m["revalidated"]={"repo_head":head,"outcome":line.split(": ",1)[-1]}
json.dump(m,open(p,"w"),indent=1)
E
  echo "$HEAD $line"
}
export -f one
ls -d seeded/$PAT/ | sed 's:/$::' | xargs -P $J -I{} bash -c "one {} $HEAD"
python3 tools/seed_log.py
