#!/usr/bin/env python3
"""keep_seed.py <Cnn> <srcdir> <name> "<try_seed summary line>" — stores a confirmed seeded change under
/verif/seeded/<name>/ (patch.diff, demonstration, run.sh, meta.json with what was run and the outcome)."""
import json, os, shutil, sys
prop, src, name, summary = sys.argv[1:5]
dst = os.path.join(os.path.dirname(os.path.dirname(os.path.abspath(__file__))), "seeded", name)
os.makedirs(dst, exist_ok=True)
for f in os.listdir(src):
    if os.path.isfile(os.path.join(src, f)) and os.path.getsize(os.path.join(src, f)) < 200000:
        shutil.copy(os.path.join(src, f), dst)
mp = os.path.join(dst, "meta.json")
meta = json.load(open(mp)) if os.path.exists(mp) else {}
meta["property"] = prop
if os.environ.get("SEED_ORIGIN"):
    meta["origin"] = os.environ["SEED_ORIGIN"]
meta["confirmed_by_coordinator"] = {
    "ran": "tools/try_seed.sh %s <dir> (scratch worktree: git apply patch.diff; cmake+ctest 31 tests; run.sh on changed and unchanged tree; tools/check.py %s with VERIF_REPO=<changed tree>)" % (prop, prop),
    "outcome": summary}
meta["detected"] = "check_rc=1" in summary and "VIOLATION" in summary
json.dump(meta, open(mp, "w"), indent=1)
print("kept", dst, "detected=", meta["detected"])
