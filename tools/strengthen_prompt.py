#!/usr/bin/env python3
"""Prints the prompt for a strengthening sub-agent of one property (coordinator tool): it acts on the white-box
review digest reviews/<Cnn>.md (+ raw artefacts) and on the seeded changes its check still misses."""
import json, os, sys
pid = sys.argv[1]
also = sys.argv[2:]          # further properties handled by the same agent (shared files)
VERIF = os.path.dirname(os.path.dirname(os.path.abspath(__file__)))
pids = [pid] + also
und = []
for d in sorted(os.listdir(os.path.join(VERIF, "seeded"))):
    mp = os.path.join(VERIF, "seeded", d, "meta.json")
    if os.path.exists(mp):
        m = json.load(open(mp))
        if m.get("property") in pids and not m.get("detected"):
            und.append(d)
revs = " ".join("/verif/reviews/%s.md (raw artefacts: /verif/reviews/raw/%s/)" % (p, p) for p in pids)
P = pid
print(f"""You are strengthening the verification check of propert{'ies' if also else 'y'} {', '.join(pids)} in an existing Lean-4 verification framework for the C/C++ library rtosc. No network. Read first, fully: /verif/tools/AGENT_GUIDE.md (conventions and isolation rules — follow them: you work in /verif on the files owned by your propert{'ies' if also else 'y'} only, never touch /repo, never git commit; your own worktree: `git -C /repo worktree add --detach /tmp/wt-{P} HEAD`, run checks with `VERIF_REPO=/tmp/wt-{P} VERIF_BUILD=/tmp/build-{P} python3 tools/check.py <Cnn>`; build only your own lake targets), then /verif/DESIGN.md sections 2, 5 and 9.2 for your propert{'ies' if also else 'y'}, then the property text (the lines with these ids in /verif/properties.jsonl), then the white-box review digest(s): {revs}.

The review lists: statement issues of the Lean theorems, confirmed differences between model and code, realistic mutations of the library that the check MISSES (each with patch.diff + demo + run.sh in the raw artefacts), genuine defects of the unchanged library, and false-alarm risks. Seeded changes kept under /verif/seeded/ that the check still misses: {', '.join(und) if und else 'none'} (each directory has patch.diff, a demo, run.sh, meta.json).

Your job, in priority order:

1. MISSED CHANGES → DETECTED. For every missed mutation of the review and every undetected seed listed above: widen the generator / harness / oracle / model (whatever is the right place) so that `check.py` run against a tree with that change applied reports `VIOLATION property=<Cnn> replay=…` with a failing input (exit 1) in the QUICK tier. Generalise: extend the input space to the *class* of inputs the review names (sizes, constructs, boundary values), never special-case the witness. New constructs must be handled by the Lean model too (the correspondence must stay exact on the unchanged tree); extend model + driver where needed, and keep every theorem in THEOREMS checking (no sorry/admit/axiom/native_decide). Add the failing op line of each to corpus/<Cnn>.ops with a one-line comment. Apply each patch in your worktree one at a time (`git -C /tmp/wt-{P} apply <patch>`; `git -C /tmp/wt-{P} checkout -- .` afterwards).
2. NO FALSE ALARMS. Remove every false-alarm risk the review confirmed: the oracle and the model/implementation comparison must not demand more than the property statement and its `observe_at` say (e.g. compare as multisets where the statement fixes no order; do not compare state the property does not observe). After each change the check must still catch all the seeds of your propert{'ies' if also else 'y'} under /verif/seeded/ that it caught before (meta.json "detected": true) — re-run them at the end.
3. GENUINE DEFECTS of the unchanged library that your widened generator now exposes (the review names candidates; reproduce each against the real code first): handle them exactly as AGENT_GUIDE says — a small maintainer-acceptable repair as fixes/<Cnn>-<name>.patch + .msg (message starts with `fix: `; verify the 31 ctest tests still pass with it in your worktree; the model then mirrors the repaired code; add a `fixed` entry with the witness to known_findings.d/<Cnn>.json), or, if no small safe repair exists, a `known` finding with a decidable trigger predicate + `…_counterexample` theorem + `known()` attribution in the property module. Never silence a genuine defect by narrowing the generator. Model/code differences the review confirmed must be resolved by correcting the MODEL (it must mirror the code as it is), unless the code violates the property.
4. STATEMENTS. Where the review found a theorem weaker than the property clause it claims, a hypothesis that excludes inputs the check actually runs, or a clause with no theorem: strengthen/prove what is feasible in the time (new helper lemmas in your own Proofs files); what stays open must be said honestly in LEVEL_TEXT / LEVEL_NOTE / ASSUMPTIONS / RULE of the property module (these texts go into MANIFEST.json and DESIGN.md verbatim) — partial results are named `…_partial` with the full statement kept as `def …_statement : Prop`.

Done means: (a) the check exits 0 with no VIOLATION on the clean tree (your worktree at HEAD plus your own fix patches) at VERIF_SEED=1,2,3,4,5 quick and once thorough; quick tier stays under ~90 s; (b) each missed mutation / undetected seed now gives a failing-input VIOLATION in the quick tier; (c) all previously detected seeds of the propert{'ies' if also else 'y'} are still detected; (d) `lake build` of your targets is clean, no forbidden tokens. Remove your worktree and build dir at the end (`git -C /repo worktree remove --force /tmp/wt-{P}; rm -rf /tmp/build-{P}`).

Final message: what you changed (files), per missed mutation/seed: caught now? by which layer; false-alarm fixes; defects: fix patches (names) / findings; theorems added or restated; anything NOT done and why; anything the coordinator must do (apply fix patches to /repo, shared-file edits).""")
