#!/usr/bin/env python3
"""Prints the prompt handed to a white-box reviewer of one property's check (coordinator tool).
The reviewer reads everything in /verif for that property, audits statements/model/oracle/generator and tries
to construct realistic changes to the library that the check misses; it edits nothing in /verif or /repo."""
import json, os, sys
pid = sys.argv[1]
VERIF = os.path.dirname(os.path.dirname(os.path.abspath(__file__)))
for l in open(os.path.join(VERIF, "properties.jsonl")):
    p = json.loads(l)
    if p["id"] == pid:
        break
low = pid.lower()
print(f"""You are an adversarial reviewer of one machine-checked verification artefact. Library under verification: rtosc (C/C++), repository at /repo (read-only for you). Verification framework: /verif (read-only for you: do NOT edit, create or delete anything under /verif or /repo, do not commit anything). Scratch space: /tmp/rev-{pid} (a git worktree of /repo you create yourself: `git -C /repo worktree add --detach /tmp/rev-{pid} HEAD`) and /tmp/revbuild-{pid}; remove both at the end (`git -C /repo worktree remove --force /tmp/rev-{pid}; rm -rf /tmp/revbuild-{pid}`).

Property {pid} — "{p['title']}":
"{p['statement']}"
Quantified over: {p['quantifier']['text']}
Anchors: {', '.join(p['anchors']['files'])}; observed at: {'; '.join(p['anchors'].get('observe_at', []))}

The check: `cd /verif && VERIF_REPO=<tree> VERIF_BUILD=/tmp/revbuild-{pid} python3 tools/check.py {pid} [--tier quick|thorough]` (exit 0 = property held; exit 1 + a line `VIOLATION property={pid} replay=<file>` otherwise). How it works: /verif/DESIGN.md sections 2 and 5 ({pid}) and 9; runner /verif/tools/vlib.py; property module /verif/tools/props/{low}.py (generator, oracle, THEOREMS, assumptions); Lean theorems /verif/lean/RtoscModel/Props/{pid}.lean (+ the model and proof files it imports); driver /verif/lean/Driver/*Engine.lean; harness /verif/harness/. The Lean project is already built (/verif/lean/.lake); never run `lake clean` or plain `lake build`.

Your tasks, in this order:

1. STATEMENT AUDIT. Read /verif/lean/RtoscModel/Props/{pid}.lean and the definitions its statements use. For every theorem listed in THEOREMS of the property module decide: does it say what the property text says, for all inputs the property quantifies over? Look for: hypotheses that exclude most realistic inputs or that no reachable state satisfies (vacuity); conclusions weaker than the clause they claim (e.g. ⊆ where = is meant, ∃ where ∀ is meant, one direction of an iff); definitions totalised so that the theorem is true for the wrong reason (getD/head!/default values, `n / 0`, truncated subtraction); specifications that are just the model again (theorem restates the implementation instead of an independent spec); clauses of the property text with no theorem at all. Compare with what LEVEL_TEXT in the property module claims.

2. MODEL FIDELITY. Compare the Lean model functions with the C/C++ source they mirror (the files in Anchors, at /repo HEAD). List every behavioural difference you can find (branches missing, order of tests, integer width/wrap, off-by-one, characters treated differently), each with file:line on both sides and a concrete input on which they would differ — then CHECK the input by running it through both sides: the harness/driver pair is what the check runs; an op line can be fed by hand: build happens inside check.py; after one run of the check the harness binary is /tmp/revbuild-{pid}/h-<engine>-* (usage: `<exe> <file with op lines>`) and the model driver is /verif/lean/.lake/build/bin/drv_<engine> (reads op lines on stdin). Only report differences you confirmed.

3. WHITE-BOX MUTATIONS. Knowing exactly what the generator produces and what the oracle compares, construct 3 to 5 realistic changes to the library (src/ or include/ in YOUR worktree only; each must compile and keep the library's 31 ctest tests green: `cmake -G Ninja -B _build -S . >/dev/null && cmake --build _build >/dev/null && ctest --test-dir _build -j8 --timeout 900`) that break the property as stated but that you expect the quick check to MISS (inputs outside the generator's reach, observables the oracle does not compare, paths the harness never drives, sizes beyond its bounds, a construct the model abstracts away). Run the quick check against each (one at a time; `git -C /tmp/rev-{pid} checkout -- .` between them). For each report: the diff, why it breaks the property (with a tiny demonstration program or op line showing the wrong behaviour), whether the quick check caught it (and the thorough tier if quick missed it and thorough takes < 20 min), and — if missed — the smallest change to generator/oracle/model that would catch it.
   Save each MISSED mutation as /tmp/rev-{pid}-out/<i>/patch.diff (git diff) plus demo source + run.sh (usage `run.sh <tree>`, links <tree>/_build/librtosc-cpp.a and librtosc.a, include <tree>/include; exits non-zero with the change, 0 without) plus meta.json {{"property":"{pid}","what_it_breaks":…,"needs_to_manifest":…,"verified":…}} so the coordinator can keep it as a regression seed. (/tmp/rev-{pid}-out is the only place besides your worktree and build dir you may write to; leave it in place.)

4. FALSE-ALARM RISK. Is there any harmless rewrite of the anchored code (same observable behaviour as far as the property statement goes) on which the check would raise an alarm because it compares more than `observe_at` names or because the oracle demands more than the property states? Name it concretely (you may test one such rewrite the same way).

Final message = a structured report: (A) statement issues, (B) confirmed model/code differences, (C) mutations tried: caught / missed (+ proposed strengthening), (D) false-alarm risks, (E) the three most valuable improvements, most valuable first. Be concrete (file:line, inputs, op lines). Do not pad: if a section has no findings say "none found" and what you checked.""")
