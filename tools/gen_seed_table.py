#!/usr/bin/env python3
"""Prints a markdown table of the seeded changes kept under /verif/seeded (for DESIGN.md section 9)."""
import json, os
root = os.path.join(os.path.dirname(os.path.dirname(os.path.abspath(__file__))), "seeded")
print("| seed | property | what the change does | needs | detected by |")
print("|---|---|---|---|---|")
for d in sorted(os.listdir(root)):
    mp = os.path.join(root, d, "meta.json")
    if not os.path.exists(mp):
        continue
    m = json.load(open(mp))
    out = m.get("confirmed_by_coordinator", {}).get("outcome", "")
    how = "NOT detected" if not m.get("detected") else ("proof obligation only (no-failing-input-found)" if "no-failing-input-found" in out else "failing-input VIOLATION (oracle on the implementation + correspondence)")
    if m.get("detected_note"):
        how = m["detected_note"]
    def cut(s, n=160):
        s = " ".join(str(s).split())
        return s if len(s) <= n else s[:n - 1] + "…"
    print("| %s | %s | %s | %s | %s |" % (d, m.get("property"), cut(m.get("what_it_breaks", "")), cut(m.get("needs_to_manifest", ""), 120), how))
