#!/bin/bash
# usage: process_seeds.sh <Cnn> [srcroot=/tmp/seed-<Cnn>-out]
# Confirms every seeded change found under <srcroot>/<i>/ with try_seed.sh and keeps it (detected or not) as
# /verif/seeded/<Cnn>-<next free number>/.  Afterwards removes the seeding worktree /tmp/seed-<Cnn> and <srcroot>.
P=$1; SRC=${2:-/tmp/seed-$P-out}
cd "$(dirname "$0")/.."
for d in $(ls -d $SRC/[0-9]*/ 2>/dev/null | sort); do
  [ -f $d/patch.diff ] || continue
  line=$(bash tools/try_seed.sh $P $d 2>&1 | grep "^SEED" | tail -1)
  echo "$line"
  case "$line" in
    *"ctest_rc=0"*"demo_mut_rc="[1-9]*"demo_clean_rc=0"*) ;;
    *) echo "  -> not a confirmed seed (does not apply/compile, tests fail, or the demonstration does not discriminate): skipped"; continue;;
  esac
  n=1; while [ -d seeded/$P-$n ]; do n=$((n+1)); done
  python3 tools/keep_seed.py $P $d $P-$n "$(echo "$line" | sed 's/^SEED [^:]*: //; s/replay=[^ ]*/(failing-input replay)/')"
done
if [ -z "$KEEP_SRC" ]; then git -C /repo worktree remove --force /tmp/seed-$P 2>/dev/null; rm -rf $SRC; fi
