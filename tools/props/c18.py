"""C18 — Path utilities: '..' collapsing, lookup by address, child search."""
import itertools

PROP = "C18"
ENGINE = "path"
LEAN_MODULES = ["RtoscModel.Props.C18", "RtoscModel.Props.C18Walk"]
THEOREMS = ["Rtosc.Path.collapse_eq_spec", "Rtosc.Path.collapse_in_place",
            "Rtosc.Path.apropos_of_walked", "Rtosc.Path.apropos_of_walked_local",
            "Rtosc.Path.apropos_of_walked_enum", "Rtosc.Path.apropos_of_walked_enum_canon",
            "Rtosc.Path.apropos_of_walked_enum_partial",
            "Rtosc.Path.apropos_of_walked_enum_counterexample", "Rtosc.Path.apropos_of_walked_enum_statement_false",
            "Rtosc.Path.apropos_of_walked_enum_zero_count_counterexample",
            "Rtosc.Path.apropos_of_walked_enum_overflow_counterexample",
            "Rtosc.Path.walked_is_enumerate", "Rtosc.Path.walked_is_enumerate_literal", "Rtosc.Path.apropos_of_enumerated",
            "Rtosc.Path.index_spec", "Rtosc.Path.search_location_dir",
            "Rtosc.Path.search_children", "Rtosc.Path.search_sorted", "Rtosc.Path.search_unique_prefix",
            "Rtosc.Path.search_reply_wf", "Rtosc.Path.sort_result_unique"]
HARNESS = {"src": ["path.cpp"]}
RULE = ("collapse: every absolute path of 1..8 distinct components with '..' at every subset of positions, with and "
        "without trailing '/', plus random paths over the components a bc foo . ... ..x x.. <empty> .. (and a small "
        "stream of relative paths, compared with the model only), plus deep and long paths: 9..64 components of 1..300 "
        "bytes (lengths around 16/32/64/128/256 included), n ordinary components followed by 0..n+1 '..' for n around "
        "16/32/64, and random '..' densities; lookup: random port trees (depth <= 3, <= 5 rows per table, names over "
        "a b / with digits, optional :args, enumerated rows `p#3/ x#12 a/b#2 v#2b q#10/r`, duplicate names and common "
        "prefixes in the 'messy' half), every walked address (a sample of 16 when enumerated rows multiply them) with "
        "and without leading '/', checked against the port it was walked from; plus truncated/extended/out-of-range-index "
        "addresses and addresses of ambiguous rows, for which only memory safety is observed (both sides print `A *`); "
        "search: the same trees with metadata blocks of every length 3..30 and long blocks (31..70, 250..270, 511..1025, "
        "5000+ bytes; with and without leading ':'), NULL and empty metadata, all three options, both reply_with_query "
        "values, prefix = empty / NULL / a prefix of a child name / a whole name / a non-matching string, exact and ample "
        "max_ports, exact / too small / ample reply buffers; flat tables with duplicate names and chains of `name/` "
        "prefixes; tables of names differing in digit runs only (a1 a2 a10 a01 a/9 a/10 ...); wide tables of 17..120 rows "
        "with max_ports to match; searches at locations the property does not constrain print `S *` on both sides. "
        "non-trivial: collapse with at least one '..'; lookup in a tree with >= 3 ports; search over >= 2 rows. "
        "distinct = distinct op line")
ASSUMPTIONS = ["port names are NUL-free and non-empty and do not use '{' or '*' (those pattern characters are C05's subject; the "
               "model answers `unsupported`); a port with a sub-table has a name ending in '/'",
               "the lookup theorem apropos_of_walked is about trees of literal names (no '#'); apropos_of_walked_enum is about trees "
               "with literal and enumerated rows `pre#N post` (one '#' per name, N < 2^31 followed by a non-digit; every "
               "row expanded to its N elements at every level: walkE) under two hypotheses: TreeOKE (no expanded name of a row "
               "is a prefix of an expanded name of another row of the same table) and TreeNumOK (RtoscModel/Path/EnumNum.lean: "
               "the same for every name the other row's pattern ACCEPTS, i.e. with the index written with any number of leading "
               "zeros, as rtosc_match_number's atoi reads it; every enumerated row has N >= 1; the digits that follow another "
               "enumerated row's text in a name stay below 2^31). TreeOKE alone is not enough: "
               "apropos_of_walked_enum_counterexample (table `a#5x`, `a00x`: the lookup of the walked address a00x returns the "
               "row a#5x, in the model and in the compiled code), ..._zero_count_counterexample (`x#0`, `x`), "
               "..._overflow_counterexample (`a#2`, `a9999999999`: atoi overflow, the model answers `unsupported`). "
               "apropos_of_walked_enum_canon replaces TreeNumOK by a condition read off the names (CanonList, decidable as "
               "canonListB; treeNumOK_of_canon): every N >= 1, no '#' directly behind a digit, and every digit run in the "
               "literal text of a name is a number below 2^31 written without leading zeros",
               "generated port names use bytes 1..126 only: Ports::refreshMagic (find_assoc/do_hash, C04's hashing) indexes a "
               "127-entry table with the name's char, so other bytes are undefined behaviour before any C18 function runs",
               "lookup of a walked address: no other row of a table on the way is a prefix of, or prefixed by, the row taken "
               "(names compared up to ':'; for enumerated rows: no expanded name of one row is a prefix of, or prefixed by, a name "
               "another row's pattern accepts - leading zeros in the index included)",
               "child search: 'the addressed port' is what the model of Ports::apropos returns for the location "
               "(SearchHyp.resolves); search_location_dir proves that the address of a directory (literal names, no sibling a "
               "prefix of the row taken, last directory name with its only '/' at its end) resolves to that directory's table; "
               "multi-'/' directory names such as `a/b/` are not found by their own address `a/b/` in the unchanged code "
               "(Ports::apropos tests strchr(path,'/')[1]; dir_multi_slash_counterexample) and are left unconstrained, as are "
               "directory addresses written without the trailing '/'",
               "non-empty metadata blocks end with the first double NUL (what the rtosc macros produce)",
               "max_args >= 2 * (matching children) + 2 * reply_with_query and max_types = max_args + 1 as documented",
               "std::sort is modelled by its contract (any permutation sorted by the comparator)",
               "path lengths and message sizes below 2^31 (int consuming, unsigned pos)",
               "'an address that a port-tree walk reported': `walk` (RtoscModel/Path/Apropos.lean) / `walkE` (Path/Enum.lean) are this "
               "property's own short specifications of the addresses walk_ports reports; walked_is_enumerate(_literal) proves "
               "them equal (same addresses, same ports, same order) to C09's enumeration specification `enumerate` "
               "(RtoscModel/Walk/Spec.lean) on every tree of C09's well-formed names with at most one '#' per name, and "
               "apropos_of_enumerated states the lookup clause directly for the calls `enumerate` lists; that the compiled "
               "walk_ports reports exactly `enumerate` is C09's subject (names with several '#': C09-K1, outside this clause)"]
TRUSTED = ["hand-written models RtoscModel/Path/{Collapse,Apropos,Search}.lean of collapsePath / parent_path_p / read_path / "
           "move_path, Ports::operator[], Ports::apropos, rtosc_match_path for patterns of literal characters and '#N' "
           "(with rtosc_match_number; atoi below 2^31), both path_search overloads, and rtosc_amessage restricted to "
           "'s'/'b' arguments",
           "specification of the walked addresses (`walk`, `walkE`) written for this property; proved equal to C09's "
           "specification `enumerate` (walked_is_enumerate), whose tie to the code is C09's",
           "contract of std::sort"]
LEVEL_TEXT = ("Lean theorems hold for all paths, trees and queries of any size: collapse_eq_spec, collapse_in_place (collapsing); "
              "apropos_of_walked (lookup of every walked address, trees of literal names) and apropos_of_walked_enum (the same for "
              "trees with enumerated rows `name#N`, `name#N/`, `pre#N post` at any level, every expanded address, by induction "
              "over the tree); search_children, search_sorted, "
              "search_unique_prefix (the children, their order, and each blob = exactly the metadata block, length field "
              "included), search_reply_wf (well-formed reply), search_location_dir (a directory address selects that directory's rows). "
              "For enumerated rows the hypothesis 'no sibling's name is a prefix of another's' has to be read on the names a "
              "row's pattern accepts (index with leading zeros), with N >= 1 and no atoi overflow (TreeNumOK): with the reading "
              "'expanded names' alone the clause is false of the model and of the code (apropos_of_walked_enum_counterexample: "
              "next to `a#5x` the walked address `a00x` of a literal sibling resolves to `a#5x`; "
              "apropos_of_walked_enum_statement_false); for names whose literal digit runs are numbers printed without leading "
              "zeros and whose '#' does not follow a digit the plain reading suffices (apropos_of_walked_enum_canon). "
              "walked_is_enumerate: the walked addresses of these theorems are exactly the calls of C09's enumeration "
              "specification (apropos_of_enumerated states the clause for them). The models the theorems are about "
              "are compared with the compiled implementation (ASan/UBSan, exact-size allocations) on thousands of generated "
              "cases per run, and an independent Python reference of the specification is evaluated on the implementation's output")
LEVEL_NOTE = ("Trusted: Lean kernel; the hand-written model is tied to the code by differential execution only; see evidence "
              "trusted_base. In the search theorems 'the addressed port' is the port the model of Ports::apropos returns for the "
              "location; search_location_dir ties a directory address to the rows of that directory for literal single-'/' "
              "directory names, apropos_of_walked does it for leaf addresses; other locations are unconstrained. Outputs for addresses/locations "
              "the property does not constrain are not compared (only memory safety); an empty blob is compared by its length, "
              "not by its data pointer. The Python oracle's `unambiguous` compares expanded names only (the reading that "
              "apropos_of_walked_enum_counterexample refutes); the generator's name pool has no literal name that an "
              "enumerated sibling's pattern accepts with leading zeros, so the two readings agree on every generated tree. "
              "Names with more than one '#', and '{' / '*' patterns, are outside the lookup theorems.")


def hx(b):
    return b.hex() if b else "-"


def unhx(s):
    return b"" if s == "-" else bytes.fromhex(s)


# ------------------------------------------------------------------ collapse
def collapse_spec(path):
    """stack-based cancellation on an absolute path (bytes starting with '/')"""
    comps = path[1:].split(b"/")
    st = []
    for c in comps:
        if c == b"..":
            if st:
                st.pop()
        else:
            st.append(c)
    return b"".join(b"/" + c for c in st)


LONG_LENS = [15, 16, 17, 31, 32, 33, 63, 64, 65, 127, 128, 129, 255, 256, 257, 300]
COMPS = [b"a", b"bc", b"foo", b".", b"...", b"..x", b"x..", b"", b"..", b"..", b".."]


def gen_collapse(rng, tier, stats):
    st = stats.setdefault("collapse", {"exhaustive_masks": 0, "random": 0, "relative": 0, "with_trailing_slash": 0,
                                       "ncomp_hist": {}, "dotdot_hist": {}})
    # every subset of '..' positions for 1..8 components
    for n in range(1, 9):
        for mask in range(1 << n):
            comps = [b".." if mask >> i & 1 else b"c%d" % i for i in range(n)]
            for trail in (b"", b"/"):
                p = b"".join(b"/" + c for c in comps) + trail
                st["exhaustive_masks"] += 1
                yield "C " + hx(p + b"\0")
    nrand = 1500 if tier == "quick" else 60000
    for _ in range(nrand):
        n = rng.randint(1, 8)
        comps = [rng.choice(COMPS) for _ in range(n)]
        r = rng.random()
        if r < 0.08:
            p = b"/".join(comps)                      # relative path: model only
            st["relative"] += 1
        else:
            p = b"".join(b"/" + c for c in comps)
            if rng.random() < 0.3:
                p += b"/"
                st["with_trailing_slash"] += 1
            st["random"] += 1
        st["ncomp_hist"][str(n)] = st["ncomp_hist"].get(str(n), 0) + 1
        k = sum(1 for c in comps if c == b"..")
        st["dotdot_hist"][str(k)] = st["dotdot_hist"].get(str(k), 0) + 1
        tail = rng.choice([b"", b"", b"zz", b"/..\0"])
        yield "C " + hx(p + b"\0" + tail)
    # deep and long paths: 9..64 components of 1..300 bytes (nothing in the statement bounds either)
    st.setdefault("deep", 0)
    st.setdefault("deep_max_kept", 0)
    st.setdefault("complen_max", 0)

    def comp(i):
        r = rng.random()
        n = rng.randint(1, 3) if r < 0.7 else rng.choice(LONG_LENS) if r < 0.9 else rng.randint(4, 300)
        st["complen_max"] = max(st["complen_max"], n)
        return (b"%d" % i + b"q" * n)[:n] if rng.random() < 0.8 else bytes(rng.choice(b"ab.-") for _ in range(n))

    def emit(comps, trail=b""):
        k = d = 0
        for c in comps:
            d = max(0, d - 1) if c == b".." else d + 1
            k = max(k, d)
        st["deep"] += 1
        st["deep_max_kept"] = max(st["deep_max_kept"], k)
        st["ncomp_hist"][str(len(comps))] = st["ncomp_hist"].get(str(len(comps)), 0) + 1
        return "C " + hx(b"".join(b"/" + c for c in comps) + trail + b"\0")
    # n ordinary components, then k of them cancelled again, then one more
    for n in (9, 15, 16, 17, 18, 31, 32, 33, 63, 64):
        for k in sorted({0, 1, n // 2, n - 1, n, n + 1}):
            comps = [comp(i) for i in range(n)] + [b".."] * k + [b"z"]
            if comps.count(b"..") == k:
                yield emit(comps, rng.choice([b"", b"/"]))
    for _ in range(150 if tier == "quick" else 6000):
        n = rng.randint(9, 64)
        pdd = rng.choice([0.1, 0.25, 0.45])
        comps = [b".." if rng.random() < pdd else comp(i) for i in range(n)]
        yield emit(comps, rng.choice([b"", b"", b"/"]))


def oracle_collapse(w, out):
    mem = unhx(w[1])
    path = mem[:mem.index(0)]
    if not path.startswith(b"/"):
        return None
    exp = collapse_spec(path)
    want = "C %d %s" % (len(path) - len(exp), hx(exp))
    return None if out == want else "collapse: expected `%s`" % want


# ------------------------------------------------------------------ trees
class Port:
    __slots__ = ("name", "meta", "sub")

    def __init__(self, name, meta, sub):
        self.name, self.meta, self.sub = name, meta, sub


def lit(name):
    return name.split(b":")[0]


def show_tree(ports):
    return "[" + ",".join("%s;%s;%s" % (hx(p.name), "N" if p.meta is None else hx(p.meta),
                                         "0" if p.sub is None else show_tree(p.sub)) for p in ports) + "]"


def parse_tree(s):
    def ports(i):
        assert s[i] == "["
        i += 1
        out = []
        if s[i] == "]":
            return out, i + 1
        while True:
            j = s.index(";", i)
            name = unhx(s[i:j])
            i = j + 1
            j = s.index(";", i)
            meta = None if s[i:j] == "N" else unhx(s[i:j])
            i = j + 1
            if s[i] == "0":
                sub = None
                i += 1
            else:
                sub, i = ports(i)
            out.append(Port(name, meta, sub))
            if s[i] == ",":
                i += 1
                continue
            assert s[i] == "]"
            return out, i + 1
    t, i = ports(0)
    assert i == len(s)
    return t


def ser_meta(entries, colon=True):
    out = b""
    for k, v in entries:
        out += b":" + k + b"\0"
        if v is not None:
            out += b"=" + v + b"\0"
    out += b"\0"
    return out if colon else out[1:]


def rand_meta(rng, stats):
    r = rng.random()
    if r < 0.15:
        stats["meta_null"] = stats.get("meta_null", 0) + 1
        return None
    if r < 0.25:
        stats["meta_empty"] = stats.get("meta_empty", 0) + 1
        return b"\0"
    # a block of a chosen total length: 3..30 mostly, and long ones (documentation strings run to kilobytes)
    r = rng.random()
    want = (rng.randint(3, 30) if r < 0.88 else rng.randint(31, 70) if r < 0.93 else rng.randint(250, 270) if r < 0.97
            else rng.choice([511, 512, 513, 1000, 1023, 1024, 1025, 5000]))
    colon = rng.random() < 0.75
    entries = []
    while True:
        k = bytes(rng.choice(b"abk") for _ in range(rng.randint(1, 3)))
        vmax = 6 if want <= 30 else max(6, want // 3)
        v = None if rng.random() < 0.3 else bytes(rng.choice(b"vw:= 1") for _ in range(rng.randint(0 if want <= 30 else vmax // 2, vmax)))
        entries.append((k, v))
        b = ser_meta(entries, colon)
        if len(b) >= want:
            break
    # trim to the wanted length by shortening the last key/value when possible
    if len(b) > want and len(entries) == 1:
        k, v = entries[0]
        over = len(b) - want
        if v is not None and len(v) >= over:
            entries[0] = (k, v[:len(v) - over])
            b = ser_meta(entries, colon)
    h = stats.setdefault("meta_len_hist", {})
    key = str(len(b)) if len(b) <= 30 else "31-70" if len(b) <= 70 else "71-249" if len(b) < 250 else "250-300" if len(b) <= 300 else ">300"
    h[key] = h.get(key, 0) + 1
    stats["meta_len_max"] = max(stats.get("meta_len_max", 0), len(b))
    if not colon:
        stats["meta_no_colon"] = stats.get("meta_no_colon", 0) + 1
    return b


NAME_PARTS = [b"a", b"b", b"ab", b"abc", b"ba", b"x", b"a/b", b"b/a", b"a/x", b"c1", b"-p", b"a.b",
              # enumerated ports (`name#N`: one port standing for name0 .. name<N-1>), digits in literal names
              b"p#3", b"x#12", b"a/b#2", b"v#2b", b"e#1", b"q#10/r", b"a1", b"a2", b"a10", b"a01"]
ARGS = [b"", b"", b":i", b":s:", b"::f", b":"]


def rand_tree(rng, depth, messy, stats, top=True):
    n = rng.randint(1 if not top else 2, 5)
    ports = []
    used = []
    tries = 0
    while len(ports) < n and tries < 60:
        tries += 1
        base = rng.choice(NAME_PARTS)
        issub = depth > 0 and rng.random() < 0.4
        slash = issub or rng.random() < 0.15
        l = base + (b"/" if slash else b"")
        if messy and used and rng.random() < 0.35:
            o = rng.choice(used)                      # duplicate, or a name extending another one
            l = o if rng.random() < 0.5 else o + rng.choice([b"x", b"b/", b"a"])
            if issub and not l.endswith(b"/"):
                l += b"/"
        if not messy and any(a.startswith(b) or b.startswith(a) for u in used for a in expand(u) for b in expand(l)):
            continue
        used.append(l)
        name = l + rng.choice(ARGS)
        sub = rand_tree(rng, depth - 1, messy, stats, False) if issub else None
        if issub and messy and rng.random() < 0.05:
            sub = []
        ports.append(Port(name, rand_meta(rng, stats), sub))
    return ports


def expand(l):
    """the literal names an enumerated name `pre#N post` stands for (walk_ports: pre0 post .. pre<N-1> post); a
    name without '#' stands for itself"""
    h = l.find(b"#")
    if h < 0:
        return [l]
    j = h + 1
    while j < len(l) and l[j:j + 1].isdigit():
        j += 1
    if j == h + 1:
        return [l]
    return [l[:h] + b"%d" % k + t for k in range(int(l[h + 1:j])) for t in expand(l[j:])]


def leaves(ports, prefix=b"", ix=()):
    """(relative address, index path) of every port the walk reports"""
    for i, p in enumerate(ports):
        if p.sub is not None:
            for pre in expand(lit(p.name)):
                if not pre.endswith(b"/"):
                    pre += b"/"
                yield from leaves(p.sub, prefix + pre, ix + (i,))
        else:
            for a in expand(lit(p.name)):
                yield prefix + a, ix + (i,)


def subtrees(ports, prefix=b"", ix=()):
    for i, p in enumerate(ports):
        if p.sub is not None:
            for pre in expand(lit(p.name)):
                if not pre.endswith(b"/"):
                    pre += b"/"
                yield prefix + pre, ix + (i,)
                yield from subtrees(p.sub, prefix + pre, ix + (i,))


def port_at(ports, ix):
    p = None
    for i in ix:
        p = ports[i]
        ports = p.sub if p.sub is not None else []
    return p


def unambiguous(ports, ix):
    """the hypothesis of apropos_of_walked along the index path"""
    for depth, i in enumerate(ix):
        me = lit(ports[i].name)
        if not me or me.startswith(b"/"):
            return False
        mine = expand(me)
        for j, q in enumerate(ports):
            if j != i:
                for o in expand(lit(q.name)):
                    if any(o.startswith(m) or m.startswith(o) for m in mine):
                        return False
        if depth + 1 < len(ix):
            if ports[i].sub is None or not me.endswith(b"/"):
                return False
            ports = ports[i].sub
    return True


def has_hash(ports):
    return any(b"#" in lit(p.name) or (p.sub is not None and has_hash(p.sub)) for p in ports)


def count_ports(ports):
    return sum(1 + (count_ports(p.sub) if p.sub is not None else 0) for p in ports)


def ixs(ix):
    return ".".join(str(i) for i in ix)


def gen_lookup(rng, tier, stats):
    st = stats.setdefault("lookup", {"trees": 0, "messy_trees": 0, "walked": 0, "walked_unambiguous": 0, "other_paths": 0,
                                     "index_ops": 0, "depth_hist": {}})
    ntrees = 250 if tier == "quick" else 8000
    for _ in range(ntrees):
        messy = rng.random() < 0.5
        depth = rng.randint(0, 3)
        tree = rand_tree(rng, depth, messy, st)
        ts = show_tree(tree)
        st["trees"] += 1
        st["messy_trees"] += messy
        st["depth_hist"][str(depth)] = st["depth_hist"].get(str(depth), 0) + 1
        lv = list(leaves(tree))
        st["hash_trees"] = st.get("hash_trees", 0) + has_hash(tree)
        if len(lv) > 16:                                # enumerated ports multiply the addresses: keep a sample
            keep = set(rng.sample(range(len(lv)), 16))
            lv = [x for k, x in enumerate(lv) if k in keep]
        for a, ix in lv:
            ok = unambiguous(tree, ix)
            st["walked"] += 1
            st["walked_unambiguous"] += ok
            e = "E=" + ixs(ix) if ok else "E=?"
            yield "A %s %s %s" % (ts, hx((b"/" if rng.random() < 0.7 else b"") + a), e)
        for a, ix in list(subtrees(tree))[:4]:
            p = port_at(tree, ix)
            single = lit(p.name).count(b"/") == 1 and lit(p.name).endswith(b"/")
            e = "E=" + ixs(ix) if unambiguous(tree, ix) and single else "E=?"
            yield "A %s %s %s" % (ts, hx(b"/" + a), e)
            yield "A %s %s E=?" % (ts, hx(b"/" + a[:-1]))
        for _ in range(3):
            if lv:
                a, ix = rng.choice(lv)
                c = rng.randint(0, 5)
                if c == 5:
                    # an index at or behind the end of an enumerated port, or with a leading zero
                    d = [k for k in range(len(a)) if a[k:k + 1].isdigit()]
                    if d:
                        k = rng.choice(d)
                        a = a[:k] + rng.choice([b"0" + a[k:k + 1], b"3", b"12", b"13", b"99", b"4294967296"]) + a[k + 1:]
                elif c == 0:
                    a = a[:rng.randint(0, len(a))]
                elif c == 1:
                    a = a + rng.choice([b"x", b"/", b"/a", b":i"])
                elif c == 2:
                    a = a + b"/"
                elif c == 3:
                    a = b"/" + a
                else:
                    a = bytes(rng.choice(b"ab/x") for _ in range(rng.randint(0, 5)))
                st["other_paths"] += 1
                yield "A %s %s E=?" % (ts, hx((b"/" if rng.random() < 0.5 else b"") + a))
        for _ in range(2):
            p = rng.choice(tree)
            key = rng.choice([lit(p.name), p.name, lit(p.name)[:-1], lit(p.name) + b":", b"self:", b""])
            st["index_ops"] += 1
            yield "I %s %s" % (ts, hx(key))


def oracle_lookup(w, out):
    if w[0] == "I":
        tree = parse_tree(w[1])
        key = unhx(w[2])
        exp = "NULL"
        for i, p in enumerate(tree):
            if p.name == key or p.name.startswith(key + b":"):
                exp = str(i)
                break
        return None if out == "I " + exp else "operator[]: expected `I %s`" % exp
    e = w[3][2:] if len(w) > 3 and w[3].startswith("E=") else "?"
    if e == "?":
        return "lookup crashed: " + out if out.startswith("crash") else None
    return None if out == "A " + e else "apropos: the walked address must give the port it was reported with: expected `A %s`" % e


# ------------------------------------------------------------------ search
def pad_str(s):
    return s + b"\0" * (4 - len(s) % 4)


def pad_blob(s):
    return s + b"\0" * ((4 - len(s) % 4) % 4)


def encode(addr, items):
    """items: list of ('s', bytes) / ('b', bytes)"""
    out = pad_str(addr) + pad_str(b"," + "".join(t for t, _ in items).encode())
    for t, v in items:
        out += pad_str(v) if t == "s" else len(v).to_bytes(4, "big") + pad_blob(v)
    return out


def meta_bytes(p):
    return b"" if (p.meta is None or p.meta[:1] == b"\0") else p.meta


def search_spec(rows, needle, opt):
    """[(name, port)] per the statement: direct children whose names start with the prefix, in table order / string
    order / string order without the names below a returned 'name/' entry"""
    found = [p for p in rows if p.name.startswith(needle)]
    if opt == 0:
        return found
    found = sorted(found, key=lambda p: p.name)          # stable; runs of equal names are canonicalised below
    if opt == 2:
        names = [p.name for p in found]
        found = [p for p in found
                 if not any(d.endswith(b"/") and len(d) < len(p.name) and p.name.startswith(d) for d in names)]
    return found


def canon_pairs(pairs, do):
    if not do:
        return pairs
    out = []
    i = 0
    while i < len(pairs):
        j = i
        while j < len(pairs) and pairs[j][0] == pairs[i][0]:
            j += 1
        bl = sorted(b for _, b in pairs[i:j])
        out += [(pairs[i][0], b) for b in bl]
        i = j
    return out


def expected_search(rows, s, needle, opt, query, bufsize):
    found = search_spec(rows, needle or b"", opt)
    n = needle or b""
    q = ["s:" + hx(s), "s:" + hx(n)] if query else []
    arr = canon_pairs([("s:" + hx(p.name), "b:" + hx(meta_bytes(p))) for p in found], opt != 0)
    types = ("ss" if query else "") + "sb" * len(found)
    a = q + [x for pr in arr for x in pr]
    left = "T=%s A=%s" % (types or "-", ",".join(a) or "-")
    items = ([("s", s), ("s", n)] if query else []) + [x for p in found for x in (("s", p.name), ("b", meta_bytes(p)))]
    msg = encode(b"/paths", items)
    if len(msg) > bufsize:
        right = "M=0"
    else:
        marr = canon_pairs([("s:" + hx(p.name), "b:" + hx(meta_bytes(p))) for p in found], opt != 0)
        ma = q + [x for pr in marr for x in pr]
        names = [p.name for p in found]
        raw = hx(msg) if (opt == 0 or len(set(names)) == len(names)) else "-"
        right = "M=%d D=%s/%s/%s X=%s" % (len(msg), hx(b"/paths"), types or "-", ",".join(ma) or "-", raw)
    return "S %s | %s" % (left, right), len(found), len(msg)


def gen_search(rng, tier, stats):
    st = stats.setdefault("search", {"queries": 0, "root": 0, "subtree": 0, "single_port": 0, "unknown_target": 0,
                                     "opt_hist": {"0": 0, "1": 0, "2": 0}, "with_query": 0, "null_needle": 0,
                                     "exact_max_ports": 0, "buf_exact": 0, "buf_too_small": 0, "found_hist": {},
                                     "dup_name_results": 0, "prefix_filtered": 0})
    ntrees = 220 if tier == "quick" else 8000
    for _ in range(ntrees):
        messy = rng.random() < 0.6
        tree = rand_tree(rng, rng.randint(0, 2), messy, st)
        ts = show_tree(tree)
        total = count_ports(tree)
        targets = [("R", rng.choice([b"", b"/"]), tree, "root")]
        for a, ix in subtrees(tree):
            p = port_at(tree, ix)
            known = unambiguous(tree, ix) and lit(p.name).count(b"/") == 1 and lit(p.name).endswith(b"/")
            targets.append(("E=" + ixs(ix) if known else "E=?", rng.choice([b"/", b""]) + a, p.sub if known else None, "subtree"))
        lv = list(leaves(tree))
        for a, ix in rng.sample(lv, min(2, len(lv))):
            known = unambiguous(tree, ix)
            targets.append(("E=" + ixs(ix) if known else "E=?", b"/" + a, [port_at(tree, ix)] if known else None, "single_port"))
        targets.append(("E=?", rng.choice([b"/nope", b"/a", b"a/b", b"/a/"]), None, "unknown_target"))
        for e, s, rows, kind in targets:
            for _ in range(3 if rows is not None else 1):     # unconstrained locations: memory safety only
                opt = rng.randint(0, 2)
                query = rng.random() < 0.4
                cand = rows if rows else tree
                r = rng.random()
                if r < 0.3 or not cand:
                    needle = b""
                elif r < 0.38:
                    needle = None
                elif r < 0.75:
                    nm = rng.choice(cand).name
                    needle = nm[:rng.randint(1, len(nm))]
                elif r < 0.85:
                    needle = rng.choice(cand).name + b"x"
                else:
                    needle = bytes(rng.choice(b"ab/") for _ in range(rng.randint(1, 3)))
                st["queries"] += 1
                st["opt_hist"][str(opt)] += 1
                st["with_query"] += query
                st["null_needle"] += needle is None
                if rows is None:
                    st["unknown_target"] += 1
                    max_ports, bufsize = total + 2, 8192
                else:
                    st[kind] += 1
                    _, nfound, mlen = expected_search(rows, s, needle, opt, query, 1 << 30)
                    ncoll = len(search_spec(rows, needle or b"", 0))
                    need = max(1, ncoll + (1 if query else 0))
                    if rng.random() < 0.4:
                        max_ports = need
                        st["exact_max_ports"] += 1
                    else:
                        max_ports = need + rng.randint(1, 5)
                    r2 = rng.random()
                    if r2 < 0.25:
                        bufsize = mlen
                        st["buf_exact"] += 1
                    elif r2 < 0.35:
                        bufsize = mlen - rng.choice([1, 4])
                        st["buf_too_small"] += 1
                    else:
                        bufsize = mlen + rng.randint(1, 64)
                    key = str(nfound) if nfound <= 16 else "17-32" if nfound <= 32 else "33-64" if nfound <= 64 else ">64"
                    st["found_hist"][key] = st["found_hist"].get(key, 0) + 1
                    names = [p.name for p in search_spec(rows, needle or b"", 0)]
                    if len(set(names)) < len(names):
                        st["dup_name_results"] += 1
                    if opt == 2 and nfound < ncoll:
                        st["prefix_filtered"] += 1
                yield "S %s %s %s %d %d %d %d %s" % (ts, hx(s), "N" if needle is None else hx(needle), opt, int(query),
                                                     max_ports, bufsize, e)


FLAT_NAMES = [b"a/", b"a/", b"a/b", b"a/b/", b"a/b/c", b"a/bc", b"a", b"ab", b"ab/", b"ab/c", b"b", b"b2", b"c/d/",
              b"c/d/e:", b"a/:", b"a/x:i", b"a0", b"a.", b"a/b/c/d", b"b/", b"b/b", b"B", b"~/", b"~/x", b"~", b"+", b"+/", b"+/-"]


def gen_search_flat(rng, tier, stats):
    """one table, searched at the root: duplicate names, chains of `name/` prefixes, every metadata length"""
    st = stats["search"]
    st.setdefault("flat_tables", 0)
    n = 500 if tier == "quick" else 20000
    for _ in range(n):
        k = rng.randint(1, 9)
        tree = [Port(rng.choice(FLAT_NAMES), rand_meta(rng, st), None) for _ in range(k)]
        ts = show_tree(tree)
        st["flat_tables"] += 1
        for opt in (0, 1, 2):
            query = rng.random() < 0.4
            r = rng.random()
            needle = b"" if r < 0.45 else (None if r < 0.5 else rng.choice([b"a", b"a/", b"a/b", b"b", b"c/", b"ab"]))
            s = rng.choice([b"", b"/"])
            _, nfound, mlen = expected_search(tree, s, needle, opt, query, 1 << 30)
            ncoll = len(search_spec(tree, needle or b"", 0))
            need = max(1, ncoll + (1 if query else 0))
            max_ports = need if rng.random() < 0.5 else need + rng.randint(1, 4)
            r2 = rng.random()
            bufsize = mlen if r2 < 0.3 else (mlen - rng.choice([1, 3, 4]) if r2 < 0.4 else mlen + rng.randint(1, 40))
            st["queries"] += 1
            st["root"] += 1
            st["opt_hist"][str(opt)] += 1
            st["with_query"] += query
            st["null_needle"] += needle is None
            st["found_hist"][str(nfound)] = st["found_hist"].get(str(nfound), 0) + 1
            names = [p.name for p in search_spec(tree, needle or b"", 0)]
            if len(set(names)) < len(names):
                st["dup_name_results"] += 1
            if opt == 2 and nfound < ncoll:
                st["prefix_filtered"] += 1
            yield "S %s %s %s %d %d %d %d R" % (ts, hx(s), "N" if needle is None else hx(needle), opt, int(query),
                                                 max_ports, bufsize)


NUM_NAMES = [b"a1", b"a2", b"a10", b"a01", b"a9", b"a09", b"a/9", b"a/10", b"a/10/", b"a/9/", b"a/1", b"p2/", b"p10/",
             b"p2/x", b"p10/x", b"p#3/", b"p#12/", b"x#2", b"x#10", b"x#2:i", b"a", b"a/", b"a1/", b"a10/", b"a1/b", b"1", b"10", b"9",
             b"09", b"a1:i", b"a2:f", b"a001", b"a1.5", b"a1.10"]


def flat_query(rng, st, tree, opt, needles):
    ts = show_tree(tree)
    query = rng.random() < 0.4
    r = rng.random()
    needle = b"" if r < 0.45 else (None if r < 0.5 else rng.choice(needles))
    s = rng.choice([b"", b"/"])
    _, nfound, mlen = expected_search(tree, s, needle, opt, query, 1 << 30)
    ncoll = len(search_spec(tree, needle or b"", 0))
    need = max(1, ncoll + (1 if query else 0))
    max_ports = need if rng.random() < 0.5 else need + rng.randint(1, 4)
    r2 = rng.random()
    bufsize = mlen if r2 < 0.3 else (mlen - rng.choice([1, 3, 4]) if r2 < 0.4 else mlen + rng.randint(1, 40))
    st["queries"] += 1
    st["root"] += 1
    st["opt_hist"][str(opt)] += 1
    st["with_query"] += query
    st["null_needle"] += needle is None
    key = str(nfound) if nfound <= 16 else "17-32" if nfound <= 32 else "33-64" if nfound <= 64 else ">64"
    st["found_hist"][key] = st["found_hist"].get(key, 0) + 1
    names = [p.name for p in search_spec(tree, needle or b"", 0)]
    if len(set(names)) < len(names):
        st["dup_name_results"] += 1
    if opt == 2 and nfound < ncoll:
        st["prefix_filtered"] += 1
    return "S %s %s %s %d %d %d %d R" % (ts, hx(s), "N" if needle is None else hx(needle), opt, int(query), max_ports, bufsize)


def gen_search_wide(rng, tier, stats):
    """one table searched at the root: (a) names that differ in digits only (string order is not numeric order), (b) tables
    of 17..120 rows (a real table has dozens of rows; sorting more than a handful of rows is a different code path of
    std::sort), with `dir/` entries, entries below them and duplicates spread over the table"""
    st = stats["search"]
    st.setdefault("numeric_tables", 0)
    st.setdefault("wide_tables", 0)
    st.setdefault("wide_rows_max", 0)
    for _ in range(150 if tier == "quick" else 6000):
        k = rng.randint(2, 10)
        tree = [Port(rng.choice(NUM_NAMES), rand_meta(rng, st), None) for _ in range(k)]
        st["numeric_tables"] += 1
        for opt in (1, 2):
            yield flat_query(rng, st, tree, opt, [b"a", b"a1", b"a/", b"p", b"x#", b"1"])
    sizes = [17, 18, 24, 33, 40, 64, 65, 100, 120]
    for t in range(40 if tier == "quick" else 1200):
        k = sizes[t] if t < len(sizes) else rng.randint(17, 120)
        pre = rng.choice([b"", b"", b"n", b"osc"])
        names = []
        while len(names) < k:
            r = rng.random()
            if r < 0.55:
                nm = pre + b"%d" % rng.randint(0, 3 * k)                    # n7, n70, n700: digit runs of varying length
            elif r < 0.7:
                nm = pre + bytes(rng.choice(b"abcxyz_") for _ in range(rng.randint(1, 6)))
            elif r < 0.8:
                nm = pre + bytes(rng.choice(b"abd") for _ in range(rng.randint(1, 2))) + b"/"
            elif r < 0.9 and names:
                d = [n for n in names if n.endswith(b"/")]
                nm = (rng.choice(d) if d else rng.choice(names)) + bytes(rng.choice(b"abd") for _ in range(rng.randint(1, 2)))
            elif names:
                nm = rng.choice(names)                                      # duplicate
            else:
                continue
            names.append(nm)
        rng.shuffle(names)
        tree = [Port(n + (rng.choice(ARGS) if not n.endswith(b"/") or rng.random() < 0.2 else b""),
                     rand_meta(rng, st) if rng.random() < 0.5 else None, None) for n in names]
        st["wide_tables"] += 1
        st["wide_rows_max"] = max(st["wide_rows_max"], k)
        for opt in (0, 1, 2, 2):
            yield flat_query(rng, st, tree, opt, [pre, pre + b"1", pre + b"a", b"zz"])


def oracle_search(w, out):
    e = w[8] if len(w) > 8 else "E=?"
    if e == "E=?":
        return "search crashed: " + out if out.startswith("crash") else None
    tree = parse_tree(w[1])
    s = unhx(w[2])
    needle = None if w[3] == "N" else unhx(w[3])
    opt, query, bufsize = int(w[4]), w[5] == "1", int(w[7])
    if e == "R":
        rows = tree
    else:
        p = port_at(tree, [int(x) for x in e[2:].split(".")])
        rows = p.sub if p.sub is not None else [p]
    want, _, _ = expected_search(rows, s, needle, opt, query, bufsize)
    return None if out == want else "child search: expected `%s`" % want


# ------------------------------------------------------------------ entry points
def generate(rng, tier, stats):
    gens = [gen_collapse(rng, tier, stats), gen_lookup(rng, tier, stats), gen_search(rng, tier, stats),
            gen_search_flat(rng, tier, stats), gen_search_wide(rng, tier, stats)]
    for g in gens:
        for op in g:
            yield op


def nontrivial(op):
    w = op.split()
    if w[0] == "C":
        return "2f2e2e" in w[1]
    if w[0] in ("A", "I"):
        return w[1].count(";") >= 6
    if w[0] == "S":
        return w[1].count(";") >= 4
    return False


def oracle(op, out):
    w = op.split()
    if not w:
        return None
    if out.startswith("crash") and w[0] == "C":
        return "collapsePath crashed: " + out
    if w[0] == "C":
        return oracle_collapse(w, out)
    if w[0] in ("A", "I"):
        return oracle_lookup(w, out)
    if w[0] == "S":
        return oracle_search(w, out)
    return None


def main(argv):
    """vlib.main, except that a build which makes the harness die on more than 200 inputs (vlib gives up with an
    exception) is reported as what it is: a violation, with the first crashing input as replay."""
    import os
    import random
    import shutil
    import sys
    import vlib
    mod = sys.modules[__name__]
    try:
        return vlib.main(mod, argv)
    except RuntimeError as e:
        if "crashes on more than" not in str(e):
            raise
    seed = int(os.environ.get("VERIF_SEED", "1"))
    for i, a in enumerate(argv):
        if a == "--seed" and i + 1 < len(argv):
            seed = int(argv[i + 1])
    exe = vlib.build_harness(ENGINE, HARNESS)
    ops = []
    corpus = os.path.join(vlib.VERIF, "corpus", PROP + ".ops")
    if os.path.exists(corpus):
        ops = [l.strip() for l in open(corpus) if l.strip() and not l.startswith("#")]
    ops += list(generate(random.Random(seed * 1000003 + 17), "quick", {}))
    wd = os.path.join(vlib.BUILD, "run-%s-crash-%d" % (PROP, os.getpid()))
    os.makedirs(wd, exist_ok=True)
    try:
        for k in range(0, len(ops), 150):
            chunk = ops[k:k + 150]
            outs = vlib.run_harness(exe, chunk, wd, "crash")
            for op, out in zip(chunk, outs):
                f = oracle(op, out)
                if f is not None:
                    try:
                        model = vlib.run_driver(ENGINE, [op], wd, "crash")[0]
                    except Exception:
                        model = None
                    path = vlib.write_replay(PROP, "input", {"property": PROP, "kind": "failing-input", "ops": [op], "impl": out,
                                                             "model": model, "failure": f, "seed": seed,
                                                             "note": "the harness dies on more than 200 generated inputs"})
                    print("VIOLATION property=%s replay=%s" % (PROP, path))
                    return 1
    finally:
        shutil.rmtree(wd, ignore_errors=True)
    path = vlib.write_replay(PROP, "nofail", {"property": PROP, "kind": "no-failing-input-found", "seed": seed,
                                              "note": "the harness dies on more than 200 generated inputs"})
    print("VIOLATION property=%s replay=%s no-failing-input-found" % (PROP, path))
    return 1
