"""C18 — Path utilities: '..' collapsing, lookup by address, child search."""
import itertools

PROP = "C18"
ENGINE = "path"
LEAN_MODULES = ["RtoscModel.Props.C18"]
THEOREMS = ["Rtosc.Path.collapse_eq_spec", "Rtosc.Path.collapse_in_place",
            "Rtosc.Path.apropos_of_walked", "Rtosc.Path.apropos_of_walked_local", "Rtosc.Path.index_spec",
            "Rtosc.Path.search_children", "Rtosc.Path.search_sorted", "Rtosc.Path.search_unique_prefix",
            "Rtosc.Path.search_reply_wf", "Rtosc.Path.sort_result_unique"]
HARNESS = {"src": ["path.cpp"]}
RULE = ("collapse: every absolute path of 1..8 distinct components with '..' at every subset of positions, with and "
        "without trailing '/', plus random paths over the components a bc foo . ... ..x x.. <empty> .. (and a small "
        "stream of relative paths, compared with the model only); lookup: random port trees (depth <= 3, <= 5 rows per "
        "table, literal names over a b / with optional :args, duplicate names and common prefixes in the 'messy' half), "
        "every walked address with and without leading '/', plus truncated/extended addresses (model only); search: "
        "the same trees with metadata blocks of every length 3..30 (with and without leading ':'), NULL and empty "
        "metadata, all three options, both reply_with_query values, prefix = empty / NULL / a prefix of a child name / "
        "a whole name / a non-matching string, exact and ample max_ports, exact / too small / ample reply buffers. "
        "non-trivial: collapse with at least one '..'; lookup in a tree with >= 3 ports; search over >= 2 rows. "
        "distinct = distinct op line")
ASSUMPTIONS = ["port names are literal (no { * #), NUL-free and non-empty; a port with a sub-table has a name ending in '/'",
               "generated port names use bytes 1..126 only: Ports::refreshMagic (find_assoc/do_hash, C04's hashing) indexes a "
               "127-entry table with the name's char, so other bytes are undefined behaviour before any C18 function runs",
               "lookup of a walked address: no other row of a table on the way is a prefix of, or prefixed by, the row taken "
               "(names compared up to ':')",
               "non-empty metadata blocks end with the first double NUL (what the rtosc macros produce)",
               "max_args >= 2 * (matching children) + 2 * reply_with_query and max_types = max_args + 1 as documented",
               "std::sort is modelled by its contract (any permutation sorted by the comparator)",
               "path lengths and message sizes below 2^31 (int consuming, unsigned pos)"]
TRUSTED = ["hand-written models RtoscModel/Path/{Collapse,Apropos,Search}.lean of collapsePath / parent_path_p / read_path / "
           "move_path, Ports::operator[], Ports::apropos, the literal-pattern fragment of rtosc_match_path, both "
           "path_search overloads, and rtosc_amessage restricted to 's'/'b' arguments",
           "contract of std::sort"]
LEVEL_TEXT = ("Lean theorems (collapse_eq_spec, collapse_in_place, apropos_of_walked, search_children, search_sorted, "
              "search_unique_prefix, search_reply_wf) hold for all paths, trees and queries of any size; the models they are "
              "about are compared with the compiled implementation (ASan/UBSan, exact-size allocations) on thousands of generated "
              "cases per run, and an independent Python reference of the specification is evaluated on the implementation's output")


def hx(b):
    return b.hex() if b else "-"


def unhx(s):
    return b"" if s == "-" else bytes.fromhex(s)


# ------------------------------------------------------------------ collapse
def collapse_spec(path):
    """stack-based cancellation on an absolute path (bytes starting with '/')"""
    comps = path[1:].split(b"/")
    st = []
    for c in comps:
        if c == b"..":
            if st:
                st.pop()
        else:
            st.append(c)
    return b"".join(b"/" + c for c in st)


COMPS = [b"a", b"bc", b"foo", b".", b"...", b"..x", b"x..", b"", b"..", b"..", b".."]


def gen_collapse(rng, tier, stats):
    st = stats.setdefault("collapse", {"exhaustive_masks": 0, "random": 0, "relative": 0, "with_trailing_slash": 0,
                                       "ncomp_hist": {}, "dotdot_hist": {}})
    # every subset of '..' positions for 1..8 components
    for n in range(1, 9):
        for mask in range(1 << n):
            comps = [b".." if mask >> i & 1 else b"c%d" % i for i in range(n)]
            for trail in (b"", b"/"):
                p = b"".join(b"/" + c for c in comps) + trail
                st["exhaustive_masks"] += 1
                yield "C " + hx(p + b"\0")
    nrand = 1500 if tier == "quick" else 60000
    for _ in range(nrand):
        n = rng.randint(1, 8)
        comps = [rng.choice(COMPS) for _ in range(n)]
        r = rng.random()
        if r < 0.08:
            p = b"/".join(comps)                      # relative path: model only
            st["relative"] += 1
        else:
            p = b"".join(b"/" + c for c in comps)
            if rng.random() < 0.3:
                p += b"/"
                st["with_trailing_slash"] += 1
            st["random"] += 1
        st["ncomp_hist"][str(n)] = st["ncomp_hist"].get(str(n), 0) + 1
        k = sum(1 for c in comps if c == b"..")
        st["dotdot_hist"][str(k)] = st["dotdot_hist"].get(str(k), 0) + 1
        tail = rng.choice([b"", b"", b"zz", b"/..\0"])
        yield "C " + hx(p + b"\0" + tail)


def oracle_collapse(w, out):
    mem = unhx(w[1])
    path = mem[:mem.index(0)]
    if not path.startswith(b"/"):
        return None
    exp = collapse_spec(path)
    want = "C %d %s" % (len(path) - len(exp), hx(exp))
    return None if out == want else "collapse: expected `%s`" % want


# ------------------------------------------------------------------ trees
class Port:
    __slots__ = ("name", "meta", "sub")

    def __init__(self, name, meta, sub):
        self.name, self.meta, self.sub = name, meta, sub


def lit(name):
    return name.split(b":")[0]


def show_tree(ports):
    return "[" + ",".join("%s;%s;%s" % (hx(p.name), "N" if p.meta is None else hx(p.meta),
                                         "0" if p.sub is None else show_tree(p.sub)) for p in ports) + "]"


def parse_tree(s):
    def ports(i):
        assert s[i] == "["
        i += 1
        out = []
        if s[i] == "]":
            return out, i + 1
        while True:
            j = s.index(";", i)
            name = unhx(s[i:j])
            i = j + 1
            j = s.index(";", i)
            meta = None if s[i:j] == "N" else unhx(s[i:j])
            i = j + 1
            if s[i] == "0":
                sub = None
                i += 1
            else:
                sub, i = ports(i)
            out.append(Port(name, meta, sub))
            if s[i] == ",":
                i += 1
                continue
            assert s[i] == "]"
            return out, i + 1
    t, i = ports(0)
    assert i == len(s)
    return t


def ser_meta(entries, colon=True):
    out = b""
    for k, v in entries:
        out += b":" + k + b"\0"
        if v is not None:
            out += b"=" + v + b"\0"
    out += b"\0"
    return out if colon else out[1:]


def rand_meta(rng, stats):
    r = rng.random()
    if r < 0.15:
        stats["meta_null"] = stats.get("meta_null", 0) + 1
        return None
    if r < 0.25:
        stats["meta_empty"] = stats.get("meta_empty", 0) + 1
        return b"\0"
    # a block of a chosen total length 3..30
    want = rng.randint(3, 30)
    colon = rng.random() < 0.75
    entries = []
    while True:
        k = bytes(rng.choice(b"abk") for _ in range(rng.randint(1, 3)))
        v = None if rng.random() < 0.3 else bytes(rng.choice(b"vw:= 1") for _ in range(rng.randint(0, 6)))
        entries.append((k, v))
        b = ser_meta(entries, colon)
        if len(b) >= want:
            break
    # trim to the wanted length by shortening the last key/value when possible
    if len(b) > want and len(entries) == 1:
        k, v = entries[0]
        over = len(b) - want
        if v is not None and len(v) >= over:
            entries[0] = (k, v[:len(v) - over])
            b = ser_meta(entries, colon)
    h = stats.setdefault("meta_len_hist", {})
    h[str(len(b))] = h.get(str(len(b)), 0) + 1
    if not colon:
        stats["meta_no_colon"] = stats.get("meta_no_colon", 0) + 1
    return b


NAME_PARTS = [b"a", b"b", b"ab", b"abc", b"ba", b"x", b"a/b", b"b/a", b"a/x", b"c1", b"-p", b"a.b"]
ARGS = [b"", b"", b":i", b":s:", b"::f", b":"]


def rand_tree(rng, depth, messy, stats, top=True):
    n = rng.randint(1 if not top else 2, 5)
    ports = []
    used = []
    tries = 0
    while len(ports) < n and tries < 60:
        tries += 1
        base = rng.choice(NAME_PARTS)
        issub = depth > 0 and rng.random() < 0.4
        slash = issub or rng.random() < 0.15
        l = base + (b"/" if slash else b"")
        if messy and used and rng.random() < 0.35:
            o = rng.choice(used)                      # duplicate, or a name extending another one
            l = o if rng.random() < 0.5 else o + rng.choice([b"x", b"b/", b"a"])
            if issub and not l.endswith(b"/"):
                l += b"/"
        if not messy and any(u.startswith(l) or l.startswith(u) for u in used):
            continue
        used.append(l)
        name = l + rng.choice(ARGS)
        sub = rand_tree(rng, depth - 1, messy, stats, False) if issub else None
        if issub and messy and rng.random() < 0.05:
            sub = []
        ports.append(Port(name, rand_meta(rng, stats), sub))
    return ports


def leaves(ports, prefix=b"", ix=()):
    """(relative address, index path) of every port the walk reports"""
    for i, p in enumerate(ports):
        if p.sub is not None:
            pre = lit(p.name)
            if not pre.endswith(b"/"):
                pre += b"/"
            yield from leaves(p.sub, prefix + pre, ix + (i,))
        else:
            yield prefix + lit(p.name), ix + (i,)


def subtrees(ports, prefix=b"", ix=()):
    for i, p in enumerate(ports):
        if p.sub is not None:
            pre = lit(p.name)
            if not pre.endswith(b"/"):
                pre += b"/"
            yield prefix + pre, ix + (i,)
            yield from subtrees(p.sub, prefix + pre, ix + (i,))


def port_at(ports, ix):
    p = None
    for i in ix:
        p = ports[i]
        ports = p.sub if p.sub is not None else []
    return p


def unambiguous(ports, ix):
    """the hypothesis of apropos_of_walked along the index path"""
    for depth, i in enumerate(ix):
        me = lit(ports[i].name)
        if not me or me.startswith(b"/"):
            return False
        for j, q in enumerate(ports):
            if j != i:
                o = lit(q.name)
                if o.startswith(me) or me.startswith(o):
                    return False
        if depth + 1 < len(ix):
            if ports[i].sub is None or not me.endswith(b"/"):
                return False
            ports = ports[i].sub
    return True


def count_ports(ports):
    return sum(1 + (count_ports(p.sub) if p.sub is not None else 0) for p in ports)


def ixs(ix):
    return ".".join(str(i) for i in ix)


def gen_lookup(rng, tier, stats):
    st = stats.setdefault("lookup", {"trees": 0, "messy_trees": 0, "walked": 0, "walked_unambiguous": 0, "other_paths": 0,
                                     "index_ops": 0, "depth_hist": {}})
    ntrees = 250 if tier == "quick" else 8000
    for _ in range(ntrees):
        messy = rng.random() < 0.5
        depth = rng.randint(0, 3)
        tree = rand_tree(rng, depth, messy, st)
        ts = show_tree(tree)
        st["trees"] += 1
        st["messy_trees"] += messy
        st["depth_hist"][str(depth)] = st["depth_hist"].get(str(depth), 0) + 1
        lv = list(leaves(tree))
        for a, ix in lv:
            ok = unambiguous(tree, ix)
            st["walked"] += 1
            st["walked_unambiguous"] += ok
            e = "E=" + ixs(ix) if ok else "E=?"
            yield "A %s %s %s" % (ts, hx((b"/" if rng.random() < 0.7 else b"") + a), e)
        for a, ix in list(subtrees(tree))[:4]:
            p = port_at(tree, ix)
            single = lit(p.name).count(b"/") == 1 and lit(p.name).endswith(b"/")
            e = "E=" + ixs(ix) if unambiguous(tree, ix) and single else "E=?"
            yield "A %s %s %s" % (ts, hx(b"/" + a), e)
            yield "A %s %s E=?" % (ts, hx(b"/" + a[:-1]))
        for _ in range(3):
            if lv:
                a, ix = rng.choice(lv)
                c = rng.randint(0, 4)
                if c == 0:
                    a = a[:rng.randint(0, len(a))]
                elif c == 1:
                    a = a + rng.choice([b"x", b"/", b"/a", b":i"])
                elif c == 2:
                    a = a + b"/"
                elif c == 3:
                    a = b"/" + a
                else:
                    a = bytes(rng.choice(b"ab/x") for _ in range(rng.randint(0, 5)))
                st["other_paths"] += 1
                yield "A %s %s E=?" % (ts, hx((b"/" if rng.random() < 0.5 else b"") + a))
        for _ in range(2):
            p = rng.choice(tree)
            key = rng.choice([lit(p.name), p.name, lit(p.name)[:-1], lit(p.name) + b":", b"self:", b""])
            st["index_ops"] += 1
            yield "I %s %s" % (ts, hx(key))


def oracle_lookup(w, out):
    if w[0] == "I":
        tree = parse_tree(w[1])
        key = unhx(w[2])
        exp = "NULL"
        for i, p in enumerate(tree):
            if p.name == key or p.name.startswith(key + b":"):
                exp = str(i)
                break
        return None if out == "I " + exp else "operator[]: expected `I %s`" % exp
    e = w[3][2:] if len(w) > 3 and w[3].startswith("E=") else "?"
    if e == "?":
        return "lookup crashed: " + out if out.startswith("crash") else None
    return None if out == "A " + e else "apropos: the walked address must give the port it was reported with: expected `A %s`" % e


# ------------------------------------------------------------------ search
def pad_str(s):
    return s + b"\0" * (4 - len(s) % 4)


def pad_blob(s):
    return s + b"\0" * ((4 - len(s) % 4) % 4)


def encode(addr, items):
    """items: list of ('s', bytes) / ('b', bytes)"""
    out = pad_str(addr) + pad_str(b"," + "".join(t for t, _ in items).encode())
    for t, v in items:
        out += pad_str(v) if t == "s" else len(v).to_bytes(4, "big") + pad_blob(v)
    return out


def meta_bytes(p):
    return b"" if (p.meta is None or p.meta[:1] == b"\0") else p.meta


def search_spec(rows, needle, opt):
    """[(name, port)] per the statement: direct children whose names start with the prefix, in table order / string
    order / string order without the names below a returned 'name/' entry"""
    found = [p for p in rows if p.name.startswith(needle)]
    if opt == 0:
        return found
    found = sorted(found, key=lambda p: p.name)          # stable; runs of equal names are canonicalised below
    if opt == 2:
        names = [p.name for p in found]
        found = [p for p in found
                 if not any(d.endswith(b"/") and len(d) < len(p.name) and p.name.startswith(d) for d in names)]
    return found


def canon_pairs(pairs, do):
    if not do:
        return pairs
    out = []
    i = 0
    while i < len(pairs):
        j = i
        while j < len(pairs) and pairs[j][0] == pairs[i][0]:
            j += 1
        bl = sorted(b for _, b in pairs[i:j])
        out += [(pairs[i][0], b) for b in bl]
        i = j
    return out


def expected_search(rows, s, needle, opt, query, bufsize):
    found = search_spec(rows, needle or b"", opt)
    n = needle or b""
    q = ["s:" + hx(s), "s:" + hx(n)] if query else []
    arr = canon_pairs([("s:" + hx(p.name), "b:N" if not meta_bytes(p) else "b:" + hx(meta_bytes(p))) for p in found], opt != 0)
    types = ("ss" if query else "") + "sb" * len(found)
    a = q + [x for pr in arr for x in pr]
    left = "T=%s A=%s" % (types or "-", ",".join(a) or "-")
    items = ([("s", s), ("s", n)] if query else []) + [x for p in found for x in (("s", p.name), ("b", meta_bytes(p)))]
    msg = encode(b"/paths", items)
    if len(msg) > bufsize:
        right = "M=0"
    else:
        marr = canon_pairs([("s:" + hx(p.name), "b:" + hx(meta_bytes(p))) for p in found], opt != 0)
        ma = q + [x for pr in marr for x in pr]
        names = [p.name for p in found]
        raw = hx(msg) if (opt == 0 or len(set(names)) == len(names)) else "-"
        right = "M=%d D=%s/%s/%s X=%s" % (len(msg), hx(b"/paths"), types or "-", ",".join(ma) or "-", raw)
    return "S %s | %s" % (left, right), len(found), len(msg)


def gen_search(rng, tier, stats):
    st = stats.setdefault("search", {"queries": 0, "root": 0, "subtree": 0, "single_port": 0, "unknown_target": 0,
                                     "opt_hist": {"0": 0, "1": 0, "2": 0}, "with_query": 0, "null_needle": 0,
                                     "exact_max_ports": 0, "buf_exact": 0, "buf_too_small": 0, "found_hist": {},
                                     "dup_name_results": 0, "prefix_filtered": 0})
    ntrees = 220 if tier == "quick" else 8000
    for _ in range(ntrees):
        messy = rng.random() < 0.6
        tree = rand_tree(rng, rng.randint(0, 2), messy, st)
        ts = show_tree(tree)
        total = count_ports(tree)
        targets = [("R", rng.choice([b"", b"/"]), tree, "root")]
        for a, ix in subtrees(tree):
            p = port_at(tree, ix)
            known = unambiguous(tree, ix) and lit(p.name).count(b"/") == 1 and lit(p.name).endswith(b"/")
            targets.append(("E=" + ixs(ix) if known else "E=?", rng.choice([b"/", b""]) + a, p.sub if known else None, "subtree"))
        lv = list(leaves(tree))
        for a, ix in rng.sample(lv, min(2, len(lv))):
            known = unambiguous(tree, ix)
            targets.append(("E=" + ixs(ix) if known else "E=?", b"/" + a, [port_at(tree, ix)] if known else None, "single_port"))
        targets.append(("E=?", rng.choice([b"/nope", b"/a", b"a/b", b"/a/"]), None, "unknown_target"))
        for e, s, rows, kind in targets:
            for _ in range(3):
                opt = rng.randint(0, 2)
                query = rng.random() < 0.4
                cand = rows if rows else tree
                r = rng.random()
                if r < 0.3 or not cand:
                    needle = b""
                elif r < 0.38:
                    needle = None
                elif r < 0.75:
                    nm = rng.choice(cand).name
                    needle = nm[:rng.randint(1, len(nm))]
                elif r < 0.85:
                    needle = rng.choice(cand).name + b"x"
                else:
                    needle = bytes(rng.choice(b"ab/") for _ in range(rng.randint(1, 3)))
                st["queries"] += 1
                st["opt_hist"][str(opt)] += 1
                st["with_query"] += query
                st["null_needle"] += needle is None
                if rows is None:
                    st["unknown_target"] += 1
                    max_ports, bufsize = total + 2, 8192
                else:
                    st[kind] += 1
                    _, nfound, mlen = expected_search(rows, s, needle, opt, query, 1 << 30)
                    ncoll = len(search_spec(rows, needle or b"", 0))
                    need = max(1, ncoll + (1 if query else 0))
                    if rng.random() < 0.4:
                        max_ports = need
                        st["exact_max_ports"] += 1
                    else:
                        max_ports = need + rng.randint(1, 5)
                    r2 = rng.random()
                    if r2 < 0.25:
                        bufsize = mlen
                        st["buf_exact"] += 1
                    elif r2 < 0.35:
                        bufsize = mlen - rng.choice([1, 4])
                        st["buf_too_small"] += 1
                    else:
                        bufsize = mlen + rng.randint(1, 64)
                    st["found_hist"][str(nfound)] = st["found_hist"].get(str(nfound), 0) + 1
                    names = [p.name for p in search_spec(rows, needle or b"", 0)]
                    if len(set(names)) < len(names):
                        st["dup_name_results"] += 1
                    if opt == 2 and nfound < ncoll:
                        st["prefix_filtered"] += 1
                yield "S %s %s %s %d %d %d %d %s" % (ts, hx(s), "N" if needle is None else hx(needle), opt, int(query),
                                                     max_ports, bufsize, e)


FLAT_NAMES = [b"a/", b"a/", b"a/b", b"a/b/", b"a/b/c", b"a/bc", b"a", b"ab", b"ab/", b"ab/c", b"b", b"b2", b"c/d/",
              b"c/d/e:", b"a/:", b"a/x:i", b"a0", b"a.", b"a/b/c/d", b"b/", b"b/b", b"B", b"~/", b"~/x", b"~", b"+", b"+/", b"+/-"]


def gen_search_flat(rng, tier, stats):
    """one table, searched at the root: duplicate names, chains of `name/` prefixes, every metadata length"""
    st = stats["search"]
    st.setdefault("flat_tables", 0)
    n = 500 if tier == "quick" else 20000
    for _ in range(n):
        k = rng.randint(1, 9)
        tree = [Port(rng.choice(FLAT_NAMES), rand_meta(rng, st), None) for _ in range(k)]
        ts = show_tree(tree)
        st["flat_tables"] += 1
        for opt in (0, 1, 2):
            query = rng.random() < 0.4
            r = rng.random()
            needle = b"" if r < 0.45 else (None if r < 0.5 else rng.choice([b"a", b"a/", b"a/b", b"b", b"c/", b"ab"]))
            s = rng.choice([b"", b"/"])
            _, nfound, mlen = expected_search(tree, s, needle, opt, query, 1 << 30)
            ncoll = len(search_spec(tree, needle or b"", 0))
            need = max(1, ncoll + (1 if query else 0))
            max_ports = need if rng.random() < 0.5 else need + rng.randint(1, 4)
            r2 = rng.random()
            bufsize = mlen if r2 < 0.3 else (mlen - rng.choice([1, 3, 4]) if r2 < 0.4 else mlen + rng.randint(1, 40))
            st["queries"] += 1
            st["root"] += 1
            st["opt_hist"][str(opt)] += 1
            st["with_query"] += query
            st["null_needle"] += needle is None
            st["found_hist"][str(nfound)] = st["found_hist"].get(str(nfound), 0) + 1
            names = [p.name for p in search_spec(tree, needle or b"", 0)]
            if len(set(names)) < len(names):
                st["dup_name_results"] += 1
            if opt == 2 and nfound < ncoll:
                st["prefix_filtered"] += 1
            yield "S %s %s %s %d %d %d %d R" % (ts, hx(s), "N" if needle is None else hx(needle), opt, int(query),
                                                 max_ports, bufsize)


def oracle_search(w, out):
    e = w[8] if len(w) > 8 else "E=?"
    if e == "E=?":
        return "search crashed: " + out if out.startswith("crash") else None
    tree = parse_tree(w[1])
    s = unhx(w[2])
    needle = None if w[3] == "N" else unhx(w[3])
    opt, query, bufsize = int(w[4]), w[5] == "1", int(w[7])
    if e == "R":
        rows = tree
    else:
        p = port_at(tree, [int(x) for x in e[2:].split(".")])
        rows = p.sub if p.sub is not None else [p]
    want, _, _ = expected_search(rows, s, needle, opt, query, bufsize)
    return None if out == want else "child search: expected `%s`" % want


# ------------------------------------------------------------------ entry points
def generate(rng, tier, stats):
    gens = [gen_collapse(rng, tier, stats), gen_lookup(rng, tier, stats), gen_search(rng, tier, stats),
            gen_search_flat(rng, tier, stats)]
    for g in gens:
        for op in g:
            yield op


def nontrivial(op):
    w = op.split()
    if w[0] == "C":
        return "2f2e2e" in w[1]
    if w[0] in ("A", "I"):
        return w[1].count(";") >= 6
    if w[0] == "S":
        return w[1].count(";") >= 4
    return False


def oracle(op, out):
    w = op.split()
    if not w:
        return None
    if out.startswith("crash") and w[0] == "C":
        return "collapsePath crashed: " + out
    if w[0] == "C":
        return oracle_collapse(w, out)
    if w[0] in ("A", "I"):
        return oracle_lookup(w, out)
    if w[0] == "S":
        return oracle_search(w, out)
    return None


def main(argv):
    """vlib.main, except that a build which makes the harness die on more than 200 inputs (vlib gives up with an
    exception) is reported as what it is: a violation, with the first crashing input as replay."""
    import os
    import random
    import shutil
    import sys
    import vlib
    mod = sys.modules[__name__]
    try:
        return vlib.main(mod, argv)
    except RuntimeError as e:
        if "crashes on more than" not in str(e):
            raise
    seed = int(os.environ.get("VERIF_SEED", "1"))
    for i, a in enumerate(argv):
        if a == "--seed" and i + 1 < len(argv):
            seed = int(argv[i + 1])
    exe = vlib.build_harness(ENGINE, HARNESS)
    ops = []
    corpus = os.path.join(vlib.VERIF, "corpus", PROP + ".ops")
    if os.path.exists(corpus):
        ops = [l.strip() for l in open(corpus) if l.strip() and not l.startswith("#")]
    ops += list(generate(random.Random(seed * 1000003 + 17), "quick", {}))
    wd = os.path.join(vlib.BUILD, "run-%s-crash-%d" % (PROP, os.getpid()))
    os.makedirs(wd, exist_ok=True)
    try:
        for k in range(0, len(ops), 150):
            chunk = ops[k:k + 150]
            outs = vlib.run_harness(exe, chunk, wd, "crash")
            for op, out in zip(chunk, outs):
                f = oracle(op, out)
                if f is not None:
                    try:
                        model = vlib.run_driver(ENGINE, [op], wd, "crash")[0]
                    except Exception:
                        model = None
                    path = vlib.write_replay(PROP, "input", {"property": PROP, "kind": "failing-input", "ops": [op], "impl": out,
                                                             "model": model, "failure": f, "seed": seed,
                                                             "note": "the harness dies on more than 200 generated inputs"})
                    print("VIOLATION property=%s replay=%s" % (PROP, path))
                    return 1
    finally:
        shutil.rmtree(wd, ignore_errors=True)
    path = vlib.write_replay(PROP, "nofail", {"property": PROP, "kind": "no-failing-input-found", "seed": seed,
                                              "note": "the harness dies on more than 200 generated inputs"})
    print("VIOLATION property=%s replay=%s no-failing-input-found" % (PROP, path))
    return 1
