"""C15 — Undo history rewinds and replays recorded changes exactly."""
import os
import re

import vlib

PROP = "C15"
ENGINE = "undo"
LEAN_MODULES = ["RtoscModel.Props.C15", "RtoscModel.Props.C15Ports"]
THEOREMS = ["Rtosc.Undo.reachable_wf", "Rtosc.Undo.seek_back_emits", "Rtosc.Undo.seek_fwd_emits",
            "Rtosc.Undo.seek_clamped", "Rtosc.Undo.record_truncates_redo", "Rtosc.Undo.window_is_two",
            "Rtosc.Undo.tmpSize_is_256", "Rtosc.Undo.fits_iff_short",
            "Rtosc.Undo.merge_within_window", "Rtosc.Undo.append_outside_window",
            "Rtosc.Undo.merge_or_append_exhaustive", "Rtosc.Undo.cap_retained",
            "Rtosc.Undo.undo_all_restores", "Rtosc.Undo.redo_all_restores",
            "Rtosc.Undo.chain_invariant_reachable", "Rtosc.Undo.undo_redo_roundtrip",
            # end-to-end clause over C14's port model (module Props/C15Ports.lean)
            "Rtosc.Undo.portSem_of_portOK", "Rtosc.Undo.port_msg_refines_set", "Rtosc.Undo.ports_refine_app",
            "Rtosc.Undo.ports_chain_invariant_reachable", "Rtosc.Undo.ports_undo_all_restores",
            "Rtosc.Undo.ports_redo_all_restores", "Rtosc.Undo.ports_undo_redo_roundtrip", "Rtosc.Undo.encFld_inj",
            "Rtosc.Undo.exTbl_ok", "Rtosc.Undo.exFlds_ok",
            "Rtosc.Undo.undo_all_unstable_initial_counterexample", "Rtosc.Undo.negzero_not_recorded_counterexample",
            "Rtosc.Undo.toggle_not_recorded_counterexample"]
HARNESS = {"src": ["undo.cpp"], "deps": ["common.h"]}
STATELESS = True
RULE = ("one case = one whole history on a fresh UndoHistory: 0..60 operations record(address,tag,old,new) / "
        "seek(+-k) / advance-clock and the tags i f c, clock steps 0..5 s so that the 2 s merge window is hit on both "
        "sides and exactly, seeks of +-1..3, +-25, +-100 and INT_MIN/INT_MAX, most histories value-chained (old = "
        "current value) and closed by undo-all/redo-all. Addresses: 1..6 short names (occasionally 30), and in about "
        "40 % of the abstract histories a near-miss family: addresses of 24..247 bytes (every length class up to the "
        "247-byte limit of the 256-byte message buffer) that share a prefix of >= 24/32/64/128/200 bytes and differ in "
        "the last byte, in the middle, right after the common prefix, or where one is a proper prefix of the other; "
        "long addresses are recorded repeatedly inside and outside the window, undone, redone, truncated and pushed "
        "over the 20-event cap (25..40 addresses differing in their last two bytes). Clock origin: 60 % of the lines "
        "start with T ops that move the clock from the harness default 1 000 000 to a present-day value (1.6e9..2.1e9), "
        "to 2^31 / 2^32 / 2^24 +- 70 s (crossed during the line), below zero, or to a random value in +-2^33. A second "
        "stream runs end to end (events produced by rParam/rParamI ports through rCAPPLY, undo messages dispatched "
        "back, object fields printed after every step); a small stream has the empty address, one address with "
        "changing tags, and histories outside the claimed domain (address >= 248 bytes, clock stepping backwards after a "
        "record), which are run under the sanitizers but whose output is not compared (`ood`). Non-trivial = at "
        "least one record and one seek; distinct = distinct op line")
ASSUMPTIONS = ["event messages are '/undo_change' 's<t><t>' path old new with <t> in i f c (what rCAPPLY emits); payloads "
               "of other widths (h d t, strings, blobs) are not generated and not modelled",
               "clock source: the library reads the wall clock through time(), clock_gettime() (hence libstdc++'s "
               "std::chrono::system_clock/steady_clock), gettimeofday() or timespec_get() - all four are interposed by "
               "the harness and return the harness clock in whole seconds; a clock obtained in any other way (raw "
               "syscall, rdtsc, std::chrono::high_resolution_clock of another runtime) would not be controlled and "
               "would show up as oracle failures; |time_t| < 2^53 so difftime is exact",
               "claimed domain: every address of the history is shorter than 248 bytes (its set-message fits the library's "
               "256-byte buffer: Rtosc.Undo.fits_iff_short, tmpSize_is_256) and the clock does not move backwards "
               "after the first recorded event. Histories outside it are executed (sanitizers, crash = failure) but "
               "neither compared with the model nor judged by the oracle; what the library does there (a zeroed "
               "buffer handed to the callback on rewind, nothing on replay; negative ages always merge) is mirrored "
               "by the model but is no obligation",
               "'merge into one' is read as: the most recent applied event of that address absorbs the new one in "
               "place (first old value, last new value, time stamp renewed, so a run of changes each within 2 s of the "
               "previous one is one undo step); an implementation that moved the merged event to the newest position or "
               "counted the window from the first event of the run would be reported as a difference",
               "the model mirrors undo-history.cpp with fixes/C15-merge-scan.patch applied",
               "end-to-end theorems over C14's port model (ports_* in Props/C15Ports.lean): the port table consists of "
               "macro-generated scalar ports rParam / rParamI / rParamF / rOption / rToggle as C14 models them "
               "(Rtosc.Undo.PortOK: metadata the callback can read, a declared range that C14's clamping theorems cover, "
               "an address other than '/undo_change' and shorter than 248 bytes) at pairwise different addresses "
               "(TableOK); the initial field values are stable (FieldsOK / Stable: of the storage type and inside the "
               "declared range; floats neither NaN nor -0.0); messages lie in ArgsOK (a query, or a first argument of the "
               "port's type; rOption: an integer of the storage type - symbol arguments are not covered; floats neither "
               "NaN nor -0.0). Each restriction is necessary: three ..._counterexample theorems. The wiring of the "
               "application (every '/undo_change' reply is recorded at the current clock, undo/redo messages are "
               "dispatched back into the ports with recording disabled, the zeroed buffer is skipped) is the definition "
               "Rtosc.Undo.PApp.step, written after test/undo-test.cpp and the E lines of harness/undo.cpp"]
TRUSTED = ["hand-written model RtoscModel/Undo.lean of UndoHistory::recordEvent/seekHistory, "
           "UndoHistoryImpl::mergeEvent/rewind/replay; std::deque as a list",
           "RtoscModel/UndoPorts.lean (PApp: C14's port model wired to the undo history) is a Lean definition that is "
           "not executed by the driver; C14's model of Ports dispatch and of the port-sugar callbacks "
           "(RtoscModel/Param/Port.lean, Sugar.lean) is tied to the code by C14's correspondence run, not by C15's",
           "translator tools/props/c15.py:translate_undo_consts (max_history_size, merge window, tmp size)",
           "rtosc_amessage/rtosc_argument move 4-byte payloads bit for bit (covered by C01)",
           "interposition of time/clock_gettime/gettimeofday/timespec_get by the harness executable (self-tested at "
           "start-up, including through std::chrono)"]
LEVEL_TEXT = ("Lean theorems (seek_back_emits, seek_fwd_emits, seek_clamped, record_truncates_redo, merge_within_window, "
              "append_outside_window, cap_retained, undo_all_restores, redo_all_restores, chain_invariant_reachable, "
              "undo_redo_roundtrip) hold for all histories of any length over the model of undo-history.cpp; the constants "
              "20 / 2 s / 256 are regenerated from the source on every run and pinned by cap_retained, window_is_two and "
              "tmpSize_is_256 (fits_iff_short: the domain hypothesis AddrsFit is exactly 'address shorter than 248 bytes'); "
              "the model is compared with the compiled implementation (ASan/UBSan, controlled clock at present-day, "
              "2^31, 2^32 and negative origins) on thousands of generated histories per run, and an independent Python "
              "reference of the property is evaluated on the implementation's output. The end-to-end clause is also proved "
              "over C14's Lean model of the parameter ports (Props/C15Ports.lean): an application built from rParam / "
              "rParamI / rParamF / rOption / rToggle ports (Param.dispatch and the callbacks of C14; '/undo_change' replies "
              "recorded; undo messages dispatched back) refines the hand-written App.step - port_msg_refines_set: the "
              "events a port emits are exactly the event App.step records (old = the field before, new = the stored, "
              "clamped value, none when the stored value did not change), using C14's undo_event_iff_changed_* and "
              "stored value theorems; ports_refine_app for whole histories - and ports_chain_invariant_reachable, "
              "ports_undo_all_restores, ports_redo_all_restores, ports_undo_redo_roundtrip carry the end-to-end theorems "
              "over to the fields behind real ports, for all port tables, initial values and histories in the stated domain")
LEVEL_NOTE = ("not proved / weaker than the prose: (1) the port-level end-to-end theorems (ports_*) hold in the domain "
              "PortOK / Stable / ArgsOK only; outside it C14's ports do NOT behave like App.step - three findings, each "
              "proved on the model: an initial field value outside the declared range is not restored by undo, the port "
              "clamps the undo message (undo_all_unstable_initial_counterexample); +0.0 -> -0.0 on an rParamF port "
              "changes the stored bits without an undo event and a NaN is reported as changed even when the bits are equal, "
              "so for floats the refinement holds modulo IEEE equality only (negzero_not_recorded_counterexample); rToggle "
              "ports have no rCAPPLY and never report to the undo history (toggle_not_recorded_counterexample). Not covered "
              "by the port-level theorems: array ports (rArrayI/F/T/Option), rString, rOption set by symbol, fields of the "
              "wide integer types (C14's intCbW), two ports sharing one address; that seeks leave the field of a "
              "non-undoable port untouched is not stated. PApp is a Lean definition: it is not run against the compiled "
              "library - the E lines of the correspondence run still execute App.step next to four real ports (two char, "
              "two int fields), and that Param.dispatch / the callbacks are what the library does is C14's correspondence. "
              "(2) Events carry 32-bit payloads only (i f c). "
              "(3) merge_within_window is stated with `now - t <= 2`, which includes negative ages because the code "
              "does; the check makes no claim about a clock stepping backwards. (4) tmpSize_is_256 is an equality on "
              "purpose: enlarging the buffer also fails it, and the domain statement then has to be re-issued. "
              "Trusted: Lean kernel; the hand-written model is tied to the code by differential execution only")
TECHNIQUE = ("Lean 4 model + theorems; correspondence testing against the sanitized build with interposed "
             "time()/clock_gettime()/gettimeofday(); reference oracle")

MAX_HISTORY = 20      # the numbers of the property statement (NOT read from the source)
WINDOW = 2
DOMAIN_ADDR_LIMIT = 248   # claimed domain: addresses shorter than this (set-message fits 256 bytes);
                          # Rtosc.Undo.fits_iff_short / tmpSize_is_256 tie it to the regenerated constant
CLOCK0 = 1000000      # where the harness clock and the model clock start on every line
INT_MIN, INT_MAX = -2147483648, 2147483647


# ---------------------------------------------------------------------------------
# translator: constants of undo-history.cpp -> lean/RtoscModel/Generated/UndoConst.lean
# ---------------------------------------------------------------------------------
def translate_undo_consts():
    src = open(os.path.join(vlib.REPO, "src/cpp/undo-history.cpp")).read()
    code = re.sub(r"//[^\n]*", "", src)
    m1 = re.findall(r":\s*max_history_size\s*\(\s*(\d+)\s*\)", code)
    m2 = re.findall(r"difftime\s*\(\s*now\s*,\s*history\s*\[\s*i\s*\]\s*\.\s*first\s*\)\s*>\s*(\d+)\s*\)", code)
    m3 = re.findall(r"static\s+char\s+tmp\s*\[\s*(\d+)\s*\]", code)
    m4 = re.findall(r"rtosc_amessage\s*\(\s*tmp\s*,\s*(\d+)\s*,", code)
    if len(m1) != 1 or len(m2) != 1 or len(m3) != 1 or len(m4) != 2 or set(m4) != set(m3):
        raise RuntimeError("undo-history.cpp no longer has the expected shape "
                           "(max_history_size(N) / difftime(now, history[i].first) > N / tmp[N])")
    txt = """/-
  GENERATED by tools/props/c15.py (translate_undo_consts) from src/cpp/undo-history.cpp.
  Do not edit: the file is rewritten on every run of the check when the source changes.
-/
namespace Rtosc.Generated

/-- `UndoHistoryImpl::UndoHistoryImpl() : max_history_size(%s)` -/
def maxHistory : Nat := %s

/-- `if(difftime(now, history[i].first) > %s)` in `mergeEvent` (seconds) -/
def mergeWindow : Int := %s

/-- `static char tmp[%s]` and the length passed to `rtosc_amessage` in rewind/replay -/
def tmpSize : Nat := %s

end Rtosc.Generated
""" % (m1[0], m1[0], m2[0], m2[0], m3[0], m3[0])
    path = os.path.join(vlib.LEAN, "RtoscModel/Generated/UndoConst.lean")
    old = open(path).read() if os.path.exists(path) else None
    if old != txt:
        with open(path, "w") as f:
            f.write(txt)
        return "UndoConst.lean regenerated: maxHistory=%s mergeWindow=%s tmpSize=%s" % (m1[0], m2[0], m3[0])
    return "UndoConst.lean up to date: maxHistory=%s mergeWindow=%s tmpSize=%s" % (m1[0], m2[0], m3[0])


TRANSLATORS = [translate_undo_consts]


# ---------------------------------------------------------------------------------
# the property as a tiny reference (abstract undo list) — independent of the Lean model
# ---------------------------------------------------------------------------------
PORTS = [(b"/a", "c"), (b"/bb", "c"), (b"/i", "i"), (b"/lng", "i")]


def hx(b):
    return b.hex() if b else "-"


def port_value(tag, v):
    """C14's rParam on a char field: low byte, sign-extended, clamped to the macro's 0..127."""
    if tag == "c":
        b = v & 0xff
        return 0 if b >= 128 else b
    return v


class Ref:
    def __init__(self):
        self.ev = []          # dicts addr tag old new t, oldest first
        self.pos = 0
        self.clock = 0
        self.store = {a: 0 for a, _ in PORTS}
        self.stats = {"merge": 0, "merge_not_newest": 0, "append": 0, "cap_drop": 0, "truncate": 0,
                      "window_exact": 0, "clamped_seek": 0, "merge_addr_ge_96": 0, "merge_addr_36_95": 0,
                      "append_next_to_near_miss": 0, "max_abs_clock": 0}

    def record(self, addr, tag, old, new):
        if self.pos < len(self.ev):
            self.stats["truncate"] += 1
        del self.ev[self.pos:]                       # recording after an undo discards the undone tail
        last = None
        for i in range(len(self.ev) - 1, -1, -1):    # most recent event for this address
            if self.ev[i]["addr"] == addr:
                last = i
                break
        if last is not None and self.clock - self.ev[last]["t"] <= WINDOW:
            if self.clock - self.ev[last]["t"] == WINDOW:
                self.stats["window_exact"] += 1
            self.stats["merge"] += 1
            if last != len(self.ev) - 1:
                self.stats["merge_not_newest"] += 1
            if len(addr) >= 96:
                self.stats["merge_addr_ge_96"] += 1
            elif len(addr) >= 36:
                self.stats["merge_addr_36_95"] += 1
            e = self.ev[last]                        # first old value, last new value
            e["new"], e["tag"], e["t"] = new, tag, self.clock
        else:
            self.stats["append"] += 1
            # measured: a *different* address sharing >= 24 leading bytes was touched within the window
            if len(addr) >= 24 and any(x["addr"] != addr and x["addr"][:24] == addr[:24] and
                                       self.clock - x["t"] <= WINDOW for x in self.ev):
                self.stats["append_next_to_near_miss"] += 1
            self.ev.append({"addr": addr, "tag": tag, "old": old, "new": new, "t": self.clock})
            if len(self.ev) > MAX_HISTORY:           # only the 20 most recent are retained
                self.ev.pop(0)
                self.stats["cap_drop"] += 1
        self.pos = len(self.ev)
        self.stats["max_abs_clock"] = max(self.stats["max_abs_clock"], abs(self.clock + CLOCK0))

    def seek(self, k):
        dest = self.pos + k
        if dest < 0 or dest > len(self.ev):
            self.stats["clamped_seek"] += 1
        dest = max(0, min(len(self.ev), dest))       # seeks beyond either end stop at the end
        out = []
        while self.pos > dest:                       # newest first, old values
            self.pos -= 1
            e = self.ev[self.pos]
            out.append((e["addr"], e["tag"], e["old"]))
        while self.pos < dest:                       # oldest first, new values
            e = self.ev[self.pos]
            self.pos += 1
            out.append((e["addr"], e["tag"], e["new"]))
        return out

    def pz(self):
        return "p%d/%d" % (self.pos, len(self.ev))

    def show_store(self):
        return "|" + ",".join("%08x" % self.store[a] for a, _ in PORTS)


def fmt_msgs(ms):
    return ";".join("%s.%s.%08x" % (hx(a), t, v) for a, t, v in ms) if ms else "-"


def parse_ops(op):
    """-> (mode, [(kind, args…)]) or None when the line is not one the generator writes."""
    w = op.split()
    if not w or w[0] not in ("H", "E"):
        return None
    out = []
    i = 1
    try:
        while i < len(w):
            if w[i] == "R" and w[0] == "H":
                addr = b"" if w[i + 1] == "-" else bytes.fromhex(w[i + 1])
                out.append(("R", addr, w[i + 2], int(w[i + 3], 16), int(w[i + 4], 16)))
                i += 5
            elif w[i] == "P" and w[0] == "E":
                out.append(("P", int(w[i + 1]), int(w[i + 2], 16)))
                i += 3
            elif w[i] == "S":
                out.append(("S", int(w[i + 1])))
                i += 2
            elif w[i] == "T":
                out.append(("T", int(w[i + 1])))
                i += 2
            else:
                return None
    except (IndexError, ValueError):
        return None
    return w[0], out


def out_of_domain(ops):
    """The histories the property is NOT claimed for (harness and driver print `ood` for them and
    nothing is compared; the implementation is still run under the sanitizers):
    an address whose set-message does not fit the 256-byte buffer, or a clock that is moved
    backwards after the first recorded event (negative ages: 'within two seconds' says nothing)."""
    recorded = False
    for o in ops:
        if o[0] == "R":
            if len(o[1]) >= DOMAIN_ADDR_LIMIT:
                return True
            recorded = True
        elif o[0] == "P":
            recorded = True
        elif o[0] == "T" and o[1] < 0 and recorded:
            return True
    return False


def expected(op, ref=None):
    """Expected output line according to the property; None where the property makes no claim."""
    p = parse_ops(op)
    if p is None:
        return None
    mode, ops = p
    if out_of_domain(ops):
        return None
    r = ref or Ref()
    toks = []
    for o in ops:
        if o[0] == "R":
            if o[2] not in "ifc" or 0 in o[1]:
                return None
            r.record(o[1], o[2], o[3], o[4])
            toks.append(r.pz())
        elif o[0] == "P":
            if not 0 <= o[1] < len(PORTS):
                return None
            addr, tag = PORTS[o[1]]
            v = port_value(tag, o[2])
            if r.store[addr] != v:                   # a port reports a change with the true old value
                r.record(addr, tag, r.store[addr], v)
                r.store[addr] = v
            toks.append(r.pz() + r.show_store())
        elif o[0] == "S":
            if not INT_MIN <= o[1] <= INT_MAX:
                return None
            ms = r.seek(o[1])
            for a, _, v in ms:                       # the application dispatches them back
                if a in r.store:
                    r.store[a] = v
            toks.append(r.pz() + ":" + fmt_msgs(ms) + (r.show_store() if mode == "E" else ""))
        else:
            r.clock += o[1]
            toks.append("t")
    return " ".join(toks) if toks else "-"


def oracle(op, out):
    exp = expected(op)
    if exp is None:      # outside the claimed domain: only "does not crash" is demanded
        return "implementation crashed: " + out if out.startswith("crash") else None
    if out == exp:
        return None
    a, b = out.split(), exp.split()
    for i, (x, y) in enumerate(zip(a, b)):
        if x != y:
            return "operation #%d: implementation `%s`, property requires `%s`" % (i, x[:200], y[:200])
    return "implementation printed %d tokens, property requires %d (`%s`)" % (len(a), len(b), out[:200])


def nontrivial(op):
    w = op.split()
    return ("R" in w or "P" in w) and "S" in w


# ---------------------------------------------------------------------------------
# generator
# ---------------------------------------------------------------------------------
NAMES = [b"/a", b"/b", b"/vol", b"/part0/kit3/adpars/VoicePar7/volume", b"/x/y", b"/p#1"]
INTS = [0, 1, 2, 7, 64, 127, 128, 255, 0x7fffffff, 0x80000000, 0xffffffff]
FLOATS = [0x00000000, 0x80000000, 0x3f800000, 0xbf800000, 0x3fa00000, 0x40000000, 0x7f800000, 0x7fc00000,
          0x7f800001, 0x00000001]
CHARS = [0, 1, 64, 127, 128, 255, 0x181, 0xffffff80]


# ---- near-miss address families -------------------------------------------------------
# Addresses of one family have the same long prefix and differ late: in the last byte, in the
# middle, in the first byte after a 24/32/64/128/200-byte common prefix, or one is a proper
# prefix of the other.  Lengths cover the whole claimed range (up to 247 bytes).
FAMILY_LENGTHS = [24, 25, 28, 31, 32, 33, 36, 40, 48, 60, 63, 64, 65, 80, 95, 96, 97, 100, 127, 128, 129, 160,
                  200, 239, 240, 243, 244, 245, 246, 247]
SEGS = [b"part", b"kit", b"adpars", b"VoicePar", b"volume", b"panning", b"filter", b"env", b"lfo", b"freq",
        b"x", b"global", b"PFilterVelocityScale"]


def path_of_len(rng, n):
    """a '/'-separated path of exactly n >= 2 bytes in the style of a real parameter address"""
    out = b""
    while len(out) < n:
        out += b"/" + rng.choice(SEGS) + (b"%d" % rng.randint(0, 15) if rng.random() < 0.5 else b"")
    out = out[:n]
    return out[:-1] + b"q" if out.endswith(b"/") else out


def flip(rng, b, i):
    c = bytearray(b)
    alt = [x for x in b"abcdefgxyz0123456789" if x != c[i]]
    c[i] = rng.choice(alt)
    return bytes(c)


def family(rng, stats, length=None):
    ln = length or (rng.choice(FAMILY_LENGTHS) if rng.random() < 0.8 else rng.randint(24, 247))
    base = path_of_len(rng, ln)
    var = [base, flip(rng, base, ln - 1), flip(rng, base, ln // 2), flip(rng, base, ln - 2)]
    for pfx in (24, 32, 64, 128, 200):
        if pfx < ln:
            var.append(flip(rng, base, pfx))                        # exactly pfx common leading bytes
            var.append(flip(rng, base, rng.randint(pfx, ln - 1)))   # at least pfx
    var += [base[:-1], base[:-4], base[:ln - rng.randint(1, min(8, ln - 2))]]      # proper prefixes
    if ln > 32:
        var.append(base[:rng.choice([24, 32])])
    for ext in (b"x", b"/sub", b"0"):
        if ln + len(ext) < DOMAIN_ADDR_LIMIT:
            var.append(base + ext)
    seen, out = set(), []
    for v in var:
        if v not in seen and len(v) >= 1:
            seen.add(v)
            out.append(v)
    b = "family_len_%s" % ("24-35" if ln < 36 else "36-95" if ln < 96 else "96-239" if ln < 240 else "240-247")
    stats[b] = stats.get(b, 0) + 1
    return base, out


def family_pool(rng, stats, many=False):
    """(address, tag) pool drawn from one family; `many`: 25..40 addresses that differ only in
    their last two bytes (for crossing the 20-event cap)."""
    if many:
        ln = rng.choice([26, 34, 40, 66, 98, 130, 247])
        base = path_of_len(rng, ln - 2)
        k = "family_many"
        stats[k] = stats.get(k, 0) + 1
        return [(base + b"%02d" % i, rng.choice("ifc")) for i in range(rng.choice([25, 30, 40]))]
    base, var = family(rng, stats)
    k = rng.randint(2, min(6, len(var)))
    pool = rng.sample(var, k)
    if rng.random() < 0.5 and base not in pool:
        pool[0] = base
    if rng.random() < 0.25:
        pool.append(rng.choice(NAMES))                      # a short unrelated address in between
    return [(a, rng.choice("ifc")) for a in pool]


# ---- clock origin ----------------------------------------------------------------------
def origin_ops(rng, stats):
    """Leading T ops moving the clock from CLOCK0 to the line's origin: present-day values,
    around 2^31 and 2^32 (also crossed during the line), around 2^24 (where `float` stops
    being exact), before the epoch, and the harness default."""
    r = rng.random()
    if r < 0.40:
        kind, target = "default", CLOCK0
    elif r < 0.60:
        kind, target = "present", rng.randint(1600000000, 2100000000)
    elif r < 0.70:
        kind, target = "2^31", 2 ** 31 + rng.choice([-rng.randint(0, 70), rng.randint(0, 1000), -1, 0])
    elif r < 0.78:
        kind, target = "2^32", 2 ** 32 + rng.choice([-rng.randint(0, 70), rng.randint(0, 1000), -1, 0])
    elif r < 0.84:
        kind, target = "2^24", 2 ** 24 + rng.choice([-rng.randint(0, 70), rng.randint(0, 10 ** 6), -1, 0, 1])
    elif r < 0.92:
        kind, target = "negative", -rng.choice([rng.randint(0, 70), rng.randint(1, 10 ** 6), rng.randint(1, 2 ** 31),
                                                2 ** 31 + rng.randint(-70, 70), 2 ** 32 + rng.randint(-70, 70)])
    else:
        kind, target = "random", rng.randint(-2 ** 33, 2 ** 33)
    stats["origin_" + kind] = stats.get("origin_" + kind, 0) + 1
    d = target - CLOCK0
    toks = []
    while d:
        st = max(-10 ** 9, min(10 ** 9, d))
        toks += ["T", str(st)]
        d -= st
    return toks


def rand_value(rng, tag):
    r = rng.random()
    if tag == "f":
        return rng.choice(FLOATS) if r < 0.7 else rng.getrandbits(32)
    if tag == "c":
        return rng.choice(CHARS) if r < 0.7 else rng.getrandbits(8)
    return rng.choice(INTS) if r < 0.6 else rng.getrandbits(32)


def rand_seek(rng):
    r = rng.random()
    if r < 0.55:
        return rng.choice([-1, 1, -1, 1, -2, 2, -3, 3])
    if r < 0.75:
        return rng.choice([-25, 25, -100, 100, -20, 20, -21, 21, -19, 19])
    if r < 0.8:
        return rng.choice([INT_MIN, INT_MAX, INT_MIN + 1, INT_MAX - 1, 0])
    return rng.randint(-8, 8)


def gen_history(rng, stats):
    profile = rng.choice(["merge", "merge", "cap", "mixed", "mixed", "many", "stale"])
    steps = {"merge": [0, 0, 0, 1, 1, 2, 2, 3], "cap": [3, 3, 3, 5, 2, 0], "mixed": [0, 1, 2, 3, 5, 0, 1, 2],
             "many": [0, 0, 1, 3], "stale": [0, 1, 1, 2, 2, 3]}[profile]
    fam = rng.random() < 0.4
    if profile == "many":
        pool = family_pool(rng, stats, many=True) if fam else [(b"/m%d" % i, rng.choice("ifc")) for i in range(30)]
    elif fam:
        pool = family_pool(rng, stats)
    else:
        k = rng.randint(1, 6)
        pool = [(n, rng.choice("ifc")) for n in rng.sample(NAMES, k)]
    chained = rng.random() < 0.8
    n = rng.choice([0, 1, 2, 3, 5, 8, 13, 21, 22, 30, 40, 60, rng.randint(0, 60)])
    if profile in ("cap", "many"):
        n = rng.choice([30, 45, 60, 60])
    if fam and max(len(a) for a, _ in pool) > 100:
        n = min(n, 30)                                        # keep the op lines of long addresses moderate
    cur = {}
    toks = ["H"] + origin_ops(rng, stats)
    stats["profile_" + profile] = stats.get("profile_" + profile, 0) + 1
    for _ in range(n):
        r = rng.random()
        if r < (0.72 if profile in ("cap", "many") else 0.6):
            addr, tag = rng.choice(pool)
            if rng.random() < 0.01:
                tag = rng.choice("ifc")                       # same address, other tag (near-valid)
            new = rand_value(rng, tag)
            old = cur.get(addr, 0) if chained else rand_value(rng, tag)
            cur[addr] = new
            toks += ["R", hx(addr), tag, "%08x" % old, "%08x" % new]
            if rng.random() < 0.5:
                toks += ["T", str(rng.choice(steps))]
        elif r < 0.9:
            toks += ["S", str(rand_seek(rng))]                # (old values are not re-synchronised here;
                                                              #  gen_chained produces exactly chained histories)
        else:
            toks += ["T", str(rng.choice(steps))]
    if rng.random() < 0.7:
        toks += ["S", "-100", "S", "100"]
    return toks


def gen_chained(rng, stats):
    """Histories in which old values are exactly the current value of the address (as a real
    application produces them), seeks included: the generator applies the reference's undo messages."""
    ref = Ref()
    fam = rng.random() < 0.4
    r0 = rng.random()
    if r0 < 0.3 and fam:
        pool = family_pool(rng, stats, many=True)
    elif r0 < 0.3:
        pool = [(b"/m%d" % i, rng.choice("ifc")) for i in range(rng.choice([8, 25, 40]))]
    elif fam:
        pool = family_pool(rng, stats)
    else:
        k = rng.randint(1, 5)
        pool = [(n, rng.choice("ifc")) for n in rng.sample(NAMES, k)]
    steps = rng.choice([[0, 0, 1, 2, 3], [3, 5], [0, 1, 2], [2, 2, 3, 1]])
    n = rng.choice([5, 10, 22, 30, 45, 60, rng.randint(0, 60)])
    p_rec = rng.choice([0.6, 0.6, 0.8])
    if len(pool) > 7:
        n, p_rec = rng.choice([40, 60]), 0.8
    elif fam and max(len(a) for a, _ in pool) > 100:
        n = min(n, 30)
    cur = {}
    toks = ["H"] + origin_ops(rng, stats)
    for _ in range(n):
        r = rng.random()
        if r < p_rec:
            addr, tag = rng.choice(pool)
            new = rand_value(rng, tag)
            old = cur.get(addr, 0)
            if new == old:
                continue
            cur[addr] = new
            ref.record(addr, tag, old, new)
            toks += ["R", hx(addr), tag, "%08x" % old, "%08x" % new]
        elif r < p_rec + 0.4 * (1 - p_rec) + 0.1:
            s = rand_seek(rng)
            for a, _, v in ref.seek(s):
                cur[a] = v
            toks += ["S", str(s)]
        else:
            d = rng.choice(steps)
            ref.clock += d
            toks += ["T", str(d)]
    toks += ["S", "-100", "S", "100"]
    return toks


def gen_stale(rng, stats):
    """The alignment behind fixes/C15-merge-scan.patch: an older entry is extended (its time
    stamp renewed) while a younger entry of another address keeps an older stamp."""
    if rng.random() < 0.5:
        a, b = rng.sample(NAMES, 2)
    else:
        a, b = rng.sample(family(rng, stats)[1], 2)           # the two addresses are near misses
    t1, t2, t3 = rng.choice([0, 1, 2]), rng.choice([0, 1, 2]), rng.choice([1, 2, 3])
    toks = ["H"] + origin_ops(rng, stats) + [
            "R", hx(a), "i", "00000000", "00000001", "T", str(t1), "R", hx(b), "i", "00000000", "00000005",
            "T", str(t2), "R", hx(a), "i", "00000001", "00000002", "T", str(t3),
            "R", hx(a), "i", "00000002", "00000003"]
    if rng.random() < 0.5:
        toks += ["T", str(rng.choice([0, 1, 2, 3])), "R", hx(b), "i", "00000005", "00000006"]
    toks += ["S", "-5", "S", "5"]
    return toks


def gen_e2e(rng, stats):
    n = rng.choice([3, 8, 15, 25, 40, 60, rng.randint(0, 60)])
    steps = rng.choice([[0, 0, 1, 2, 3], [3, 5], [0, 1, 2], [0]])
    toks = ["E"] + origin_ops(rng, stats)
    for _ in range(n):
        r = rng.random()
        if r < 0.6:
            idx = rng.randint(0, 3)
            v = rand_value(rng, PORTS[idx][1])
            toks += ["P", str(idx), "%08x" % v]
        elif r < 0.85:
            toks += ["S", str(rand_seek(rng))]
        else:
            toks += ["T", str(rng.choice(steps))]
    toks += ["S", "-100", "S", "100"]
    return toks


def gen_edge(rng, stats):
    c = rng.randint(0, 5)
    org = origin_ops(rng, stats)
    if c in (0, 4):  # one long address (whole length range, both sides of the 247-byte limit) recorded
                     # repeatedly inside / outside the window, next to a short one, undone and redone
        ln = rng.choice([36, 60, 95, 96, 100, 127, 128, 200, 239, 240, 243, 244, 246, 247, 247,
                         248, 249, 251, 252, 300] if c == 0 else [92, 95, 96, 97, 100, 128, 200, 240, 244, 247])
        addr = b"/" + bytes(rng.choice(b"abcxyz/") for _ in range(ln - 1))
        if addr.endswith(b"/"):
            addr = addr[:-1] + b"e"
        tag = rng.choice("ifc")
        toks = ["H"] + org + ["R", hx(addr), tag, "00000001", "00000002"]
        v = 2
        for _ in range(rng.randint(1, 3)):
            toks += ["T", str(rng.choice([0, 1, 2, 3, 5]))]
            if rng.random() < 0.4:
                toks += ["R", hx(b"/a"), "i", "%08x" % v, "%08x" % (v + 7)]
            if rng.random() < 0.3:
                toks += ["S", "-1", "S", str(rng.choice([0, 1]))]
            toks += ["R", hx(addr), tag, "%08x" % v, "%08x" % (v + 1)]
            v += 1
        toks += ["S", "-1", "S", "1", "S", "-1", "R", hx(b"/a"), "i", "00000000", "00000001", "S", "-2", "S", "2",
                 "S", "-100", "S", "100"]
    elif c == 1:    # empty address
        toks = ["H"] + org + ["R", "-", "i", "00000000", "00000009", "T", "1", "R", "-", "i", "00000009", "0000000a",
                              "S", "-1", "S", "1"]
    elif c == 2:    # clock running backwards after a record: outside the claimed domain (run, not compared)
        toks = ["H"] + org + ["R", hx(b"/a"), "i", "00000000", "00000001", "T", str(-rng.randint(1, 50)),
                              "R", hx(b"/a"), "i", "00000001", "00000002", "T", "10",
                              "R", hx(b"/a"), "i", "00000002", "00000003", "S", "-3", "S", "3"]
    elif c == 3:    # exactly the cap, one more, seeks at the cap; optionally over near-miss addresses
        toks = ["H"] + org
        m = rng.choice([19, 20, 21, 22, 41])
        stem = b"/q" if rng.random() < 0.5 else path_of_len(rng, rng.choice([24, 32, 64, 96, 128, 245]))
        for i in range(m):
            toks += ["R", hx(stem + b"%d" % i), "i", "00000000", "%08x" % (i + 1)]
        toks += ["S", str(rng.choice([-20, -21, -19, -100])), "S", str(rng.choice([1, 5, 20])),
                 "R", hx(b"/new"), "f", "3f800000", "40000000", "S", "-100", "S", "100"]
    else:           # two near-miss addresses changed alternately inside the window: never merged
        _, var = family(rng, stats)
        a, b = rng.sample(var, 2)
        ta, tb = rng.choice("ifc"), rng.choice("ifc")
        toks = ["H"] + org
        va = vb = 0
        for i in range(rng.randint(2, 6)):
            if rng.random() < 0.6:
                toks += ["R", hx(a), ta, "%08x" % va, "%08x" % (va + 1)]
                va += 1
            else:
                toks += ["R", hx(b), tb, "%08x" % vb, "%08x" % (vb + 3)]
                vb += 3
            if rng.random() < 0.5:
                toks += ["T", str(rng.choice([0, 1, 1, 2, 3]))]
        toks += ["S", "-100", "S", "100"]
    stats["edge_%d" % c] = stats.get("edge_%d" % c, 0) + 1
    return toks


def generate(rng, tier, stats):
    n = 20000 if tier == "quick" else 250000
    stats.update({"lines": 0, "ops_hist": {}, "H": 0, "E": 0})
    for i in range(n):
        r = rng.random()
        if r < 0.40:
            toks = gen_chained(rng, stats)
        elif r < 0.65:
            toks = gen_history(rng, stats)
        elif r < 0.70:
            toks = gen_stale(rng, stats)
        elif r < 0.95:
            toks = gen_e2e(rng, stats)
        else:
            toks = gen_edge(rng, stats)
        nops = sum(1 for t in toks if t in ("R", "S", "T", "P"))
        b = str(min(nops // 10 * 10, 60))
        stats["ops_hist"][b] = stats["ops_hist"].get(b, 0) + 1
        stats[toks[0]] += 1
        stats["lines"] += 1
        line = " ".join(toks)
        for j, t in enumerate(toks):                 # measured: lengths of the recorded addresses
            if t == "R":
                ln = 0 if toks[j + 1] == "-" else len(toks[j + 1]) // 2
                k = "rec_addr_len_" + ("0-23" if ln < 24 else "24-35" if ln < 36 else "36-95" if ln < 96 else
                                       "96-239" if ln < 240 else "240-247" if ln < 248 else "248+")
                stats[k] = stats.get(k, 0) + 1
        ref = Ref()                                  # measured distribution: what the reference went through
        if expected(line, ref) is None:
            stats["out_of_domain_lines_run_not_compared"] = stats.get("out_of_domain_lines_run_not_compared", 0) + 1
        else:
            for kk, v in ref.stats.items():
                if kk == "max_abs_clock":
                    stats[kk] = max(stats.get(kk, 0), v)
                    continue
                stats[kk] = stats.get(kk, 0) + v
                if v and kk in ("cap_drop", "merge_not_newest", "truncate", "window_exact", "merge_addr_ge_96",
                                "merge_addr_36_95", "append_next_to_near_miss"):
                    stats["lines_with_" + kk] = stats.get("lines_with_" + kk, 0) + 1
        yield line


def neighbours(op, rng):
    """Shorter histories with the same beginning (each closed by undo-all / redo-all)."""
    p = parse_ops(op)
    if p is None:
        return
    w = op.split()
    cuts = []
    i = 1
    while i < len(w):
        cuts.append(i)
        i += {"R": 5, "P": 3, "S": 2, "T": 2}.get(w[i], 1)
    for c in cuts[1:]:
        yield " ".join(w[:c])
        yield " ".join(w[:c] + ["S", "-100", "S", "100"])
