"""C09 — Walking a port tree enumerates exactly its dispatchable addresses."""
import functools
import itertools
import os
import re
import subprocess

PROP = "C09"
ENGINE = "walk"
LEAN_MODULES = ["RtoscModel.Props.C09", "RtoscModel.Props.C09Ports"]
THEOREMS = ["Rtosc.Walk.walk_eq_enumerate_partial", "Rtosc.Walk.walk_eq_enumerate_root_partial",
            "Rtosc.Walk.walk_eq_enumerate_counterexample", "Rtosc.Walk.walk_eq_code", "Rtosc.Walk.enumerate_count",
            "Rtosc.Walk.enumerate_nodup", "Rtosc.Walk.walk_reports_exactly_once",
            "Rtosc.Walk.walk_restores_buffer", "Rtosc.Walk.walk_restores_buffer_root",
            "Rtosc.Walk.walked_address_dispatches", "Rtosc.Walk.walked_address_dispatches_only",
            "Rtosc.Walk.apart_of_headsApart", "Rtosc.Walk.siblingsApart_of_headsApart",
            "Rtosc.Walk.walked_address_dispatched", "Rtosc.Walk.walked_address_dispatched_among",
            "Rtosc.Walk.walked_address_reaches_port", "Rtosc.Walk.tagsAdmitted_spec",
            "Rtosc.Walk.reported_idxBounded", "Rtosc.Walk.walked_address_dispatched_short",
            "Rtosc.Walk.walked_address_dispatches_ports_short",
            "Rtosc.Walk.dispatch_empty_leaf_counterexample", "Rtosc.Walk.dispatch_needs_idxBounded",
            "Rtosc.Walk.walked_address_dispatches_ports", "Rtosc.Walk.walked_address_dispatches_ports_among",
            "Rtosc.Walk.ports_table_is_rendering", "Rtosc.Walk.ports_table_wf",
            "Rtosc.Walk.walk_prunes", "Rtosc.Walk.walk_prunes_partial", "Rtosc.Walk.walk_prunes_gate",
            "Rtosc.Walk.walk_prunes_toggle", "Rtosc.Walk.walk_prunes_subport_toggle", "Rtosc.Walk.walk_scratch_limit",
            "Rtosc.Walk.walk_needs_room", "Rtosc.Walk.empty_buffer_needs_zero", "Rtosc.Walk.leading_hash_literal"]
HARNESS = {"src": ["walk.cpp"], "deps": ["common.h", "walk_rt.h"]}
RULE = ("W (runtime == NULL, dynamic tables, every name in an exact-size heap block): random port trees of depth 1..4 with "
        "1..4 rows per table; names head #N text … ['/'] [:types] with 0..2 enumerations in sub-tree names (N in 1..3, "
        "10..12, and 100/101/128/130: three-digit indices; leaves also N = 0), text behind a number '/b', 'b', '/c/d' or "
        "nothing, multi-component names such as a#3/b#2/c/; leaves with 0, 1 and (rarely, finding C09-K1) 2 enumerations, "
        "trailing '/', the type parts none ':i' '::i' ':s:' '::T:F' ':'; 7% of the sub-tree names without their trailing '/' "
        "as in test/walk-ports.cpp (enumeration and buffer are judged, dispatch is not: such a port cannot be dispatched "
        "into; not covered by the theorems); siblings with prefix-unrelated heads (strict dispatch check) and, in a 'messy' "
        "share, clashing ones (weak dispatch check); buffers holding the prefixes '' (second byte zero, then junk) '/' "
        "'/pre/' '/p' and a long one, junk bytes behind the terminator, the block holding the longest address, its "
        "terminator and 32..72 spare bytes; default options only (expand_bundles=false and ranges=true are not part of the "
        "statement and not generated).  R (runtime object): the four compiled trees of harness/walk_rt.h built with the "
        "real macros rRecur/rRecurp/rRecurs/rRecursp/rSelf/rEnabledBy — guards by a toggle at the level of the guarded "
        "port, inside the guarded sub-tree (x/t), on a table's own self: port, on every element of an rRecurs; guards by an "
        "integer parameter (rParamI: answers 0, 1, 2, 256, -1, INT_MIN, INT_MAX) on a sub-tree and on a self: port; member "
        "names with digits in front of the '#' (s0x#2/, k1p#2/); enumerations of 11 and 12 elements; depth 3, about 250 "
        "leaves — under random assignments of every toggle, integer and pointer; table addresses '' '/' '/zz/' '/a0/b/' and, "
        "in 10% of the cases, 250..985 characters long; buffer_size equal to or smaller than the block, down to the address "
        "of the toggle plus terminator plus 0..4 for a flat table that switches itself off.  D (runtime object on random "
        "trees): the random trees of W (strict names, depth 2..4, no K1 leaf) with 'enabled by' properties put on them — on "
        "a table's own self: port (35% of the tables, at any depth), on sub-tree ports of one path component (60%): naming "
        "a row of the same table or, for names without '#', a row of the sub-tree's own table (name/port); enabling ports "
        "q<nn>::T:F and q<nn>::i — walked with a random abstract object (15% NULL children, answers F / 0 in a third of "
        "the cases) that the harness' own callbacks serve to the library's \"pointer\" and \"enabled by\" queries; next to "
        "half of the enabling ports one or two rows whose names begin like the enabling port's name (q05x, q05_on, q051) "
        "or are a beginning of it (q0, q), three quarters of them declared in front of it, with answers of their own "
        "(Ports::operator[] must compare whole names).  15% of the W and D trees are 'families': 3..5 rows per table "
        "over {a,b,c}(+{x,y,z} as first character), two or three rows of equal length that share a beginning and "
        "differ at one position s in 1..4, the other names - sub-tree names above all - one shorter than, as long as, one "
        "longer than that position, three quarters of these tables without any '#N': the tables for which the library "
        "builds a perfect hash with a selected position behind the first character.  For every reported pair the "
        "address is sent back through Ports::dispatch - W and D: without a location buffer (linear search of every "
        "table) and with one (exact-size block for '/' + address + NUL; every table looked up by the strategy the "
        "library picked for it); R: with one.  Reported pairs are compared as multisets (sorted by harness and "
        "driver); the report of an enabling port inside the table it switches off, which the statement leaves open, is "
        "named in the op line (opt=) and dropped by both sides.  non-trivial: the tree has a '#' or a sub-table; distinct "
        "= distinct op line")
ASSUMPTIONS = ["port names have the form head #N1 text1 … #Nk textk ['/'] [:types]: literal text without NUL # { * :, numbers "
               "below 2^31, text behind a number not beginning with a digit and empty only at the end; a sub-tree name begins "
               "with text, ends in '/' and has every N >= 1 ({} alternatives in port names are not expanded by the walker and "
               "are outside the property)",
               "generated names use bytes 1..126 only (Ports::refreshMagic indexes a 127-entry table with the name's chars)",
               "the library is built with NDEBUG (as the default build is): walk_ports_recurse asserts old_end - name_buffer "
               "<= 255, walk_ports_recurse0 and bundle_foreach assert 32 resp. 17 spare bytes in buffer_size; with the asserts "
               "compiled in, a walk with a runtime object below an address longer than 255 characters or with a tight "
               "buffer_size aborts",
               "the caller's block holds the longest address the walk writes into it plus its terminator (theorems: exactly "
               "that; generated cases: 32 or more spare bytes, how much spare room a walk may use is not part of the "
               "statement); buffer_size itself is never looked at by the walk (with fixes/C09-enabled-loc-copy-size.patch; "
               "before it the address of a reported enabling port depended on it); an empty buffer has a second NUL byte "
               "(ports.h asks for an all-zero buffer)",
               "dispatch of a reported address: every digit run of the address is below 2^31 (C05's IdxBounded; literal text of "
               "a name may hold a digit run of any length, so this does not follow from the form of the names and cannot be "
               "dropped: dispatch_needs_idxBounded; it follows from the decidable condition DigitsShort on the names - a "
               "digit run of literal text plus the digits of a following #N is at most nine characters long - by "
               "reported_idxBounded, and the ..._short theorems are stated with it); 'only the reported port' needs sibling names that do not answer to a common "
               "address (SiblingsApart; decidable sufficient condition HeadsApart: siblingsApart_of_headsApart); no leaf name "
               "is empty in front of a type part (LeavesNamed: a port whose whole name is ':i', below a sub-tree, makes "
               "rtosc_argument_string take the type string for the address, dispatch_empty_leaf_counterexample; not generated); "
               "the type string of the message must be admitted by every port on the way, typed sub-tree ports included "
               "(admittedAlong; the harness sends the reported leaf's first alternative, the oracle does not judge pairs below a "
               "typed sub-tree port); against C04's model of Ports::dispatch additionally: sub-tree names of one path component "
               "and no leaf name empty in front of '/' and type part (PortsFlat: the recursion callbacks of port-sugar.h cut "
               "exactly one component)",
               "runtime clause: 'enabled by' names a port of the table that contains the guarded port, or (form name/port, "
               "only for a sub-tree name without '#': port_is_enabled compares the texts of the names) of the guarded "
               "sub-tree's own table; that port answers T, F or an integer (non-zero = enabled); sub-tree names of one path "
               "component (\"../\" removes one component); the query path (get_value_from_runtime, Capture, the callbacks) "
               "is tied by correspondence only; addresses up to 1014 characters (walk_ports_recurse copies the address and "
               "\"pointer\" into char[1024]; generated: up to 1000)",
               "the statement fixes no order of the reports and says nothing about the report of an enabling port that sits "
               "inside the table it switches off (ports.cpp: 'an enabling port must always be traversed'): the oracle accepts "
               "that report and its absence, the model (which makes it) is compared without it"]
TRUSTED = ["hand-written model RtoscModel/Walk/{Buf,Model}.lean of walk_ports, walk_ports_recurse0, walk_ports_recurse, "
           "port_is_enabled, bundle_foreach, scat (with fixes/C09-recurse0-strchr, C09-recurse0-index-text, "
           "C09-enabled-subport-runtime, C09-enabled-loc-copy-size applied), and of atoi / snprintf(\"%d\") / strlen as used there",
           "C05's model of rtosc_match (dispatch of the reported addresses), C17's model of the metadata reader, C18's models "
           "of Ports::operator[] and collapsePath, imported unchanged",
           "dispatch clause: the driver's dispatch model RtoscModel/Walk/Dispatch.lean (dispatchSim: Ports::dispatch without "
           "location buffer over C05's rtosc_match, with the harness' own callbacks) and C04's model of Ports::dispatch "
           "(RtoscModel/Ports/{Tree,Hash,Dispatch}.lean, recursion callbacks as rRecurCb) with C04's theorems "
           "dispatch_linear_iff / dispatch_loc_iff / dispatch_unique, imported unchanged (module Props/C09Ports.lean)",
           "abstract runtime object (child object or NULL per sub-tree address, answer T / F / integer per enabling port) in "
           "place of the callbacks; the scratch buffers char[1024] of walk_ports_recurse are not modelled (assumption on the "
           "address length)"]
LEVEL_TEXT = ("Lean theorems: walk_eq_enumerate_partial / walk_reports_exactly_once / walk_restores_buffer / "
              "walked_address_dispatches / walked_address_dispatched (the dispatch model the driver runs) / "
              "walked_address_dispatches_ports (C04's model of Ports::dispatch, with and without location buffer) hold for "
              "all well-formed trees of any depth and size, every prefix and every buffer "
              "with enough room (no bound); the models they are about are compared with the compiled implementation "
              "(ASan/UBSan, names in exact-size allocations) on thousands of generated trees per run, and an independent Python "
              "reference of the statement (enumeration as a multiset, buffer, dispatch, pruning) is evaluated on the "
              "implementation's output")
LEVEL_NOTE = ("walk_eq_enumerate is partial: leaf names with more than one '#' are excluded (known finding C09-K1, "
              "walk_eq_enumerate_counterexample).  The pruning clause is proved in full on the abstract runtime "
              "(walk_prunes: NULL pointers and 'enabled by' ports answering T / F / an integer, at every depth, with the "
              "buffer restored) for sub-tree names of one path component and guards placed where port_is_enabled looks "
              "for them (GuardsOK, PathPrefix); for multi-component sub-tree names only pruning by NULL pointers is proved "
              "(walk_prunes_partial).  What the runtime object answers (get_value_from_runtime, Capture, the sugar "
              "callbacks) is outside the Lean model: it is tied by correspondence on the four compiled trees.  "
              "The dispatch clause is proved against two models of Ports::dispatch.  (1) dispatchSim, the model the "
              "driver runs (no location buffer, rtosc_match of C05 on every row with its type part, the callback of a "
              "sub-tree port skipping as many components as its name has, as the harness' callbacks do): for every "
              "well-formed tree, multi-component sub-tree names included, the message to a reported address returns with "
              "exactly the reported port called if its type string is admitted by the reported leaf and by every typed "
              "sub-tree port on the way, and with no callback otherwise (walked_address_dispatched; "
              "walked_address_reaches_port for trees without typed sub-tree ports; walked_address_dispatched_among without "
              "SiblingsApart).  (2) C04's model (with and without location buffer, every lookup strategy, recursion "
              "callbacks as rRecurCb), through an embedding of this property's tree type into C04's "
              "(ports_table_is_rendering, ports_table_wf): exactly the callbacks of the ports on the index path are "
              "invoked, each once (walked_address_dispatches_ports) - for sub-tree names of one path component only, "
              "because C04's recursion callback cuts one component; for multi-component sub-tree names only (1) is "
              "proved, and (1) and (2) are not linked to each other in Lean.  Hypotheses with a machine-checked witness "
              "that they cannot be dropped: IdxBounded on the reported address - it does not follow from TreeWF "
              "(dispatch_needs_idxBounded: the rows 'a#3' and 'a4294967297' answer to no common address, yet atoi's "
              "32-bit wrap makes the first answer to the second's address); it is replaced by the decidable condition "
              "DigitsShort on the names in reported_idxBounded / walked_address_dispatched_short / "
              "walked_address_dispatches_ports_short - and LeavesNamed "
              "(dispatch_empty_leaf_counterexample).  That the real sugar callbacks (rRecur / rRecurs / rRecurp with "
              "their index extraction) behave like the modelled recursion callbacks is tied by correspondence only.  "
              "The theorems fix the order of the reports; "
              "the statement does not, and harness, driver and oracle compare multisets")
TECHNIQUE = "machine-checked proof over a hand-written executable model + differential correspondence + independent oracle"


def hx(b):
    return b.hex() if b else "-"


def unhx(s):
    return b"" if s == "-" else bytes.fromhex(s)


# ------------------------------------------------------------------ trees
class Port:
    __slots__ = ("name", "meta", "sub")

    def __init__(self, name, meta, sub):
        self.name, self.meta, self.sub = name, meta, sub


def show_tree(ports):
    return "[" + ",".join("%s;%s;%s" % (hx(p.name), "N" if p.meta is None else hx(p.meta),
                                         "0" if p.sub is None else show_tree(p.sub)) for p in ports) + "]"


def parse_tree(s):
    def ports(i):
        assert s[i] == "["
        i += 1
        out = []
        if s[i] == "]":
            return out, i + 1
        while True:
            j = s.index(";", i)
            name = unhx(s[i:j]).split(b"\0")[0]
            i = j + 1
            j = s.index(";", i)
            meta = None if s[i:j] == "N" else unhx(s[i:j])
            i = j + 1
            if s[i] == "0":
                sub = None
                i += 1
            else:
                sub, i = ports(i)
            out.append(Port(name, meta, sub))
            if s[i] == ",":
                i += 1
                continue
            assert s[i] == "]"
            return out, i + 1
    t, i = ports(0)
    assert i == len(s)
    return t


# ------------------------------------------------------------------ names (independent reading of the statement)
class WName:
    __slots__ = ("head", "parts", "slash", "types")


@functools.lru_cache(maxsize=4096)
def parse_name(name):
    """head #N text … ['/'] [:types]  ->  WName (not to be modified: cached)"""
    w = WName()
    body, sep, ty = name.partition(b":")
    w.types = ty.split(b":") if sep else None
    w.slash = body.endswith(b"/")
    if w.slash:
        body = body[:-1]
    segs = body.split(b"#")
    w.head = segs[0]
    w.parts = []
    for s in segs[1:]:
        m = re.match(rb"(\d*)(.*)$", s, re.S)
        w.parts.append((m.group(1), m.group(2)))
    return w


BAD_TEXT = set(b"\0#{*:")


def text_ok(t):
    return not (set(t) & BAD_TEXT)


def name_ok(w, is_sub, strict=True):
    if not text_ok(w.head):
        return False
    for k, (ds, t) in enumerate(w.parts):
        if not ds or int(ds) >= 2 ** 31 or not text_ok(t) or t[:1].isdigit():
            return False
        if not t and k + 1 < len(w.parts):
            return False
    if w.types is not None and any(b"#" in a or b"\0" in a for a in w.types):
        return False
    last = w.parts[-1][1] if w.parts else w.head
    if not w.slash and last.endswith(b"/"):
        return False
    if is_sub:
        if not w.head or any(int(ds) < 1 for ds, _ in w.parts):
            return False
        if strict and not w.slash:
            return False
    return True


def tree_ok(ports, strict=True):
    """strict: the trees of the theorems.  not strict: a sub-tree name may lack its trailing '/' (the walker
    appends it, test/walk-ports.cpp walks such tables; dispatch cannot descend into such a port)"""
    for p in ports:
        w = parse_name(p.name)
        if not name_ok(w, p.sub is not None, strict):
            return False
        if p.sub is not None and not tree_ok(p.sub, strict):
            return False
    return True


def multi_hash_leaf(ports):
    """trigger predicate of C09-K1"""
    for p in ports:
        if p.sub is None:
            if len(parse_name(p.name).parts) >= 2:
                return True
        elif multi_hash_leaf(p.sub):
            return True
    return False


def expand(parts):
    """every `#N` expanded to 0..N-1, leftmost outermost"""
    out = [b""]
    for ds, t in reversed(parts):
        out = [b"%d" % i + t + a for i in range(int(ds)) for a in out]
    return out


def render_parts(parts):
    return b"".join(b"#" + ds + t for ds, t in parts)


def expand_first(parts):
    """what bundle_foreach does (finding C09-K1)"""
    if not parts:
        return [b""]
    ds, t = parts[0]
    return [b"%d" % i + t + render_parts(parts[1:]) for i in range(int(ds))]


def enumerate_tree(ports, pre, path=(), leaf_expand=expand):
    """the statement: (index path, address) of every leaf under every concrete address"""
    out = []
    for i, p in enumerate(ports):
        w = parse_name(p.name)
        if p.sub is None:
            for a in leaf_expand(w.parts):
                out.append((path + (i,), pre + w.head + a + (b"/" if w.slash else b"")))
        else:
            for a in expand(w.parts):
                out += enumerate_tree(p.sub, pre + w.head + a + b"/", path + (i,), leaf_expand)
    return out


def need(ports):
    """length of the longest string written behind the table's address"""
    n = 0
    for p in ports:
        w = parse_name(p.name)
        if p.sub is None:
            ex = expand_first(w.parts)
            k = len(w.head) + max([len(a) for a in ex] + [0]) + (1 if w.slash else 0)
        else:
            ex = expand(w.parts)
            k = len(w.head) + max([len(a) for a in ex] + [0]) + 1 + need(p.sub)
        n = max(n, k)
    return n


def heads_apart(ports):
    hs = [parse_name(p.name).head for p in ports]
    for i in range(len(hs)):
        for j in range(len(hs)):
            if i != j and hs[j].startswith(hs[i]):
                return False
    return True


def apart_along(ports, ix):
    for i in ix:
        if not heads_apart(ports):
            return False
        ports = ports[i].sub or []
    return True


def disp_mode(ports, ix):
    """how strictly the dispatch of a reported address is judged: a typed sub-tree port on the way constrains the
    arguments of the whole message (C05's business) -> not judged; clashing sibling heads -> the reported port must be
    among the receivers; otherwise it must be the only receiver"""
    mode = "strict"
    for k, i in enumerate(ix):
        if not heads_apart(ports):
            mode = "weak"
        if k + 1 < len(ix):
            if b":" in ports[i].name:
                return "skip"
            ports = ports[i].sub or []
    return mode


def ixs(ix):
    return ".".join(str(i) for i in ix)


# ------------------------------------------------------------------ generator: static walk
HEADS = [b"a", b"b", b"c", b"x", b"y", b"k", b"ab", b"ba", b"osc", b"p1", b"v-", b"Z_", b"e/f", b"m.n"]
TEXTS_MID = [b"/b", b"/c", b"b", b"/c/d", b"_x", b"/e1"]
TEXTS_LAST = [b"", b"", b"", b"/c", b"y", b"b", b"/q/r"]
TYPES = [b"", b"", b"", b":i", b"::i", b":s:", b"::T:F", b":", b":f:i"]


def rand_num(rng, is_sub=True):
    """N of an enumeration: small, two digits, three digits (zynaddsubfx has #128 arrays); a leaf may have N = 0"""
    r = rng.random()
    if r < 0.78:
        return rng.randint(1, 3)
    if r < 0.90:
        return rng.randint(10, 12)
    if r < 0.92:
        return rng.choice([100, 101, 128, 130])
    if r < 0.94 and not is_sub:
        return 0
    return rng.choice([4, 5, 1, 1])


def rand_name(rng, is_sub, heads_used, messy, stats, head=None, noparts=False):
    if head is None:
        for _ in range(50):
            head = rng.choice(HEADS)
            if messy or not any(h.startswith(head) or head.startswith(h) for h in heads_used):
                break
        else:
            head = b"u%d" % len(heads_used) + b"_"
    heads_used.append(head)
    r = rng.random()
    if noparts:
        nparts = 0
    elif is_sub:
        nparts = 0 if r < 0.35 else (1 if r < 0.75 else 2)
    else:
        nparts = 0 if r < 0.6 else (1 if r < 0.985 else 2)
    parts = []
    big = False
    for k in range(nparts):
        n = rand_num(rng, is_sub)
        if n >= 10:
            if big:
                n = 2
            big = True
        last = k == nparts - 1
        t = rng.choice(TEXTS_LAST if last else TEXTS_MID)
        parts.append((b"%d" % n, t))
    slash = (rng.random() < 0.93) if is_sub else rng.random() < 0.12
    last = parts[-1][1] if parts else head
    body = head + render_parts(parts)
    if not slash and last.endswith(b"/"):
        slash = True
    types = rng.choice(TYPES) if (not is_sub or rng.random() < 0.25) else b""
    name = body + (b"/" if slash else b"") + types
    h = stats.setdefault("enums_per_name", {})
    h[str(nparts)] = h.get(str(nparts), 0) + 1
    return name


FAM_ALPH = b"abc"


def fam_word(rng, n, first=None):
    w = bytes(rng.choice(FAM_ALPH) for _ in range(n))
    return (bytes([rng.choice(first)]) + w[1:]) if first and n else w


def family_heads(rng, roles, messy):
    """heads for a table in which names of equal length share a beginning and differ at one position s (what makes
    the library's perfect hash select a position behind the first character), next to names — sub-tree names above
    all — whose length lies around that position: one shorter, equal, one longer (the hash adds the character at a
    selected position only when it lies inside the first component of the address).  roles[k]: port k has a sub-table;
    at least two ports have none."""
    n = len(roles)
    s = rng.choice([1, 2, 2, 3, 3, 4])
    stem = fam_word(rng, s)
    leaves = [k for k in range(n) if not roles[k]]
    members = leaves[:rng.choice([2, 2, 3])]
    letters = rng.sample(list(FAM_ALPH), len(members))
    tail = fam_word(rng, rng.choice([0, 0, 1]))
    heads = [None] * n
    for k, l in zip(members, letters):
        heads[k] = stem + bytes([l]) + tail
    for k in range(n):
        if heads[k] is not None:
            continue
        for _ in range(30):
            # a sub-tree name has its '/' behind the head
            ln = max(1, (s - 1 if roles[k] else s) + rng.choice([-1, 0, 0, 0, 1]))
            h = fam_word(rng, ln, b"xyz" if rng.random() < 0.6 else None)
            used = [x for x in heads if x is not None]
            if h in used:
                continue
            if messy or not any(x.startswith(h) or h.startswith(x) for x in used):
                break
        else:
            h = b"u%d_" % k
        heads[k] = h
    return heads


def rand_tree(rng, depth, messy, stats, budget, fam=False):
    """budget: upper bound for the number of walker calls of this table.  fam: the tables are 'families' (see
    family_heads), three quarters of them without any '#N' — tables for which the library builds a perfect hash"""
    n = rng.randint(3, 5) if fam else rng.randint(1, 4)
    roles = [depth > 1 and rng.random() < 0.45 for _ in range(n)]
    fheads, plain = None, False
    if fam:
        roles[:2] = [False, False]
        rng.shuffle(roles)
        fheads = family_heads(rng, roles, messy)
        plain = rng.random() < 0.75
    ports = []
    heads = []
    for k in range(n):
        issub = roles[k]
        name = rand_name(rng, issub, heads, messy, stats, fheads[k] if fam else None, plain)
        w = parse_name(name)
        mult = 1
        for ds, _ in w.parts:
            mult *= max(1, int(ds))
        if mult > budget:
            name = w.head + (b"/" if issub else b"")
            mult = 1
        sub = rand_tree(rng, depth - 1, messy, stats, max(1, budget // (mult * n)), fam) if issub else None
        if issub and rng.random() < 0.04:
            sub = []
        ports.append(Port(name, None, sub))
    return ports


PREFIXES = [b"", b"", b"/", b"/", b"/pre/", b"/p", b"/a0/b/", b"/quite/a/long/prefix/for/the/walk/"]


def make_buffer(rng, prefix, room, stats):
    """prefix, terminator, then `room` bytes: junk, zeros or a mixture"""
    kind = rng.random()
    if kind < 0.4:
        junk = bytes(rng.choice(b"\x55Uz/#:\x01\x7e") for _ in range(room))
        stats["junk_buffers"] = stats.get("junk_buffers", 0) + 1
    elif kind < 0.7:
        junk = bytes(room)
    else:
        junk = bytes(rng.choice(b"\0\0z#") for _ in range(room))
    if not prefix:
        # the empty buffer: the byte behind the terminator must be NUL as well
        return b"\0\0" + junk
    return prefix + b"\0" + junk


SPARE = 32
FAM_SHARE = 0.15


def gen_static(rng, tier, stats):
    st = stats.setdefault("static", {"trees": 0, "messy": 0, "empty_prefix": 0, "k1_trees": 0, "three_digit_trees": 0,
                                     "depth_hist": {}, "calls_hist": {}})
    ntrees = 7200 if tier == "quick" else 100000
    for _ in range(ntrees):
        depth = rng.choice([1, 2, 2, 3, 3, 4])
        messy = rng.random() < 0.2
        fam = rng.random() < FAM_SHARE
        tree = rand_tree(rng, depth, messy, st, 400, fam)
        st["family_trees"] = st.get("family_trees", 0) + fam
        assert tree_ok(tree, False), show_tree(tree)
        st["slashless_subtree_names"] = st.get("slashless_subtree_names", 0) + (not tree_ok(tree))
        prefix = rng.choice(PREFIXES)
        eff = prefix or b"/"
        nd = need(tree)
        # the block: the longest address, its terminator and at least 32 spare bytes (walk_ports_recurse0 asserts
        # that much in debug builds; how much more than the longest address is needed is not part of the statement)
        room = nd + SPARE + rng.randint(0, 40)
        buf = make_buffer(rng, prefix, room, st)
        ncalls = len(enumerate_tree(tree, eff, (), expand_first))
        st["trees"] += 1
        st["messy"] += messy
        st["empty_prefix"] += not prefix
        st["k1_trees"] += multi_hash_leaf(tree)
        st["three_digit_trees"] += bool(re.search(r"23(3\d){3}", show_tree(tree)))
        st["depth_hist"][str(depth)] = st["depth_hist"].get(str(depth), 0) + 1
        b = str(min(ncalls, 512).bit_length())
        st["calls_hist"]["<2^" + b] = st["calls_hist"].get("<2^" + b, 0) + 1
        yield "W %s %s 10" % (show_tree(tree), hx(buf))


# ------------------------------------------------------------------ generator: runtime
_COMPILED = None
NTREES = 4


def compiled_trees():
    """shape of the trees compiled into the harness (names and metadata as the real macros produce them)"""
    global _COMPILED
    if _COMPILED is None:
        import vlib
        exe = vlib.build_harness(ENGINE, HARNESS)
        os.makedirs(vlib.BUILD, exist_ok=True)
        fn = os.path.join(vlib.BUILD, "c09-trees-%d.ops" % os.getpid())
        with open(fn, "w") as f:
            f.write("".join("T %d\n" % i for i in range(NTREES)))
        try:
            out = subprocess.run([exe, fn], stdout=subprocess.PIPE, stderr=subprocess.PIPE, text=True, env=vlib.HENV).stdout
        finally:
            os.remove(fn)
        _COMPILED = [l[2:] for l in out.split("\n") if l.startswith("T [")]
        assert len(_COMPILED) == NTREES, out
    return _COMPILED


@functools.lru_cache(maxsize=16)
def compiled_table(ts):
    """(tree, need) of a compiled tree's text (not to be modified: cached)"""
    t = parse_tree(ts)
    return t, need(t)


def meta_entries(block):
    """{key: value or None} of a metadata block as the macros write it"""
    out = {}
    if not block:
        return out
    items = block.split(b"\0")
    key = None
    for it in items:
        if it.startswith(b":"):
            key = it[1:]
            out.setdefault(key, None)
        elif it.startswith(b"=") and key is not None:
            if out[key] is None:
                out[key] = it[1:]
        elif it == b"":
            break
    return out


def lit(name):
    return name.split(b":")[0]


def guard_names(table, acc=None):
    """last components of all "enabled by" values of the tree"""
    acc = set() if acc is None else acc
    for p in table:
        g = meta_entries(p.meta).get(b"enabled by")
        if g is not None:
            acc.add(g.split(b"/")[-1])
        if p.sub is not None:
            guard_names(p.sub, acc)
    return acc


INT_ANSWERS = [0, 0, 0, 1, 1, 2, 256, -1, -2147483648, 2147483647]


def rand_obj(rng, table, stats, guards=None):
    """random runtime object for a table: (answers, kids); an answer is ('b', 0|1) for a toggle and ('i', n) for an
    integer parameter that some "enabled by" names"""
    if guards is None:
        guards = guard_names(table)
    tog = {}
    kids = {}
    for p in table:
        if p.sub is None:
            ty = p.name.partition(b":")[2]
            if b"T" in ty:
                tog[lit(p.name)] = ("b", int(rng.random() < 0.7))
            elif b"i" in ty and lit(p.name) in guards and b"#" not in p.name:
                tog[lit(p.name)] = ("i", rng.choice(INT_ANSWERS))
                stats["int_guards"] = stats.get("int_guards", 0) + 1
        else:
            w = parse_name(p.name)
            pointer = meta_entries(p.meta).get(b"documentation") == b"pointer"
            for a in expand(w.parts):
                rel = w.head + a + b"/"
                if pointer and rng.random() < 0.3:
                    kids[rel] = None
                    stats["null_pointers"] = stats.get("null_pointers", 0) + 1
                else:
                    kids[rel] = rand_obj(rng, p.sub, stats, guards)
    stats["toggles_off"] = stats.get("toggles_off", 0) + sum(1 for v in tog.values() if not v[1])
    return (tog, kids)


def show_ans(v):
    return "i%d" % v[1] if v[0] == "i" else "%d" % v[1]


def show_obj(o):
    tog, kids = o
    t = ",".join("%s=%s" % (hx(k), show_ans(v)) for k, v in tog.items()) or "-"
    k = ",".join("%s=%s" % (hx(r), "N" if c is None else show_obj(c)) for r, c in kids.items()) or "-"
    return "{%s|%s}" % (t, k)


def parse_obj(s):
    def obj(i):
        assert s[i] == "{"
        i += 1
        tog = {}
        kids = {}
        if s[i] == "-":
            i += 1
        else:
            while True:
                j = s.index("=", i)
                if s[j + 1] == "i":
                    m = re.match(r"-?\d+", s[j + 2:j + 16])
                    tog[unhx(s[i:j])] = ("i", int(m.group(0)))
                    i = j + 2 + m.end()
                else:
                    tog[unhx(s[i:j])] = ("b", int(s[j + 1] == "1"))
                    i = j + 2
                if s[i] == ",":
                    i += 1
                    continue
                break
        assert s[i] == "|"
        i += 1
        if s[i] == "-":
            i += 1
        else:
            while True:
                j = s.index("=", i)
                rel = unhx(s[i:j])
                i = j + 1
                if s[i] == "N":
                    kids[rel] = None
                    i += 1
                else:
                    kids[rel], i = obj(i)
                if s[i] == ",":
                    i += 1
                    continue
                break
        assert s[i] == "}"
        return (tog, kids), i + 1
    o, i = obj(0)
    assert i == len(s)
    return o


def answers_true(tog, name):
    """an "enabled by" port answers true: T, or an integer other than 0"""
    v = tog.get(name)
    return v is not None and v[1] != 0


def table_index(table, key):
    """Ports::operator[]"""
    for i, p in enumerate(table):
        if p.name == key or p.name.startswith(key + b":"):
            return i
    return None


def pruned(table, obj, pre, path=()):
    """the pruning clause -> (must, open): `must` = every leaf under every concrete address outside the sub-trees
    whose object is NULL or whose "enabled by" port answers false; `open` = the enabling ports that sit inside the
    table they switch off: the statement says that table is skipped, ports.cpp reports the toggle nevertheless
    ("an enabling port must always be traversed") - reporting it or not is left open here"""
    tog, kids = obj
    si = table_index(table, b"self:")
    if si is not None:
        g = meta_entries(table[si].meta).get(b"enabled by")
        if g is not None and not answers_true(tog, g):
            k = table_index(table, g)
            return [], [(path + (k,), pre + g)]
    must, opn = [], []
    for i, p in enumerate(table):
        w = parse_name(p.name)
        if p.sub is None:
            for a in expand(w.parts):
                must.append((path + (i,), pre + w.head + a + (b"/" if w.slash else b"")))
        else:
            g = meta_entries(p.meta).get(b"enabled by")
            for a in expand(w.parts):
                rel = w.head + a + b"/"
                kid = kids.get(rel)
                if kid is None:
                    continue
                if g is not None and b"/" in g:
                    # the toggle is a row of the sub-tree's own table: asked on the sub-tree's object
                    t = g.split(b"/", 1)[1]
                    if not answers_true(kid[0], t):
                        opn.append((path + (i, table_index(p.sub, t)), pre + rel + t))
                        continue
                elif g is not None and not answers_true(tog, g):
                    continue
                m2, o2 = pruned(p.sub, kid, pre + rel, path + (i,))
                must += m2
                opn += o2
    return must, opn


def pair_key(ix, addr):
    return "%s:%s" % (ixs(ix), hx(addr))


def is_flat(table):
    return all(p.sub is None for p in table)


def gen_runtime(rng, tier, stats):
    st = stats.setdefault("runtime", {"cases": 0, "per_tree": {}, "long_prefix": 0, "tight_size": 0, "open_reports": 0})
    trees = compiled_trees()
    tables = [parse_tree(ts) for ts in trees]
    needs = [need(t) for t in tables]
    n = 2400 if tier == "quick" else 33000
    for _ in range(n):
        tid = rng.choice([0, 0, 0, 1, 1, 1, 2, 2, 3, 3])
        ts, table = trees[tid], tables[tid]
        obj = rand_obj(rng, table, st)
        r = rng.random()
        if r < 0.1:
            # the table sits deep in an application: addresses of 250..990 characters (walk_ports_recurse works on a
            # copy in char[1024]); mostly just above 256 (C18's model of collapsePath is quadratic in the length)
            total = rng.choice([250, 256, 257, 258, 272, 273, 300, 330, rng.randint(250, 340), rng.randint(250, 340),
                                511, 512, 900, 985 - needs[tid], rng.randint(340, 985 - needs[tid])])
            comps = []
            left = total - 1
            while left > 0:
                k = min(left - 1, rng.randint(1, 60))
                comps.append(bytes(rng.choice(b"abcxyz_-") for _ in range(k)) + b"/")
                left -= k + 1
            prefix = b"/" + b"".join(comps)
            st["long_prefix"] += 1
        else:
            prefix = rng.choice([b"", b"/", b"/zz/", b"/a0/b/"])
        eff = prefix or b"/"
        must, opn = pruned(table, obj, eff)
        buf = make_buffer(rng, prefix, needs[tid] + SPARE + rng.randint(0, 40), st)
        toks = []
        # buffer_size: the size of the block, or less.  Where debug builds assert spare room (walk_ports_recurse0: 32
        # bytes, bundle_foreach: 17) it stays; a table without sub-tree ports that switches itself off writes
        # nothing: there the size may be as small as the address of its toggle plus the terminator
        r = rng.random()
        if r < 0.5:
            if is_flat(table) and not must:
                longest = max([len(a) for _, a in opn] + [len(eff)])
                toks.append("sz=%d" % (longest + 1 + rng.randint(0, 4)))
                st["tight_size"] += 1
            else:
                toks.append("sz=%d" % min(len(buf), len(eff) + needs[tid] + 1 + SPARE + rng.randint(0, 8)))
        # the reports left open are dropped from both outputs
        toks.append("opt=" + (",".join(pair_key(ix, a) for ix, a in opn) or "-"))
        st["open_reports"] += len(opn)
        st["cases"] += 1
        st["per_tree"][str(tid)] = st["per_tree"].get(str(tid), 0) + 1
        yield "R %d %s %s %s %s" % (tid, ts, show_obj(obj), hx(buf), " ".join(toks))


# ------------------------------------------------------------------ generator: runtime on random trees
def flat_sub_name(p):
    """a sub-tree name of one path component (what "../" in port_is_enabled removes)"""
    w = parse_name(p.name)
    return (w.slash and b"/" not in w.head and w.head not in (b"..", b"")
            and all(b"/" not in t for _, t in w.parts))


def guard_block(g):
    return b":enabled by\0=" + g + b"\0\0"


def add_guards(rng, table, stats, counter):
    """put "enabled by" properties on a random tree: on a table's own self: port, on a sub-tree port naming a port of
    the same table, on a sub-tree port without '#' naming a port of its own table (name/port); the enabling ports are
    new rows q<nn>::T:F or q<nn>::i"""
    def new_toggle(tab):
        counter[0] += 1
        kind = b"::T:F" if rng.random() < 0.65 else b"::i"
        tab.append(Port(b"q%02d" % counter[0] + kind, None, None))
        return b"q%02d" % counter[0]
    subs = [p for p in table if p.sub is not None]
    for p in subs:
        add_guards(rng, p.sub, stats, counter)
    for p in subs:
        if counter[0] >= 95 or not flat_sub_name(p) or rng.random() < 0.4:
            continue
        w = parse_name(p.name)
        if not w.parts and rng.random() < 0.4:
            t = new_toggle(p.sub)
            p.meta = guard_block(w.head + b"/" + t)
            stats["inner_guards"] = stats.get("inner_guards", 0) + 1
        else:
            old = [lit(q.name) for q in table if q.sub is None and q.name.startswith(b"q")]
            t = rng.choice(old) if old and rng.random() < 0.3 else new_toggle(table)
            p.meta = guard_block(t)
            stats["sibling_guards"] = stats.get("sibling_guards", 0) + 1
    if counter[0] < 95 and rng.random() < 0.35 and table_index(table, b"self:") is None:
        old = [lit(q.name) for q in table if q.sub is None and q.name.startswith(b"q")]
        t = rng.choice(old) if old and rng.random() < 0.3 else new_toggle(table)
        table.insert(rng.randint(0, len(table)), Port(b"self:", guard_block(t), None))
        stats["self_guards"] = stats.get("self_guards", 0) + 1


def add_decoys(rng, table, stats):
    """next to enabling ports, rows whose names begin like the enabling port's name (q05x, q05_on, q051) or are a
    beginning of it (q0, q), declared in front of it (mostly) or behind it, with answers of their own: the lookup of
    the "enabled by" port (Ports::operator[]) must compare whole names"""
    for p in table:
        if p.sub is not None:
            add_decoys(rng, p.sub, stats)
    guards = set()
    for p in table:
        g = meta_entries(p.meta).get(b"enabled by")
        if g is not None and b"/" not in g:
            guards.add(g)
        elif g is not None and p.sub is not None:
            pass                                    # name/port: a row of the sub-tree's table, visited there
    for p in table:
        if p.sub is not None:
            g = meta_entries(p.meta).get(b"enabled by")
            if g is not None and b"/" in g:
                inner = g.split(b"/", 1)[1]
                _decoys_for(rng, p.sub, inner, stats)
    for g in sorted(guards):
        _decoys_for(rng, table, g, stats)


def _decoys_for(rng, table, g, stats):
    k = table_index(table, g)
    if k is None or rng.random() < 0.45:
        return
    for _ in range(rng.choice([1, 1, 2])):
        if rng.random() < 0.75:
            nm = g + rng.choice([b"x", b"_on", b"1", b".b", b"-", b"q"])
        else:
            nm = g[:rng.randint(1, len(g) - 1)]
        if any(lit(q.name) == nm for q in table):
            continue
        kind = b"::T:F" if rng.random() < 0.65 else b"::i"
        k = table_index(table, g)
        at = rng.randint(0, k) if rng.random() < 0.75 else rng.randint(k + 1, len(table))
        table.insert(at, Port(nm + kind, None, None))
        stats["prefix_siblings"] = stats.get("prefix_siblings", 0) + 1
        stats["prefix_siblings_in_front"] = stats.get("prefix_siblings_in_front", 0) + (at <= k)


def rand_dyn_obj(rng, table, stats):
    tog, kids = {}, {}
    for p in table:
        if p.sub is None:
            if p.name.startswith(b"q"):
                if p.name.endswith(b"::T:F"):
                    tog[lit(p.name)] = ("b", int(rng.random() < 0.65))
                else:
                    tog[lit(p.name)] = ("i", rng.choice(INT_ANSWERS))
        else:
            w = parse_name(p.name)
            for a in expand(w.parts):
                rel = w.head + a + b"/"
                if rng.random() < 0.15:
                    kids[rel] = None
                    stats["null_pointers"] = stats.get("null_pointers", 0) + 1
                else:
                    kids[rel] = rand_dyn_obj(rng, p.sub, stats)
    return (tog, kids)


def gen_dynamic(rng, tier, stats):
    st = stats.setdefault("dynamic_runtime", {"cases": 0, "depth_hist": {}})
    n = 2500 if tier == "quick" else 35000
    made = 0
    while made < n:
        depth = rng.choice([2, 2, 3, 3, 4])
        fam = rng.random() < FAM_SHARE
        tree = rand_tree(rng, depth, False, st, 150, fam)
        if not tree_ok(tree) or multi_hash_leaf(tree):
            continue
        st["family_trees"] = st.get("family_trees", 0) + fam
        add_guards(rng, tree, st, [0])
        add_decoys(rng, tree, st)
        assert tree_ok(tree), show_tree(tree)
        obj = rand_dyn_obj(rng, tree, st)
        prefix = rng.choice([b"", b"/", b"/pre/", b"/a0/b/", b"/x/y/z/"])
        eff = prefix or b"/"
        must, opn = pruned(tree, obj, eff)
        buf = make_buffer(rng, prefix, need(tree) + SPARE + rng.randint(0, 40), st)
        made += 1
        st["cases"] += 1
        st["depth_hist"][str(depth)] = st["depth_hist"].get(str(depth), 0) + 1
        st["open_reports"] = st.get("open_reports", 0) + len(opn)
        yield "D %s %s %s opt=%s" % (show_tree(tree), show_obj(obj), hx(buf),
                                     ",".join(pair_key(ix, a) for ix, a in opn) or "-")


def generate(rng, tier, stats):
    # W and R cases interleaved (the runner splits the op list into contiguous chunks for the model)
    gw, gr, gd = gen_static(rng, tier, stats), gen_runtime(rng, tier, stats), gen_dynamic(rng, tier, stats)
    live = True
    while live:
        live = False
        for g, k in ((gw, 3), (gr, 1), (gd, 1)):
            for op in itertools.islice(g, k):
                live = True
                yield op


def nontrivial(op):
    w = op.split()
    if not w:
        return False
    t = w[2] if w[0] == "R" else w[1]
    return "23" in t or t.count("[") >= 2


# ------------------------------------------------------------------ oracle
def parse_out(out):
    """W <n> <calls> B=<hex>  ->  ([(ix, addr, delivered or None)], after)"""
    w = out.split()
    if len(w) != 4 or w[0] != "W" or not w[3].startswith("B="):
        return None
    calls = []
    if w[2] != "-":
        for c in w[2].split(","):
            ix, _, rest = c.partition(":")
            addr, sep, d = rest.partition(">")
            # one list of receivers per dispatch made (W, D: without and with location buffer; R: with)
            calls.append((ix, unhx(addr), (None if not sep else [([] if x == "-" else x.split("+")) for x in d.split(">")])))
    if len(calls) != int(w[1]):
        return None
    return calls, w[3][2:]


def check_calls(got, must, allowed, prefix, mode_fn):
    """the reported pairs as a multiset (the statement fixes no order): every pair of `must` exactly once, nothing
    else but - at most once each - the pairs of `allowed`; the buffer; the dispatch of every reported address"""
    from collections import Counter
    calls, b = got
    rep = Counter((c[0], c[1]) for c in calls)
    mst = Counter((ixs(ix), a) for ix, a in must)
    alw = Counter((ixs(ix), a) for ix, a in allowed)
    missing = mst - rep
    extra = (rep - mst) - alw
    if missing or extra:
        def show(c):
            (ix, a), n = sorted(c.items())[0]
            return "%s:%s%s" % (ix, a.decode("latin1"), " (%d times)" % n if n > 1 else "")
        what = []
        if missing:
            what.append("%d expected report(s) missing, e.g. %s" % (sum(missing.values()), show(missing)))
        if extra:
            what.append("%d report(s) too many, e.g. %s" % (sum(extra.values()), show(extra)))
        return "walk: %d pairs reported, %d expected; %s" % (len(calls), len(must), "; ".join(what))
    if b != hx(prefix):
        return "buffer afterwards holds %s, expected the prefix %s" % (b, hx(prefix))
    modes = {}
    for ix, a, ds in calls:
        if ds is None:
            return "no dispatch result for %s" % ix
        mode = modes.get(ix)
        if mode is None:
            mode = modes[ix] = mode_fn(tuple(int(x) for x in ix.split(".")))
        how = ["without location buffer", "with location buffer"] if len(ds) == 2 else ["with location buffer"]
        for d, h in zip(ds, how):
            if mode == "strict":
                if d != [ix]:
                    return "dispatch (%s) of %s reaches %s, expected exactly the reported port %s" % (
                        h, a.decode("latin1"), d or "no port", ix)
            elif mode == "weak" and ix not in d:
                return "dispatch (%s) of %s reaches %s, not the reported port %s" % (h, a.decode("latin1"), d or "no port", ix)
    return None


def op_tokens(words):
    """trailing tokens sz=<n> and opt=<pairs>"""
    size, opt = None, []
    for t in words:
        if t.startswith("sz="):
            size = int(t[3:])
        elif t.startswith("opt=") and t != "opt=-":
            opt += t[4:].split(",")
    return size, opt


def oracle(op, out):
    w = op.split()
    if not w or w[0] not in ("W", "R", "D"):
        return None
    if w[0] == "D":
        tree = parse_tree(w[1])
        if not tree_ok(tree) or multi_hash_leaf(tree):
            return None
        obj = parse_obj(w[2])
        buf = unhx(w[3])
        prefix = buf[:buf.index(0)]
        eff = prefix or b"/"
        if not prefix and (len(buf) < 2 or buf[1] != 0):
            return None
        if len(buf) < len(eff) + need(tree) + 1:
            return None
        must, opn = pruned(tree, obj, eff)
        if out.startswith("crash") or out in ("W oob", "W undef", "bad-op"):
            return "walk with runtime did not complete: " + out
        got = parse_out(out)
        if got is None:
            return "unreadable output: " + out[:80]
        _, dropped = op_tokens(w[4:])
        allowed = list(opn)
        for k in dropped:
            for j, (ix, a) in enumerate(allowed):
                if pair_key(ix, a) == k:
                    del allowed[j]
                    break
        return check_calls(got, must, allowed, eff, lambda ix: disp_mode(tree, ix))
    if w[0] == "W":
        if w[3] != "10":
            return None
        tree = parse_tree(w[1])
        if not tree_ok(tree, False):
            return None
        strict = tree_ok(tree)
        buf = unhx(w[2])
        prefix = buf[:buf.index(0)]
        eff = prefix or b"/"
        if not prefix and (len(buf) < 2 or buf[1] != 0):
            return None
        if len(buf) < len(eff) + need(tree) + 1:
            return None
        if out.startswith("crash") or out == "W oob":
            return "walk did not complete on a well-formed tree in a large enough buffer: " + out
        got = parse_out(out)
        if got is None:
            return "unreadable output: " + out[:80]
        want = enumerate_tree(tree, eff)
        return check_calls(got, want, [], eff, (lambda ix: disp_mode(tree, ix)) if strict else (lambda ix: "skip"))
    # runtime
    table, table_need = compiled_table(w[2])
    obj = parse_obj(w[3])
    buf = unhx(w[4])
    prefix = buf[:buf.index(0)]
    eff = prefix or b"/"
    if not prefix and (len(buf) < 2 or buf[1] != 0):
        return None
    if len(buf) < len(eff) + table_need + 1:
        return None
    must, opn = pruned(table, obj, eff)
    size, dropped = op_tokens(w[5:])
    if size is not None and size < max([len(a) for _, a in must + opn] + [len(eff)]) + 1:
        return None
    if out.startswith("crash") or out in ("W oob", "W undef", "tree-mismatch", "bad-spec", "bad-op"):
        return "walk with runtime did not complete: " + out
    got = parse_out(out)
    if got is None:
        return "unreadable output: " + out[:80]
    # one report of every pair named by opt= was dropped from the output already
    allowed = list(opn)
    for k in dropped:
        for j, (ix, a) in enumerate(allowed):
            if pair_key(ix, a) == k:
                del allowed[j]
                break
    return check_calls(got, must, allowed, eff, lambda ix: "strict")


# ------------------------------------------------------------------ known finding C09-K1
def known(op, impl_out, model_out, defs):
    """leaf names with more than one '#': attributed only if the trigger holds, the implementation reports exactly
    what the defect-mirroring description predicts (only the first '#' of a leaf expanded, everything else as the
    statement says) and — when the model ran — implementation and model agree"""
    from collections import Counter
    ids = [d.get("id") for d in defs]
    if "C09-K1" not in ids:
        return None
    w = op.split()
    if not w or w[0] != "W" or w[3] != "10":
        return None
    tree = parse_tree(w[1])
    if not tree_ok(tree, False) or not multi_hash_leaf(tree):
        return None
    strict = tree_ok(tree)
    if model_out is not None and impl_out != model_out:
        return None
    got = parse_out(impl_out)
    if got is None:
        return None
    buf = unhx(w[2])
    prefix = buf[:buf.index(0)] or b"/"
    want = enumerate_tree(tree, prefix, (), expand_first)
    calls, b = got
    if Counter((c[0], c[1]) for c in calls) != Counter((ixs(ix), a) for ix, a in want) or b != hx(prefix):
        return None
    # every pair that is not a half-expanded leaf must still dispatch to its port
    for ix, a, d in calls:
        eix = tuple(int(x) for x in ix.split("."))
        p = tree
        for i in eix[:-1]:
            p = p[i].sub
        leaf = p[eix[-1]]
        if len(parse_name(leaf.name).parts) >= 2 or not strict or disp_mode(tree, eix) == "skip":
            continue
        if d is None or any(ix not in x for x in d):
            return None
    return "C09-K1"
