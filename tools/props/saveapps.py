"""Generated applications for C12/C13 (owned by C12).

A fixed pool of applications (seeded by constants, identical in every run so that the
harness binary is cached and replays stay valid) is described as Python data, and from
that description are produced
  * C++ source built from the real port-sugar macros (harness/save_apps.inc),
  * the flat descriptor that instantiates the Lean `App` (one token on every op line),
  * what the Python oracle needs (defaults per parameter).

Values are tuples: ('i', n) ('c', n) ('f', bits) ('T',) ('F',) ('S', bytes) ('s', bytes).
"""
import hashlib
import os
import random
import struct

# ------------------------------------------------------------------------------------
# description
# ------------------------------------------------------------------------------------
class Cls:
    def __init__(self, cname):
        self.cname = cname
        self.fields = []          # declaration order
        # a sub-tree that is enabled by a toggle of its own: selfmode "port" = the parent declares
        # rRecur(sub, rEnabledBy(sub/<selftog>)), "self" = the table starts with rSelf(T, rEnabledBy(<selftog>))
        self.selfmode = None
        self.selftog = None

    def field(self, name):
        for f in self.fields:
            if f["name"] == name:
                return f
        raise KeyError(name)


def f2bits(x):
    return struct.unpack("<I", struct.pack("<f", x))[0]


def bits2f(b):
    return struct.unpack("<f", struct.pack("<I", b))[0]


def fval(x):
    return ("f", f2bits(x))


def bval(b):
    return ("T",) if b else ("F",)


DYADIC = [k / 8.0 for k in range(-40, 41)]


def ftext(bits):
    """decimal literal that scans back to exactly this float (dyadic values only)"""
    x = bits2f(bits)
    s = repr(float(x))
    assert "e" not in s and "." in s, s
    return s


def ctext(v):
    """text of a value inside rDefault()/rPreset()"""
    t = v[0]
    if t == "i":
        return str(v[1])
    if t == "c":
        return "'%s'" % chr(v[1])
    if t == "f":
        return ftext(v[1])
    if t == "T":
        return "true"
    if t == "F":
        return "false"
    if t == "S":
        return v[1].decode()
    if t == "s":
        return '"%s"' % v[1].decode()
    raise ValueError(v)


NAMES = None


def name_pool(rng):
    cons = "bcdfghjklmnprstvwz"
    vow = "aeiou"
    while True:
        yield rng.choice(cons) + rng.choice(vow) + rng.choice(cons)


# ------------------------------------------------------------------------------------
# random class trees
# ------------------------------------------------------------------------------------
class AppGen:
    def __init__(self, appid, seed, shape):
        self.appid = appid
        self.rng = random.Random(seed)
        self.ncls = 0
        self.shape = shape
        self.root = self.gen_class(0, guards_allowed=True)

    def fresh_names(self, n):
        out = []
        g = name_pool(self.rng)
        while len(out) < n:
            x = next(g)
            if x not in out and x not in ("int", "for", "new", "not", "xor", "and", "asm", "try", "bit"):
                out.append(x)
        return out

    def rand_val(self, kind, f):
        r = self.rng
        if kind == "I":
            lo = f.get("min", -1000) if f.get("min") is not None else -1000
            hi = f.get("max", 1000) if f.get("max") is not None else 1000
            return ("i", r.randint(lo, hi))
        if kind == "C":
            if f.get("cstyle") == "char":
                while True:
                    c = r.randint(33, 126)
                    if c not in (39, 92):          # ' and \ would need escapes in the C++ source
                        return ("c", c)
            return ("c", r.randint(0, 127))
        if kind == "F":
            xs = [x for x in DYADIC if (f.get("min") is None or bits2f(f["min"]) <= x) and (f.get("max") is None or x <= bits2f(f["max"]))]
            return fval(r.choice(xs))
        if kind == "T":
            return bval(r.random() < 0.5)
        if kind == "O":
            return ("i", r.randrange(len(f["opts"])))
        if kind == "Z":
            n = r.randint(0, max(0, f["len"] - 1))
            return ("s", bytes(r.choice(b"abcxyz ") for _ in range(n)))
        raise ValueError(kind)

    def gen_param(self, name, kind):
        r = self.rng
        f = {"name": name, "role": "param", "kind": kind, "deps": [], "min": None, "max": None}
        if kind == "I":
            c = r.random()
            if c < 0.4:
                f["min"], f["max"] = r.choice([(-100, 100), (0, 127), (-5, 5), (0, 3)])
        elif kind == "F":
            if r.random() < 0.5:
                f["min"], f["max"] = r.choice([(f2bits(-10.0), f2bits(10.0)), (f2bits(0.0), f2bits(1.0)), (f2bits(-0.5), f2bits(4.0))])
        elif kind == "O":
            k = r.choice(self.shape["optcounts"]) if self.shape.get("optcounts") else r.randint(2, 4)
            f["opts"] = self.fresh_names(k)
            f["ostyle"] = r.choice(["sym", "int"])
        elif kind == "Z":
            f["len"] = r.choice(self.shape.get("strlens", [4, 8, 16]))
        elif kind == "C":
            f["cstyle"] = r.choice(["int", "int", "char"])
        f["dflt"] = ("K", self.rand_val(kind, f))
        return f

    def gen_class(self, depth, guards_allowed, selfmode=None):
        r = self.rng
        sh = self.shape
        c = Cls("%s_C%d" % (self.appid, self.ncls))
        c.selfmode = selfmode
        self.ncls += 1
        nparams = r.randint(sh["minp"], sh["maxp"])
        narr = r.randint(sh.get("minarr", 0), sh["maxarr"])
        nsub = r.randint(sh["minsub"], sh["maxsub"]) if depth < sh["depth"] else 0
        nchain = sh.get("chain", 0) if depth == 0 else 0
        neleaf = r.randint(0, sh["eleaf"]) if sh.get("eleaf") else 0
        names = self.fresh_names(nparams + narr + nsub + 3 + nchain + 3 * neleaf + (6 if sh.get("leafen") else 0) + (1 if selfmode else 0)
                                 + (12 if sh.get("intguards") else 0) + len(sh.get("hugearr", [])))
        used = []

        def nm():
            """next field name; with `prefixnames`, sometimes an existing name of the class extended by a few letters
            (a sibling whose name starts like another's: what Ports::apropos' lowest loop confuses)"""
            if sh.get("prefixnames") and used and r.random() < sh["prefixnames"]:
                for _ in range(8):
                    x = r.choice(used) + r.choice(["x", "mod", "a", "rand"])
                    if x not in used and x not in names:
                        used.append(x)
                        return x
            x = names.pop()
            used.append(x)
            return x
        kinds = ["I", "I", "C", "F", "T", "O", "Z", "O", "I", "T", "F"]
        params = []
        for i in range(nparams):
            k = kinds[i % len(kinds)] if depth == 0 and sh.get("allkinds") else r.choice(kinds)
            params.append(self.gen_param(nm(), k))
        # preset / depends edges: each parameter gets at most one data parent; parents are
        # int/option parameters declared anywhere in the class; no cycles
        cands = [p for p in params if p["kind"] in ("I", "O")]
        order = list(range(len(params)))
        r.shuffle(order)
        rank = {p["name"]: None for p in params}

        def ancestors(p):
            out = []
            while p.get("parent"):
                p = c_field(p["parent"])
                out.append(p["name"])
            return out

        def c_field(n):
            for q in params:
                if q["name"] == n:
                    return q
            raise KeyError(n)
        for i in order:
            p = params[i]
            if not cands or r.random() > sh["pdep"]:
                continue
            par = r.choice(cands)
            if par is p or p["name"] in ancestors(par) or par["name"] == p["name"]:
                continue
            p["parent"] = par["name"]
            mode = r.random()
            if p["kind"] == "Z" or mode < 0.25:
                # plain rDepends: reset to the constant default
                p["deps"] = [par["name"]]
                if par.get("parent") and r.random() < 0.5:
                    p["deps"].append(par["parent"])       # comparable second entry
            else:
                keys = self.preset_keys(par)
                tbl = {}
                full = bool(sh.get("optcounts")) and len(keys) >= 10 and r.random() < 0.6     # rPresets of 12..16 entries
                for k in keys:
                    if full or r.random() < 0.8:
                        tbl[k] = self.rand_val(p["kind"], p)
                fb = p["dflt"][1]
                dense = sorted(tbl) == list(range(len(tbl))) and len(tbl) > 0
                p["dflt"] = ("P", par["name"], tbl, fb, "dense" if dense and r.random() < 0.7 else "sparse")
                if mode > 0.85:
                    p["deps"] = [par["name"]]            # both keys name the same port
        if sh.get("longdeps") and len(params) >= 8:
            # one parameter with a long rDepends list (6..8 entries: the MAC_EACH_n chain of port-sugar.h beyond the
            # lengths the test-suite uses); entries further back in the list are ports that have parents themselves
            def lpar(q):
                s_ = set(q["deps"])
                if q["dflt"][0] == "P":
                    s_.add(q["dflt"][1])
                return s_

            def closure(q):
                seen_ = set()
                todo_ = list(lpar(q))
                while todo_:
                    y = todo_.pop()
                    if y in seen_:
                        continue
                    seen_.add(y)
                    todo_.extend(lpar(c_field(y)))
                return seen_
            tgt = [q for q in params if not any(q["name"] in closure(o) for o in params)]   # nobody depends on it
            if tgt:
                p = r.choice(tgt)
                others = [q for q in params if q is not p]
                r.shuffle(others)
                # ports without parents first, ports with parents last: the tail of the list is what matters
                others.sort(key=lambda q: len(closure(q)) > 0)
                k = r.randint(6, min(8, len(others)))
                chosen = others[-k:]
                p["deps"] = [d for d in p["deps"] if d not in [q["name"] for q in chosen]] + [q["name"] for q in chosen]
        if nchain:
            # a chain of preset-dependent defaults (each port's default is selected by the previous one): the scan has to
            # look through every run of ports that are absent from the file
            prev = None
            for i in range(nchain):
                q = self.gen_param(nm(), "O" if i % 3 == 1 else "I")
                if q["kind"] == "I":
                    q["min"], q["max"] = 0, 3
                    q["dflt"] = ("K", ("i", r.randint(0, 3)))
                if prev is not None:
                    keys = self.preset_keys(prev)
                    tbl = {k: self.rand_val(q["kind"], q) for k in keys if r.random() < 0.9}
                    q["parent"] = prev["name"]
                    q["dflt"] = ("P", prev["name"], tbl, q["dflt"][1], "sparse")
                params.append(q)
                prev = q
        if sh.get("longdeps2") and len(params) >= 14:
            # rDepends lists of 12..16 entries (the upper rows of the MAC_EACH_n table)
            def lpar2(q):
                s_ = set(q["deps"])
                if q["dflt"][0] == "P":
                    s_.add(q["dflt"][1])
                return s_

            def closure2(q):
                seen_ = set()
                todo_ = list(lpar2(q))
                while todo_:
                    y = todo_.pop()
                    if y in seen_:
                        continue
                    seen_.add(y)
                    todo_.extend(lpar2(c_field(y)))
                return seen_
            tgt = [q for q in params if not any(q["name"] in closure2(o) for o in params)]
            r.shuffle(tgt)
            for p in tgt[:2]:
                others = [q for q in params if q is not p and p["name"] not in closure2(q)]
                r.shuffle(others)
                others.sort(key=lambda q: len(closure2(q)) > 0)
                if len(others) < 12:
                    continue
                k = r.randint(12, min(16, len(others)))
                chosen = others[-k:]
                p["deps"] = [d for d in p["deps"] if d not in [q["name"] for q in chosen]] + [q["name"] for q in chosen]
        if sh.get("leafen"):
            # rEnabledBy on a parameter itself (not only on sub-trees): while its toggle is off the parameter keeps its
            # (constant) default and ignores writes
            togs = [p for p in params if p["kind"] == "T" and p["dflt"][0] == "K" and not p["deps"] and not p.get("selftog")]
            for p in list(params):
                if p["dflt"][0] != "K" or p["deps"] or r.random() > sh["leafen"]:
                    continue
                cand = [t for t in togs if t is not p and not t.get("en")]
                if sh.get("intguards") and r.random() < sh["intguards"]:
                    # the enabling port is an int or option port
                    t = self.gen_param(nm(), r.choice(["I", "O"]))
                    if t["kind"] == "I":
                        t["min"], t["max"] = r.choice([(0, 3), (-2, 2), (None, None)])
                    t["dflt"] = ("K", ("i", r.choice([0, 0, 1])))
                    params.append(t)
                    p["en"] = t["name"]
                    continue
                if not cand or r.random() < 0.3:
                    t = self.gen_param(nm(), "T")
                    params.append(t)
                    togs.append(t)
                    cand = [t]
                t = r.choice(cand)
                p["en"] = t["name"]
                if r.random() < 0.7:
                    t["dflt"] = ("K", ("F",))        # mostly off in a fresh instance: the file has to switch it on first
        if selfmode:
            # the toggle that enables this very sub-tree: constant default (mostly off: the file has to switch it on
            # first), depends on nothing, enables nothing else
            t = self.gen_param(nm(), "T")
            t["selftog"] = True
            t["dflt"] = ("K", ("F",) if r.random() < 0.7 else ("T",))
            c.selftog = t["name"]
            params.insert(r.randint(0, len(params)), t)
        for p in params:
            c.fields.append(p)
        huge = list(sh.get("hugearr", [])) if depth == 0 else []
        for i in range(narr + len(huge)):
            ek = r.choice(["I", "I", "F", "T"])
            if sh.get("arropt") and r.random() < sh["arropt"]:
                ek = "O"                 # rArrayOption: enumerated elements, defaults by symbol or by int
            n = r.randint(5, 9) if sh.get("bigarr") else r.randint(2, 5)
            if sh.get("arrlens"):
                n = r.randint(*sh["arrlens"])
            if i >= narr:
                n, ek = huge[i - narr]   # arrays of more than 100 elements (zynaddsubfx: Phmag#128, Pmapping#128)
            f = {"name": nm(), "role": "array", "ekind": ek, "n": n, "min": None, "max": None}
            if ek == "O":
                f["opts"] = self.fresh_names(r.randint(2, 5))
                f["ostyle"] = r.choice(["sym", "sym", "int"])
                f["dflts"] = [("i", r.randrange(len(f["opts"]))) for _ in range(n)]
            elif ek == "I":
                if r.random() < 0.5:
                    f["min"], f["max"] = r.choice([(-100, 100), (0, 100), (-5, 5)])
                lo = f["min"] if f["min"] is not None else -128
                hi = f["max"] if f["max"] is not None else 127
                f["dflts"] = [("i", r.randint(lo, hi)) for _ in range(n)]
            elif ek == "F":
                f["dflts"] = [fval(r.choice(DYADIC)) for _ in range(n)]
            else:
                f["dflts"] = [bval(r.random() < 0.5) for _ in range(n)]
            if i >= narr:
                # `[Nx v]` defaults, some with a few leading elements of their own
                lead = r.choice([0, 0, 1, 3])
                f["dflts"] = f["dflts"][:lead] + [f["dflts"][lead]] * (n - lead)
                f["dstyle"] = "rep"
            elif sh.get("arrstyles"):
                # defaults the way applications spell them: repetitions `6x7`, ranges `1 ... 5`, and per-preset arrays
                def shaped(base):
                    shp = r.choice(["rand", "const", "lead", "arith", "runs"])
                    if shp == "rand":
                        return list(base)
                    if shp == "const":
                        return [base[0]] * n
                    if shp == "lead":
                        k = r.randint(1, max(1, n // 2))
                        return list(base[:k]) + [base[k % n]] * (n - k)
                    if shp == "runs":
                        out_ = []
                        while len(out_) < n:
                            out_ += [base[len(out_)]] * r.randint(1, 4)
                        return out_[:n]
                    if ek == "I":
                        st = r.choice([1, 1, -1, 2])
                        lo_ = f["min"] if f["min"] is not None else -128
                        hi_ = f["max"] if f["max"] is not None else 127
                        a_lo, a_hi = (lo_, hi_ - st * (n - 1)) if st > 0 else (lo_ - st * (n - 1), hi_)
                        if a_lo <= a_hi:
                            a0 = r.randint(a_lo, a_hi)
                            return [("i", a0 + st * k) for k in range(n)]
                    return list(base)

                def rnd_base():
                    if ek == "O":
                        return [("i", r.randrange(len(f["opts"]))) for _ in range(n)]
                    if ek == "I":
                        lo_ = f["min"] if f["min"] is not None else -128
                        hi_ = f["max"] if f["max"] is not None else 127
                        return [("i", r.randint(lo_, hi_)) for _ in range(n)]
                    if ek == "F":
                        return [fval(r.choice(DYADIC)) for _ in range(n)]
                    return [bval(r.random() < 0.5) for _ in range(n)]
                f["dflts"] = shaped(f["dflts"])
                f["dstyle"] = r.choice(["plain", "rep", "rep", "range"])
                pc = [p for p in params if p["kind"] in ("I", "O") and not p.get("en")]
                if pc and r.random() < 0.4:
                    par = r.choice(pc)
                    tbl = {k: shaped(rnd_base()) for k in self.preset_keys(par) if r.random() < 0.7}
                    f["pdflt"] = (par["name"], tbl)
            c.fields.insert(r.randint(0, len(c.fields)), f)
        for i in range(neleaf):
            # one Port per leaf with the enumeration inside its name ("v#3/en::T:F"): saved one line per element
            f = {"name": nm(), "role": "eleaf", "n": r.randint(2, 4), "leaves": []}
            for j in range(r.randint(1, 2)):
                ek = r.choice(["T", "I", "F"])
                lf = {"name": nm(), "kind": ek, "deps": [], "min": None, "max": None}
                if ek == "I":
                    lf["dflts"] = [("i", r.randint(-1000, 1000))] * f["n"] if r.random() < 0.5 else [("i", r.randint(-1000, 1000)) for _ in range(f["n"])]
                elif ek == "F":
                    lf["dflts"] = [fval(r.choice(DYADIC)) for _ in range(f["n"])]
                else:
                    lf["dflts"] = [bval(r.random() < 0.5) for _ in range(f["n"])]
                lf["dstyle"] = r.choice(["plain", "rep"])
                f["leaves"].append(lf)
            c.fields.insert(r.randint(0, len(c.fields)), f)
        toggles = [p for p in params if p["kind"] == "T" and not p.get("selftog")]
        # below a sub-tree that hides its contents while it is off (embedded + guard, self-enabled) no pointer sub-trees
        below_allowed = guards_allowed and not selfmode
        for i in range(nsub):
            modes = ["emb", "embs", "ptr", "ptrs", "embg"] if below_allowed else ["emb", "embs"]
            mode = r.choice(modes)
            sub_self = None
            if sh.get("selfen") and r.random() < sh["selfen"]:
                # the sub-tree is enabled by a toggle that lives inside it
                sub_self = r.choice(["port", "self", "self"] if mode != "emb" else ["port", "port", "self"])
                if sub_self == "port":
                    mode = "emb"         # rRecur(sub, rEnabledBy(sub/t)): port_is_enabled knows this form for plain names only
            f = {"name": nm(), "role": "sub", "mode": mode, "n": r.randint(2, 3), "en": None}
            if sh.get("subdeps") and r.random() < sh["subdeps"]:
                # a sub-tree that is re-initialised when a port of its parent changes: rRecur(sub, rDepends(port))
                pc = [p for p in params if p["kind"] in ("I", "O", "C", "F")]
                if pc:
                    f["sdeps"] = [p["name"] for p in r.sample(pc, min(len(pc), r.choice([1, 1, 2])))]
            if mode in ("ptr", "ptrs", "embg") and sh.get("intguards") and r.random() < sh["intguards"]:
                # rEnabledBy naming an int or option port: enabled = the port holds a non-zero value
                g = self.gen_param(nm(), r.choice(["I", "O"]))
                if g["kind"] == "I":
                    g["min"], g["max"] = r.choice([(0, 3), (-2, 2), (0, 127), (None, None)])
                    g["dflt"] = ("K", ("i", r.choice([0, 0, 1, 2])))
                else:
                    g["dflt"] = ("K", ("i", r.choice([0, 0, 1])))
                params.append(g)
                c.fields.insert(r.randint(0, len(c.fields)), g)
                f["en"] = g["name"]
            elif mode in ("ptr", "ptrs", "embg"):
                if not toggles or r.random() < 0.5:
                    t = self.gen_param(nm(), "T")
                    params.append(t)
                    toggles.append(t)
                    c.fields.insert(r.randint(0, len(c.fields)), t)
                f["en"] = r.choice(toggles)["name"]
            if sub_self:
                if mode == "embg":
                    f["mode"] = "emb"
                f["cls"] = self.gen_class(depth + 1, guards_allowed=False, selfmode=sub_self)
                if sub_self == "port":
                    f["selfport"] = f["cls"].selftog
            elif mode == "embg":
                f["mode"] = "emb"
                f["cls"] = self.gen_class(depth + 1, guards_allowed=False)
            else:
                f["cls"] = self.gen_class(depth + 1, guards_allowed=below_allowed if selfmode else guards_allowed)
            c.fields.insert(r.randint(0, len(c.fields)), f)
        if sh.get("prefixnames"):
            r.shuffle(c.fields)          # the longer of two names may stand first in the table
        return c

    def preset_keys(self, par):
        if par["kind"] == "O":
            return list(range(len(par["opts"])))
        if par["min"] is not None and par["max"] - par["min"] <= 10:
            return list(range(par["min"], par["max"] + 1))
        return [0, 1, 2, -1]


# ------------------------------------------------------------------------------------
# flattening
# ------------------------------------------------------------------------------------
class Inst:
    """one parameter instance (one address)"""
    pass


def flatten(root):
    """returns (instances in traversal order, walk items, port tree)"""
    insts = []
    walk = []

    def rec(cls, prefix, guards, extra):
        # extra: instances (of outer classes) whose change re-initialises this sub-tree (rDepends on a sub-tree port)
        here = {}
        mine = []
        for f in cls.fields:
            if f["role"] == "param":
                it = Inst()
                it.addr = prefix + f["name"]
                it.f = f
                it.kind = f["kind"]
                it.guards = list(guards)
                it.local = here
                it.arr = None
                it.extra = list(extra)
                here[f["name"]] = len(insts)
                insts.append(it)
                mine.append(it)
        if cls.selftog:
            # everything in this sub-tree except the toggle itself is visible only while the toggle is on
            guards = list(guards) + [(here[cls.selftog], False)]
            for it in mine:
                if it.f["name"] != cls.selftog:
                    it.guards = list(guards)
        for it in mine:
            if it.f.get("en"):
                it.guards.append((here[it.f["en"]], False))
        for f in cls.fields:
            if f["role"] == "param":
                walk.append(("s", here[f["name"]]))
            elif f["role"] == "array":
                first = len(insts)
                for k in range(f["n"]):
                    it = Inst()
                    it.addr = prefix + f["name"] + str(k)
                    it.f = f
                    it.kind = {"I": "H", "F": "F", "T": "T", "O": "O"}[f["ekind"]]
                    it.guards = list(guards)
                    it.local = here
                    it.arr = k
                    it.extra = list(extra)
                    insts.append(it)
                walk.append(("a", prefix + f["name"], first, f["n"]))
            elif f["role"] == "eleaf":
                for lf in f["leaves"]:
                    for k in range(f["n"]):
                        it = Inst()
                        it.addr = "%s%s%d/%s" % (prefix, f["name"], k, lf["name"])
                        # element k of the port's array default is this instance's constant default
                        it.f = {"name": lf["name"], "role": "param", "kind": lf["kind"], "deps": [], "min": None, "max": None,
                                "dflt": ("K", lf["dflts"][k])}
                        it.kind = lf["kind"]
                        it.guards = list(guards)
                        it.local = here
                        it.arr = None
                        it.extra = list(extra)
                        walk.append(("s", len(insts)))
                        insts.append(it)
            else:
                g = list(guards)
                if f["en"]:
                    g.append((here[f["en"]], f["mode"] in ("ptr", "ptrs")))
                ex = list(extra) + [here[d] for d in f.get("sdeps", [])]
                if f["mode"] in ("emb", "ptr"):
                    rec(f["cls"], prefix + f["name"] + "/", g, ex)
                else:
                    for k in range(f["n"]):
                        rec(f["cls"], prefix + f["name"] + str(k) + "/", g, ex)
    rec(root, "/", [], [])
    # parents and ancestors
    for i, it in enumerate(insts):
        it.idx = i
        par = set(g[0] for g in it.guards) | set(it.extra)
        f = it.f
        if it.arr is None:
            if f["dflt"][0] == "P":
                par.add(it.local[f["dflt"][1]])
            for d in f["deps"]:
                par.add(it.local[d])
        elif f.get("pdflt"):
            par.add(it.local[f["pdflt"][0]])
        it.parents = par
    for it in insts:
        seen = set()
        todo = list(it.parents)
        while todo:
            x = todo.pop()
            if x in seen:
                continue
            seen.add(x)
            todo.extend(insts[x].parents)
        it.ancs = seen
    # rank order: ancestors first, stable; the elements of an array stay consecutive (they have the same ancestors)
    order = []
    done = set()

    def visit(i):
        if i in done:
            return
        for a in sorted(insts[i].ancs):
            visit(a)
        done.add(i)
        order.append(i)
    for i in range(len(insts)):
        visit(i)
    rank = {old: new for new, old in enumerate(order)}
    return insts, walk, order, rank


def canon_values(insts, order):
    """value of every instance in a fresh application"""
    val = {}
    for i in order:
        it = insts[i]
        val[i] = eval_default(it, lambda j: val[j])
    return val


def canonicalize(kind, f, v):
    if kind == "O" and v[0] == "S":
        return ("i", [o.encode() for o in f["opts"]].index(v[1]))
    if kind == "C" and v[0] == "i":
        return ("c", v[1])
    return v


def declared_default(it, getv):
    """default value as get_default_value finds it (before canonicalisation), given the
    current values of the other instances"""
    f = it.f
    if it.arr is not None:
        if f.get("pdflt"):
            pv = getv(it.local[f["pdflt"][0]])
            vals = f["pdflt"][1].get(pv[1], f["dflts"]) if pv[0] in ("i", "c") else f["dflts"]
            return vals[it.arr]
        return f["dflts"][it.arr]
    d = f["dflt"]
    if d[0] == "K":
        v = d[1]
    else:
        pv = getv(it.local[d[1]])
        v = d[2].get(pv[1], d[3]) if pv[0] in ("i", "c") else d[3]
    return v


def eval_default(it, getv):
    v = declared_default(it, getv)
    f = it.f
    if it.kind == "O" and f.get("ostyle") == "sym":
        pass
    return canonicalize(it.kind, f, v)


# ------------------------------------------------------------------------------------
# descriptor token (for the Lean driver and the oracle)
# ------------------------------------------------------------------------------------
def vtok(v):
    t = v[0]
    if t in ("i", "c"):
        return "%s%d" % (t, v[1])
    if t == "f":
        return "f%08x" % v[1]
    if t in ("T", "F"):
        return t
    if t in ("S", "s"):
        return t + (v[1].hex() if v[1] else "")
    raise ValueError(v)


def parse_vtok(s):
    t = s[0]
    if t in ("i", "c"):
        return (t, int(s[1:]))
    if t == "f":
        return ("f", int(s[1:], 16))
    if t in ("T", "F"):
        return (t,)
    return (t, bytes.fromhex(s[1:]))


def opt(x):
    return "" if x is None else str(x)


def kind_tok(it):
    f = it.f
    k = it.kind
    if k == "I":
        return "I%s:%s" % (opt(f["min"]), opt(f["max"]))
    if k == "H":
        return "H%s:%s" % (opt(f["min"]), opt(f["max"]))
    if k == "C":
        return "C"
    if k == "F":
        return "X%s:%s" % ("" if f["min"] is None else "%08x" % f["min"], "" if f["max"] is None else "%08x" % f["max"])
    if k == "T":
        return "T"
    if k == "O":
        return "O" + ".".join(f["opts"])
    if k == "Z":
        return "Z%d" % f["len"]
    raise ValueError(k)


def declared_text_val(it, v):
    """the default as the metadata spells it: options by symbol or int, chars by int or char"""
    f = it.f
    if it.kind == "O" and f.get("ostyle") == "sym" and v[0] == "i" and 0 <= v[1] < len(f["opts"]):
        return ("S", f["opts"][v[1]].encode())
    if it.kind == "C" and f.get("cstyle") == "int" and v[0] == "c":
        return ("i", v[1])
    return v


def descriptor(app):
    insts, walk, order, rank = app.insts, app.walk, app.order, app.rank
    ps = []
    for old in order:
        it = insts[old]
        f = it.f
        if it.arr is not None and f.get("pdflt"):
            pn, tbl = f["pdflt"]
            d = "P%d:%s:%s" % (rank[it.local[pn]], "/".join("%d=%s" % (k, vtok(tbl[k][it.arr])) for k in sorted(tbl)),
                               vtok(f["dflts"][it.arr]))
        elif it.arr is not None:
            d = "K" + vtok(declared_text_val(it, f["dflts"][it.arr]))
        elif f["dflt"][0] == "K":
            d = "K" + vtok(declared_text_val(it, f["dflt"][1]))
        else:
            _, pn, tbl, fb, _ = f["dflt"]
            d = "P%d:%s:%s" % (rank[it.local[pn]],
                               "/".join("%d=%s" % (k, vtok(declared_text_val(it, tbl[k]))) for k in sorted(tbl)),
                               vtok(declared_text_val(it, fb)))
        g = ".".join("%d%s" % (rank[a], "p" if p else "e") for a, p in it.guards) or "-"
        an = ".".join(str(x) for x in sorted(rank[a] for a in it.ancs)) or "-"
        ps.append(",".join([it.addr, kind_tok(it), d, g, an, vtok(app.canon[old])]))
    ws = []
    for w in walk:
        if w[0] == "s":
            ws.append("s%d" % rank[w[1]])
        else:
            # array elements are consecutive in traversal order; they keep that in rank order
            ws.append("a%s:%d:%d" % (w[1], rank[w[2]], w[3]))
            assert [rank[w[2] + k] for k in range(w[3])] == list(range(rank[w[2]], rank[w[2]] + w[3]))
    ts = []

    def tree(cls, depth):
        if cls.selfmode == "self":
            ts.append("%d,%s,%s,-,-" % (depth, b"self:".hex(), cls.selftog.encode().hex()))
        for f in cls.fields:
            if f["role"] == "param":
                meta = ["-", "-", "-"]
                if f["deps"]:
                    meta[1] = "".join(d + "," for d in f["deps"]).encode().hex()
                if f["dflt"][0] == "P":
                    meta[2] = f["dflt"][1].encode().hex()
                if f.get("en"):
                    meta[0] = f["en"].encode().hex()
                ts.append("%d,%s,%s" % (depth, port_name(f).encode().hex(), ",".join(meta)))
            elif f["role"] == "array":
                dd = f["pdflt"][0].encode().hex() if f.get("pdflt") else "-"
                ts.append("%d,%s,-,-,%s" % (depth, port_name(f).encode().hex(), dd))
            elif f["role"] == "eleaf":
                for lf in f["leaves"]:
                    ts.append("%d,%s,-,-,-" % (depth, eleaf_port_name(f, lf).encode().hex()))
            else:
                en = f["en"].encode().hex() if f["en"] else "-"
                if f.get("selfport"):
                    en = (f["name"] + "/" + f["selfport"]).encode().hex()
                sd = "".join(d + "," for d in f["sdeps"]).encode().hex() if f.get("sdeps") else "-"
                ts.append("%d,%s,%s,%s,-" % (depth, port_name(f).encode().hex(), en, sd))
                tree(f["cls"], depth + 1)
                if f["mode"] == "emb":
                    ts.append("%d,%s,-,-,-" % (depth, (f["name"] + ":").encode().hex()))
    tree(app.root, 0)
    return "|".join([app.appid, ";".join(ps), ";".join(ws), ";".join(ts)])


def eleaf_port_name(f, lf):
    return "%s#%d/%s%s" % (f["name"], f["n"], lf["name"], {"I": "::i", "F": "::f", "T": "::T:F"}[lf["kind"]])


def port_name(f):
    if f["role"] == "param":
        return f["name"] + {"I": "::i", "C": "::c", "F": "::f", "T": "::T:F", "O": "::i:c:S", "Z": "::s"}[f["kind"]]
    if f["role"] == "array":
        return "%s#%d%s" % (f["name"], f["n"], {"I": "::i", "F": "::f", "T": "::T:F", "O": "::i:c:S"}[f["ekind"]])
    if f["mode"] in ("emb", "ptr"):
        return f["name"] + "/"
    return "%s#%d/" % (f["name"], f["n"])


# ------------------------------------------------------------------------------------
# C++
# ------------------------------------------------------------------------------------
CTYPE = {"I": "int", "C": "char", "F": "float", "T": "bool", "O": "int"}


def cxx_val(kind, v):
    if v[0] == "i":
        return str(v[1])
    if v[0] == "c":
        return "(char)%d" % v[1]
    if v[0] == "f":
        return "vbits2f(0x%08xu)" % v[1]
    if v[0] == "T":
        return "true"
    if v[0] == "F":
        return "false"
    raise ValueError(v)


def cxx_str(b):
    return '"' + "".join("\\x%02x" % c for c in b) + '"'


def macro_range(f, isfloat):
    if f["min"] is None:
        return ""
    if isfloat:
        return " rLinear(%s, %s)," % (ftext(f["min"]), ftext(f["max"]))
    return " rLinear(%d, %d)," % (f["min"], f["max"])


def macro_default(it_kind, f):
    d = f["dflt"]

    class _I:
        pass
    it = _I()
    it.kind = it_kind
    it.f = f
    if d[0] == "K":
        return " rDefault(%s)," % ctext(declared_text_val(it, d[1]))
    _, pn, tbl, fb, style = d
    out = " rDefaultDepends(%s)," % pn
    if style == "dense":
        out += " rPresets(%s)," % ", ".join(ctext(declared_text_val(it, tbl[k])) for k in sorted(tbl))
    else:
        for k in sorted(tbl):
            out += " rPreset(%d, %s)," % (k, ctext(declared_text_val(it, tbl[k])))
    out += " rDefault(%s)," % ctext(declared_text_val(it, fb))
    return out


def arr_text(vals, style):
    """an array default as the metadata spells it: element by element, with repetitions `NxV`, or with ranges `a b ... c`"""
    n = len(vals)
    out = []
    i = 0
    while i < n:
        j = i
        while j + 1 < n and vals[j + 1] == vals[i]:
            j += 1
        run = j - i + 1
        if style == "rep" and run >= 2:
            out.append("%dx%s" % (run, ctext(vals[i])))
            i = j + 1
            continue
        if style == "range" and vals[i][0] == "i":
            # longest arithmetic progression from i with step +-1 (written `a ... c`) or another step (`a b ... c`)
            if i + 1 < n:
                st = vals[i + 1][1] - vals[i][1]
                k = i + 1
                while k + 1 < n and vals[k + 1][1] - vals[k][1] == st:
                    k += 1
                if st != 0 and k - i + 1 >= 3:
                    if st == 1:
                        out.append("%d ... %d" % (vals[i][1], vals[k][1]))
                    else:
                        out.append("%d %d ... %d" % (vals[i][1], vals[i + 1][1], vals[k][1]))
                    i = k + 1
                    continue
        out.append(ctext(vals[i]))
        i += 1
    return "[" + " ".join(out) + "]"


def gen_class_cxx(cls, out, app):
    for f in cls.fields:
        if f["role"] == "sub":
            gen_class_cxx(f["cls"], out, app)
    cn = cls.cname
    L = []
    L.append("struct %s {" % cn)
    L.append("    static const rtosc::Ports ports;")
    for f in cls.fields:
        if f["role"] == "param":
            if f["kind"] == "Z":
                L.append("    char %s[%d];" % (f["name"], f["len"]))
            else:
                L.append("    %s %s;" % (CTYPE[f["kind"]], f["name"]))
            if f["kind"] == "T":
                L.append("    bool prev_%s;" % f["name"])      # the value the change hook saw last
        elif f["role"] == "array":
            L.append("    %s %s[%d];" % ({"I": "int", "F": "float", "T": "bool", "O": "int"}[f["ekind"]], f["name"], f["n"]))
        elif f["role"] == "eleaf":
            for lf in f["leaves"]:
                L.append("    %s %s_%s[%d];" % ({"I": "int", "F": "float", "T": "bool"}[lf["kind"]], f["name"], lf["name"], f["n"]))
        else:
            sc = f["cls"].cname
            if f["mode"] == "emb":
                L.append("    %s %s;" % (sc, f["name"]))
            elif f["mode"] == "embs":
                L.append("    %s %s[%d];" % (sc, f["name"], f["n"]))
            elif f["mode"] == "ptr":
                L.append("    %s *%s;" % (sc, f["name"]))
            else:
                L.append("    %s *%s[%d];" % (sc, f["name"], f["n"]))
    # constructor: pointers null, then reset
    L.append("    %s() {" % cn)
    for f in cls.fields:
        if f["role"] == "sub" and f["mode"] == "ptr":
            L.append("        %s = nullptr;" % f["name"])
        if f["role"] == "sub" and f["mode"] == "ptrs":
            L.append("        for(int k = 0; k < %d; ++k) %s[k] = nullptr;" % (f["n"], f["name"]))
    L.append("        reset();")
    L.append("    }")
    L.append("    ~%s() {" % cn)
    for f in cls.fields:
        if f["role"] == "sub" and f["mode"] == "ptr":
            L.append("        delete %s;" % f["name"])
        if f["role"] == "sub" and f["mode"] == "ptrs":
            L.append("        for(int k = 0; k < %d; ++k) delete %s[k];" % (f["n"], f["name"]))
    L.append("    }")
    L.append("    %s(const %s&) = delete;" % (cn, cn))
    L.append("    %s& operator=(const %s&) = delete;" % (cn, cn))
    # local dependency order of the parameters (and of the arrays with preset-dependent defaults)
    params = [f for f in cls.fields if f["role"] == "param"]
    nodes = [f for f in cls.fields if f["role"] in ("param", "array")]

    def lparents(f):
        if f["role"] == "array":
            return set([f["pdflt"][0]]) if f.get("pdflt") else set()
        s = set(f["deps"])
        if f["dflt"][0] == "P":
            s.add(f["dflt"][1])
        if f.get("en"):
            s.add(f["en"])
        return s
    lorder = []
    seen = set()

    def visit(f):
        if f["name"] in seen:
            return
        for pn in sorted(lparents(f)):
            visit(cls.field(pn))
        seen.add(f["name"])
        lorder.append(f)
    for f in nodes:
        visit(f)

    def ldesc(f):
        out_ = []
        for g in lorder:
            x = g
            anc = set()
            todo = list(lparents(x))
            while todo:
                y = todo.pop()
                if y in anc:
                    continue
                anc.add(y)
                todo.extend(lparents(cls.field(y)))
            if f["name"] in anc:
                out_.append(g)
        return out_

    def assign_default(f, ind):
        # f := its default given the current values of its parents
        res = []
        if f["role"] == "array":
            def assign_all(vals, ind2):
                return ["%s%s[%d] = %s;" % (ind2, f["name"], k, cxx_val(None, v)) for k, v in enumerate(vals)]
            if f.get("pdflt"):
                pn, tbl = f["pdflt"]
                res.append("%sswitch((int)%s) {" % (ind, pn))
                for key in sorted(tbl):
                    res.append("%s    case %d:" % (ind, key))
                    res.extend(assign_all(tbl[key], ind + "        "))
                    res.append("%s        break;" % ind)
                res.append("%s    default:" % ind)
                res.extend(assign_all(f["dflts"], ind + "        "))
                res.append("%s        break;" % ind)
                res.append("%s}" % ind)
            else:
                res.extend(assign_all(f["dflts"], ind))
            return res
        d = f["dflt"]
        if f["kind"] == "Z":
            res.append("%sstrcpy(%s, %s);" % (ind, f["name"], cxx_str(d[1][1])))
            return res
        if f["kind"] == "T":
            res = assign_default_plain(f, ind)
            res.append("%sprev_%s = %s;" % (ind, f["name"], f["name"]))
            return res
        return assign_default_plain(f, ind)

    def assign_default_plain(f, ind):
        d = f["dflt"]
        res = []
        if d[0] == "K":
            res.append("%s%s = %s;" % (ind, f["name"], cxx_val(f["kind"], canonicalize(f["kind"], f, d[1]))))
        else:
            _, pn, tbl, fb, _ = d
            res.append("%sswitch((int)%s) {" % (ind, pn))
            for k in sorted(tbl):
                res.append("%s    case %d: %s = %s; break;" % (ind, k, f["name"], cxx_val(f["kind"], canonicalize(f["kind"], f, tbl[k]))))
            res.append("%s    default: %s = %s; break;" % (ind, f["name"], cxx_val(f["kind"], canonicalize(f["kind"], f, fb))))
            res.append("%s}" % ind)
        return res

    def recreate_subs(f, ind):
        res = []
        for s in cls.fields:
            if s["role"] == "sub" and s["en"] == f["name"]:
                sc = s["cls"].cname
                if s["mode"] == "emb":
                    res.append("%s%s.reset();" % (ind, s["name"]))
                elif s["mode"] == "embs":
                    res.append("%sfor(int k = 0; k < %d; ++k) %s[k].reset();" % (ind, s["n"], s["name"]))
                elif s["mode"] == "ptr":
                    res.append("%sdelete %s; %s = %s ? new %s : nullptr;" % (ind, s["name"], s["name"], f["name"], sc))
                else:
                    res.append("%sfor(int k = 0; k < %d; ++k) { delete %s[k]; %s[k] = %s ? new %s : nullptr; }" % (
                        ind, s["n"], s["name"], s["name"], f["name"], sc))
        return res
    def reinit_subs(g, ind):
        """sub-trees declared rDepends(g): re-initialised when g changes"""
        res = []
        for s_ in cls.fields:
            if s_["role"] == "sub" and g["name"] in s_.get("sdeps", []):
                sc = s_["cls"].cname
                cond = s_["en"] if s_["en"] else "true"
                if s_["mode"] == "emb":
                    res.append("%s%s.reset();" % (ind, s_["name"]))
                elif s_["mode"] == "embs":
                    res.append("%sfor(int k = 0; k < %d; ++k) %s[k].reset();" % (ind, s_["n"], s_["name"]))
                elif s_["mode"] == "ptr":
                    res.append("%sdelete %s; %s = %s ? new %s : nullptr;" % (ind, s_["name"], s_["name"], cond, sc))
                else:
                    res.append("%sfor(int k = 0; k < %d; ++k) { delete %s[k]; %s[k] = %s ? new %s : nullptr; }" % (
                        ind, s_["n"], s_["name"], s_["name"], cond, sc))
        return res
    # reset(): fresh state
    L.append("    void reset() {")
    for f in lorder:
        L.extend(assign_default(f, "        "))
    for f in cls.fields:
        if f["role"] == "eleaf":
            for lf in f["leaves"]:
                for k, v in enumerate(lf["dflts"]):
                    L.append("        %s_%s[%d] = %s;" % (f["name"], lf["name"], k, cxx_val(None, v)))
    for f in cls.fields:
        if f["role"] == "sub":
            if f["en"]:
                pass
            elif f["mode"] == "emb":
                L.append("        %s.reset();" % f["name"])
            elif f["mode"] == "embs":
                L.append("        for(int k = 0; k < %d; ++k) %s[k].reset();" % (f["n"], f["name"]))
    for f in params:
        L.extend(recreate_subs(f, "        "))      # (only enabling ports have sub-trees to recreate)
    L.append("    }")
    # change hook
    L.append("    void changed(const char *n) {")
    for f in params:
        if f.get("selftog"):
            # switching the sub-tree on or off re-initialises everything in it except the toggle
            n_ = f["name"]
            L.append("        if(!strncmp(n, \"%s:\", %d)) {" % (n_, len(n_) + 1))
            L.append("            if(%s == prev_%s) return;" % (n_, n_))
            L.append("            bool keep = %s; reset(); %s = keep; prev_%s = keep;" % (n_, n_, n_))
            L.append("            return;")
            L.append("        }")
            continue
        ds = ldesc(f)
        body = []
        for g in ds:
            body.extend(assign_default(g, "            "))
        for g in [f] + ds:
            if g["role"] == "param":
                body.extend(recreate_subs(g, "            "))
        for g in [f] + ds:
            if g["role"] == "param":
                body.extend(reinit_subs(g, "            "))
        if body or f.get("en"):
            L.append("        if(!strncmp(n, \"%s:\", %d)) {" % (f["name"], len(f["name"]) + 1))
            if f.get("en"):
                # written while disabled: the parameter keeps its default
                L.append("            if(!%s) {" % f["en"])
                L.extend(assign_default(f, "                "))
                L.append("                return;")
                L.append("            }")
            if f["kind"] == "T":
                # the hook reacts to changes only, however often the callback invokes it
                L.append("            if(%s == prev_%s) return;" % (f["name"], f["name"]))
                L.append("            prev_%s = %s;" % (f["name"], f["name"]))
            L.extend(body)
            L.append("            return;")
            L.append("        }")
    L.append("        (void)n;")
    L.append("    }")
    # dump of the enabled view
    L.append("    void dump(const std::string &pre, std::vector<std::string> &out) const {")
    if cls.selftog:
        L.append("        out.push_back(pre + \"%s=\" + %s);" % (cls.selftog, dump_expr("T", cls.selftog)))
        L.append("        if(!%s) return;" % cls.selftog)
    for f in cls.fields:
        n = f["name"]
        if f["role"] == "param" and f.get("selftog"):
            continue
        if f["role"] == "param":
            L.append("        %sout.push_back(pre + \"%s=\" + %s);" % (("if(%s) " % f["en"]) if f.get("en") else "", n, dump_expr(f["kind"], n)))
        elif f["role"] == "array":
            L.append("        for(int k = 0; k < %d; ++k) out.push_back(pre + \"%s\" + std::to_string(k) + \"=\" + %s);" % (
                f["n"], n, dump_expr({"I": "I", "F": "F", "T": "T", "O": "O"}[f["ekind"]], n + "[k]")))
        elif f["role"] == "eleaf":
            for lf in f["leaves"]:
                L.append("        for(int k = 0; k < %d; ++k) out.push_back(pre + \"%s\" + std::to_string(k) + \"/%s=\" + %s);" % (
                    f["n"], n, lf["name"], dump_expr(lf["kind"], "%s_%s[k]" % (n, lf["name"]))))
        else:
            en = f["en"]
            cond = en if en else "true"
            if f["mode"] == "emb":
                L.append("        if(%s) %s.dump(pre + \"%s/\", out);" % (cond, n, n))
            elif f["mode"] == "embs":
                L.append("        if(%s) for(int k = 0; k < %d; ++k) %s[k].dump(pre + \"%s\" + std::to_string(k) + \"/\", out);" % (cond, f["n"], n, n))
            elif f["mode"] == "ptr":
                L.append("        if(%s) { if(%s) %s->dump(pre + \"%s/\", out); else out.push_back(pre + \"%s/=NULL-BUT-ENABLED\"); }" % (cond, n, n, n, n))
                L.append("        else if(%s) out.push_back(pre + \"%s/=ALLOCATED-BUT-DISABLED\");" % (n, n))
            else:
                L.append("        for(int k = 0; k < %d; ++k) {" % f["n"])
                L.append("            std::string q = pre + \"%s\" + std::to_string(k) + \"/\";" % n)
                L.append("            if(%s) { if(%s[k]) %s[k]->dump(q, out); else out.push_back(q + \"=NULL-BUT-ENABLED\"); }" % (cond, n, n))
                L.append("            else if(%s[k]) out.push_back(q + \"=ALLOCATED-BUT-DISABLED\");" % n)
                L.append("        }")
    L.append("    }")
    L.append("};")
    # ports
    L.append("#define rObject %s" % cn)
    L.append("#undef rChangeCb")
    L.append("#define rChangeCb obj->changed(data.port->name);")
    L.append("const rtosc::Ports %s::ports = {" % cn)
    if cls.selfmode == "self":
        L.append("    rSelf(%s, rEnabledBy(%s))," % (cn, cls.selftog))
    for f in cls.fields:
        n = f["name"]
        if f["role"] == "param":
            k = f["kind"]
            dep = (" rDepends(%s)," % ", ".join(f["deps"])) if f["deps"] else ""
            if f.get("en"):
                dep += " rEnabledBy(%s)," % f["en"]
            if k == "I":
                L.append("    rParamI(%s,%s%s%s \"d\")," % (n, macro_range(f, False), macro_default(k, f), dep))
            elif k == "C":
                L.append("    rParam(%s,%s%s \"d\")," % (n, macro_default(k, f), dep))
            elif k == "F":
                L.append("    rParamF(%s,%s%s%s \"d\")," % (n, macro_range(f, True), macro_default(k, f), dep))
            elif k == "T":
                L.append("    rToggle(%s,%s%s \"d\")," % (n, macro_default(k, f), dep))
            elif k == "O":
                L.append("    rOption(%s, rOptions(%s),%s%s \"d\")," % (n, ", ".join(f["opts"]), macro_default(k, f), dep))
            elif k == "Z":
                L.append("    rString(%s, %d,%s%s \"d\")," % (n, f["len"], macro_default(k, f), dep))
        elif f["role"] == "array":
            mac = {"I": "rArrayI", "F": "rArrayF", "T": "rArrayT", "O": "rArrayOption"}[f["ekind"]]

            def spell(vals):
                # option elements by symbol where the port spells them so
                if f["ekind"] == "O" and f.get("ostyle") == "sym":
                    return [("S", f["opts"][v[1]].encode()) for v in vals]
                return vals
            dtext = arr_text(spell(f["dflts"]), f.get("dstyle", "plain"))
            pre_ = ""
            if f.get("pdflt"):
                pre_ = " rDefaultDepends(%s)," % f["pdflt"][0]
                for key in sorted(f["pdflt"][1]):
                    pre_ += " rPreset(%d, %s)," % (key, arr_text(f["pdflt"][1][key], f.get("dstyle", "plain")))
            rng_ = macro_range(f, f["ekind"] == "F") if f["ekind"] in ("I", "F") else ""
            if f["ekind"] == "O":
                rng_ = " rOptions(%s)," % ", ".join(f["opts"])
            L.append("    %s(%s, %d,%s%s rDefault(%s), \"d\")," % (mac, n, f["n"], rng_, pre_, dtext))
        elif f["role"] == "eleaf":
            for lf in f["leaves"]:
                var = "obj->%s_%s[idx]" % (n, lf["name"])
                if lf["kind"] == "T":
                    rd, wr = "data.reply(loc, %s ? \"T\" : \"F\");" % var, "%s = rtosc_argument(msg, 0).T;" % var
                elif lf["kind"] == "I":
                    rd, wr = "data.reply(loc, \"i\", %s);" % var, "%s = rtosc_argument(msg, 0).i;" % var
                else:
                    rd, wr = "data.reply(loc, \"f\", %s);" % var, "%s = rtosc_argument(msg, 0).f;" % var
                L.append("    {\"%s\", rProp(parameter) rDefault(%s) rDoc(\"d\"), NULL," % (eleaf_port_name(f, lf), arr_text(lf["dflts"], lf.get("dstyle", "plain"))))
                L.append("        rBOILS_BEGIN if(!strcmp(\"\", args)) %s else %s rBOILS_END}," % (rd, wr))
        else:
            en = (" rEnabledBy(%s)," % f["en"]) if f["en"] else ""
            if f.get("selfport"):
                en = " rEnabledBy(%s/%s)," % (n, f["selfport"])
            if f.get("sdeps"):
                en += " rDepends(%s)," % ", ".join(f["sdeps"])
            sc = f["cls"].cname
            if f["mode"] == "emb":
                L.append("    rRecur(%s,%s \"d\")," % (n, en))
            elif f["mode"] == "embs":
                L.append("    rRecurs(%s, %d,%s \"d\")," % (n, f["n"], en))
            elif f["mode"] == "ptr":
                L.append("    rRecurp(%s,%s \"d\")," % (n, en))
            else:
                # rRecursp dereferences a NULL element; applications with optional elements
                # write the same callback with the NULL test of rRecurpCb
                L.append("    {\"%s#%d/\", %s%s rDoc(\"d\"), &%s::ports," % (n, f["n"], ("rEnabledBy(%s)" % f["en"]) if f["en"] else "",
                                                                              (" rDepends(%s)" % ", ".join(f["sdeps"])) if f.get("sdeps") else "", sc))
                L.append("        rBOILS_BEGIN data.obj = obj->%s[idx]; if(obj->%s[idx] == NULL) return; SNIP %s::ports.dispatch(msg, data); rBOILS_END}," % (n, n, sc))
    L.append("};")
    L.append("#undef rChangeCb")
    L.append("#define rChangeCb")
    L.append("#undef rObject")
    L.append("")
    out.extend(L)


def dump_expr(kind, expr):
    if kind in ("I", "O", "H"):
        return "(\"i\" + std::to_string((int)%s))" % expr
    if kind == "C":
        return "(\"c\" + std::to_string((int)%s))" % expr
    if kind == "F":
        return "(\"f\" + vf2hex(%s))" % expr
    if kind == "T":
        return "std::string(%s ? \"T\" : \"F\")" % expr
    if kind == "Z":
        return "(\"s\" + vstrhex(%s))" % expr
    raise ValueError(kind)


# ------------------------------------------------------------------------------------
# the pool
# ------------------------------------------------------------------------------------
class App:
    pass


SHAPES = [
    # (seed, shape)
    (101, dict(minp=8, maxp=10, maxarr=2, minsub=0, maxsub=0, depth=0, pdep=0.6, allkinds=True)),
    (102, dict(minp=3, maxp=5, maxarr=1, minsub=2, maxsub=3, depth=1, pdep=0.5)),
    (103, dict(minp=2, maxp=4, maxarr=1, minsub=1, maxsub=2, depth=2, pdep=0.6)),
    (104, dict(minp=2, maxp=4, maxarr=1, minsub=2, maxsub=2, depth=2, pdep=0.7)),
    (105, dict(minp=3, maxp=6, maxarr=2, minsub=1, maxsub=3, depth=1, pdep=0.8)),
    (106, dict(minp=2, maxp=3, maxarr=0, minsub=2, maxsub=3, depth=2, pdep=0.5)),
    # added for the seeded changes C12-4 / C13-4: arrays long enough for range compression (5..9 elements) and
    # rDepends lists of 6..8 entries
    (107, dict(minp=10, maxp=12, maxarr=3, minsub=0, maxsub=0, depth=0, pdep=0.7, allkinds=True, bigarr=True, longdeps=True)),
    (108, dict(minp=8, maxp=9, maxarr=2, minsub=1, maxsub=2, depth=1, pdep=0.6, bigarr=True, longdeps=True)),
    # added after the white-box reviews of C12/C13:
    # A8  wide table: rDepends lists / rOptions / rPresets of 12..16 entries, arrays of 10..14 elements with defaults spelled
    #     as repetitions / ranges / per preset, strings of a few hundred characters
    (109, dict(minp=18, maxp=20, minarr=5, maxarr=6, minsub=0, maxsub=0, depth=0, pdep=0.5, allkinds=True, longdeps2=True,
               optcounts=[2, 3, 12, 13, 16], strlens=[8, 300, 400], arrlens=(10, 14), arrstyles=True)),
    # A9  a chain of seven preset-dependent defaults, rEnabledBy on parameters, sub-trees with rDepends, ports with the
    #     enumeration inside their name (v#3/en), sibling names that extend each other
    (234, dict(minp=3, maxp=4, minarr=1, maxarr=2, minsub=1, maxsub=2, depth=1, pdep=0.5, chain=7, leafen=0.6, subdeps=0.7, eleaf=1,
               prefixnames=0.35, arrstyles=True, arrlens=(3, 11))),
    # A10 the same constructs two levels deep
    (219, dict(minp=2, maxp=3, minarr=0, maxarr=1, minsub=1, maxsub=2, depth=2, pdep=0.6, leafen=0.55, subdeps=0.6, eleaf=1,
               prefixnames=0.3, arrstyles=True)),
    # added for the defect two observers reported on the unchanged library: sub-trees enabled by a toggle that lives INSIDE the
    # sub-tree - rRecur(sub, rEnabledBy(sub/t)) (port_is_enabled's `subport` branch) and rSelf(T, rEnabledBy(t)) in the
    # sub-tree's own table (doc/Guide.adoc)
    # A11 one level, small
    (311, dict(minp=2, maxp=4, maxarr=1, minsub=3, maxsub=4, depth=1, pdep=0.5, selfen=0.8)),
    # A12 two levels (self-enabled sub-trees below each other and below guarded ones), presets, rDepends on sub-trees
    (312, dict(minp=2, maxp=3, maxarr=1, minsub=2, maxsub=2, depth=2, pdep=0.6, selfen=0.6, subdeps=0.4, leafen=0.3)),
    # A13 rSelf tables that are off by default and have sub-trees of their own (the lines two levels below wait for the toggle)
    (402, dict(minp=2, maxp=3, maxarr=1, minsub=1, maxsub=2, depth=2, pdep=0.5, selfen=0.85)),
    # added after the second white-box review of C12:
    # A14 rEnabledBy naming int / option ports (sub-trees and parameters; enabled = non-zero), rArrayOption arrays with
    #     defaults spelled by symbol and by int
    (506, dict(minp=3, maxp=4, minarr=1, maxarr=2, minsub=3, maxsub=3, depth=1, pdep=0.4, intguards=0.7, leafen=0.5,
               arropt=0.6, arrstyles=True, arrlens=(3, 7))),
    # A15 the same two levels deep, guards of both sorts mixed
    (537, dict(minp=2, maxp=3, minarr=1, maxarr=2, minsub=2, maxsub=2, depth=2, pdep=0.5, intguards=0.5, leafen=0.4,
               arropt=0.5, arrstyles=True)),
    # A16 arrays of more than 100 elements with `[Nx v]` defaults (two-/three-digit element addresses, lines of hundreds of
    #     values); few other ports - the only application with more than ~80 parameter instances
    (503, dict(minp=3, maxp=3, minarr=0, maxarr=0, minsub=0, maxsub=0, depth=0, pdep=0.5,
               hugearr=[(128, "I"), (256, "F")])),
]

_POOL = None


def pool():
    global _POOL
    if _POOL is not None:
        return _POOL
    apps = []
    for n, (seed, shape) in enumerate(SHAPES):
        g = AppGen("A%d" % n, seed, shape)
        a = App()
        a.appid = "A%d" % n
        a.index = n
        a.root = g.root
        a.insts, a.walk, a.order, a.rank = flatten(g.root)
        a.canon = canon_values(a.insts, a.order)
        a.desc = descriptor(a)
        apps.append(a)
    _POOL = apps
    return apps


PRELUDE = r'''// GENERATED by tools/props/saveapps.py — do not edit.  Applications for engines `save`/`order`.
#include <rtosc/rtosc.h>
#include <rtosc/ports.h>
#include <rtosc/port-sugar.h>
#include <cstring>
#include <cstdint>
#include <string>
#include <vector>
static inline float vbits2f(uint32_t b) { float f; memcpy(&f, &b, 4); return f; }
static inline std::string vf2hex(float f) { uint32_t b; memcpy(&b, &f, 4); char t[16]; snprintf(t, sizeof t, "%08x", b); return t; }
static inline std::string vstrhex(const char *s) { std::string o; char t[4]; for(; *s; ++s) { snprintf(t, sizeof t, "%02x", (unsigned char)*s); o += t; } return o; }
'''


def cxx_source():
    out = [PRELUDE]
    apps = pool()
    for a in apps:
        gen_class_cxx(a.root, out, a)
    out.append("struct VApp { virtual ~VApp() {} virtual const rtosc::Ports &ports() = 0; virtual void *obj() = 0;")
    out.append("    virtual void dump(std::vector<std::string> &out) = 0; virtual const char *name() = 0; };")
    out.append("template <class R> struct VAppT : VApp { R r; const char *n; VAppT(const char *n_) : n(n_) {}")
    out.append("    const rtosc::Ports &ports() { return R::ports; } void *obj() { return &r; }")
    out.append("    void dump(std::vector<std::string> &out) { r.dump(\"/\", out); } const char *name() { return n; } };")
    out.append("static VApp *make_app(int id) {")
    out.append("    switch(id) {")
    for a in apps:
        out.append("        case %d: return new VAppT<%s>(\"%s\");" % (a.index, a.root.cname, a.appid))
    out.append("    }")
    out.append("    return nullptr;")
    out.append("}")
    return "\n".join(out) + "\n"


def write_if_changed(path, text):
    try:
        if open(path).read() == text:
            return False
    except OSError:
        pass
    with open(path, "w") as f:
        f.write(text)
    return True
