"""C16 — Argument-value comparison is a coherent order, blind to range compression."""
import struct

PROP = "C16"
ENGINE = "argval"
LEAN_MODULES = ["RtoscModel.Props.C16"]
THEOREMS = [
    "Rtosc.ArgVal.cmp_refl", "Rtosc.ArgVal.cmp_antisymm", "Rtosc.ArgVal.cmp_trans",
    "Rtosc.ArgVal.cmp_zero_iff_eq", "Rtosc.ArgVal.orders_as_documented",
    "Rtosc.ArgVal.cmp_lexicographic", "Rtosc.ArgVal.compress_blind",
    "Rtosc.ArgVal.compress_const_run", "Rtosc.ArgVal.compress_arith_run", "Rtosc.ArgVal.expandList_arr_congr",
    "Rtosc.ArgVal.eq_spec",
]
HARNESS = {"src": ["argval.cpp"], "deps": ["common.h", "argval.cpp"]}
RULE = ("op line = 2 or 3 argument-value lists in the library's flat memory layout; lists of 0..6 values over "
        "every type (i c r h t f d m s S b T F N I), values from small sets (ties, prefixes, NULL strings, "
        "signed zero, infinities, boundary integers), arrays of every element type with 0..4 elements (also nested, "
        "also tagged with the first/last element's type or ' '), triples built by mutating/truncating a common "
        "list; for compress-blindness each list is paired with other layouts of the same expanded list (every "
        "choice of `N x value` and `start … end` ranges over its constant and arithmetic runs, recursively inside "
        "arrays; exhaustive per list in the thorough tier up to 64 layouts); a small stream with infinite ranges and "
        "NaNs is compared with the model only.  A case is non-trivial when some list has >= 2 cells; "
        "distinct = distinct op line")
ASSUMPTIONS = ["lists are well-formed flat layouts of structured argument lists (array `len` = number of cells, "
               "range header followed by [delta] start, delta and start of the same numeric type c i h f d or T/F)",
               "no infinite range (num = 0) and no NaN in the lists the order laws are stated for",
               "integer range arithmetic wraps around in two's complement (fixes/C10-10-argval-math-wrap.patch); on a tree "
               "without that patch the generator stays inside int32/int64 (signed overflow is undefined behaviour in C)",
               "default comparison options (float_tolerance 0.0)",
               "fix patches fixes/C16-blob-prefix, C16-array-type, C16-itr-repeated-array, C01-avmessage (and C10-10-argval-math-wrap for wrapping ranges) are applied"]
TRUSTED = ["hand-written models RtoscModel/ArgVal/{Val,Float,Math,Itr,Cmp,Msg}.lean of arg-val-cmp.c, arg-val-itr.c, "
           "rtosc_arg_val_range_arg (arg-val-math.c) and rtosc_avmessage (arg-val.c); C01's model of rtosc_amessage",
           "memcmp/strcmp modelled by their sign; IEEE-754 round-to-nearest-even float/double arithmetic (SSE)"]
LEVEL_TEXT = ("Lean theorems (cmp_refl, cmp_antisymm, cmp_trans, cmp_zero_iff_eq, orders_as_documented, "
              "cmp_lexicographic, compress_blind, compress_const_run, compress_arith_run) hold for all argument lists of "
              "any length and nesting without infinite ranges and NaN; the model they are about is compared with the "
              "compiled implementation (ASan/UBSan) on generated pairs/triples and all their compressed layouts, and the "
              "order laws and compress-blindness are also checked directly on the implementation's outputs")

# ------------------------------------------------------------------------------------------
# values, reference arithmetic (independent of the Lean model)
# ------------------------------------------------------------------------------------------
I32 = (-2 ** 31, 2 ** 31 - 1)
I64 = (-2 ** 63, 2 ** 63 - 1)


def f32bits(x):
    return struct.unpack("<I", struct.pack("<f", x))[0]


def bits32f(b):
    return struct.unpack("<f", struct.pack("<I", b))[0]


def f64bits(x):
    return struct.unpack("<Q", struct.pack("<d", x))[0]


def bits64f(b):
    return struct.unpack("<d", struct.pack("<Q", b))[0]


def r32(x):
    """round a double to float32 (as a double)"""
    try:
        return struct.unpack("<f", struct.pack("<f", x))[0]
    except OverflowError:
        return float("inf") if x > 0 else float("-inf")


def is_nan_val(v):
    if v[0] == "f":
        return (v[1] & 0x7fffffff) > 0x7f800000
    if v[0] == "d":
        return (v[1] & 0x7fffffffffffffff) > 0x7ff0000000000000
    if v[0] == "a":
        return any(is_nan_val(e) for e in v[2])
    return False


# Integer range arithmetic wraps around only with fixes/C10-10-argval-math-wrap.patch; without it the
# same operands are signed overflow (UB, a UBSan abort).  Wrapping operands are generated only when the
# working tree contains the patch (set in generate()).
ALLOW_WRAP = [False]


def wrap(v, bits):
    m = 1 << bits
    return (v + (m >> 1)) % m - (m >> 1)


def range_val(delta, start, i):
    """start + i*delta as rtosc_arg_val_range_arg computes it; None = not representable
    (overflow, NaN, unsupported type)."""
    t = delta[0]
    if t in "TF":
        if start[0] not in "TF":
            return None
        n = "T" if i != 0 else "F"
        m = "T" if (n == "T" and t == "T") else "F"
        return ("T",) if (start[0] != m) else ("F",)
    if start[0] != t:
        return None
    if t in "ci":
        p = i * delta[1]
        s = start[1] + wrap(p, 32)
        if not ALLOW_WRAP[0] and not (I32[0] <= p <= I32[1] and I32[0] <= s <= I32[1]):
            return None
        return (t, wrap(s, 32))
    if t == "h":
        p = i * delta[1]
        s = start[1] + wrap(p, 64)
        if not ALLOW_WRAP[0] and not (I64[0] <= p <= I64[1] and I64[0] <= s <= I64[1]):
            return None
        return (t, wrap(s, 64))
    if t == "f":
        d, s = bits32f(delta[1]), bits32f(start[1])
        if d != d or s != s:
            return None
        m = r32(r32(float(i)) * d)
        if m != m:
            return None
        res = r32(s + m)
        return ("f", f32bits(res)) if res == res else ("f", 0xffc00000)
    if t == "d":
        d, s = bits64f(delta[1]), bits64f(start[1])
        if d != d or s != s:
            return None
        m = float(i) * d
        if m != m:
            return None
        res = s + m
        return ("d", f64bits(res)) if res == res else ("d", 0xfff8000000000000)
    return None


def sub_val(a, b):
    """candidate delta a - b"""
    t = a[0]
    if t in "TF" and b[0] in "TF":
        return ("T",) if a[0] != b[0] else ("F",)
    if t != b[0]:
        return None
    if t in "ci":
        d = a[1] - b[1]
        return (t, wrap(d, 32)) if (ALLOW_WRAP[0] or I32[0] <= d <= I32[1]) else None
    if t == "h":
        d = a[1] - b[1]
        return (t, wrap(d, 64)) if (ALLOW_WRAP[0] or I64[0] <= d <= I64[1]) else None
    if t == "f":
        x, y = bits32f(a[1]), bits32f(b[1])
        r = r32(x - y) if (x == x and y == y and abs(x) != float("inf") and abs(y) != float("inf")) else None
        return ("f", f32bits(r)) if r is not None and r == r else None
    if t == "d":
        x, y = bits64f(a[1]), bits64f(b[1])
        r = (x - y) if (x == x and y == y and abs(x) != float("inf") and abs(y) != float("inf")) else None
        return ("d", f64bits(r)) if r is not None and r == r else None
    return None


def hx(b):
    return b.hex() if b else "-"


def scalar_tok(v):
    t = v[0]
    if t in "icrht":
        return "%s%d" % (t, v[1])
    if t == "f":
        return "f%08x" % v[1]
    if t == "d":
        return "d%016x" % v[1]
    if t == "m":
        return "m" + v[1].hex()
    if t in "sS":
        return t + ("~" if v[1] is None else hx(v[1]))
    if t == "b":
        return "b" + hx(v[1])
    return t  # T F N I


# items: value | ('rep', n, item) | ('range', n, delta, start) | ('a', tag, [items])
def flatten(items):
    out = []
    for it in items:
        k = it[0]
        if k == "a":
            inner = flatten(it[2])
            out.append("a%02x.%d" % (it[1], len(inner)))
            out += inner
        elif k == "rep":
            out.append("-%d.0" % it[1])
            out += flatten([it[2]])
        elif k == "range":
            out.append("-%d.1" % it[1])
            out.append(scalar_tok(it[2]))
            out.append(scalar_tok(it[3]))
        else:
            out.append(scalar_tok(it))
    return out


def list_tok(items):
    f = flatten(items)
    return ",".join(f) if f else "-"


def expand(items):
    """items -> values (arrays keep their tag, contents expanded); None if a range is not computable"""
    out = []
    for it in items:
        k = it[0]
        if k == "a":
            inner = expand(it[2])
            if inner is None:
                return None
            out.append(("a", it[1], inner))
        elif k == "rep":
            inner = expand([it[2]])
            if inner is None or len(inner) != 1:
                return None
            out += [inner[0]] * it[1]
        elif k == "range":
            for i in range(it[1]):
                v = range_val(it[2], it[3], i)
                if v is None:
                    return None
                out.append(v)
        else:
            out.append(it)
    return out


# ------------------------------------------------------------------------------------------
# generator
# ------------------------------------------------------------------------------------------
F32S = [0x00000000, 0x80000000, 0x3f000000, 0x3f800000, 0x3fc00000, 0x40000000, 0xbf800000, 0x40400000,
        0x3dcccccd, 0x7f800000, 0xff800000, 0x00000001, 0x7f7fffff, 0x4b800000, 0x3e4ccccd]
F64S = [0x0000000000000000, 0x8000000000000000, 0x3fe0000000000000, 0x3ff0000000000000, 0x3ff8000000000000,
        0x4000000000000000, 0xbff0000000000000, 0x3fb999999999999a, 0x7ff0000000000000, 0xfff0000000000000,
        0x0000000000000001, 0x7fefffffffffffff, 0x4008000000000000, 0x3fc999999999999a]
STRS = [b"", b"a", b"ab", b"abc", b"b", b"a\x80", b"\xff", b"A", None]
BLOBS = [b"", b"\x01", b"\x01\x02", b"\x01\x02\x00", b"\x01\x02\x00\x00", b"\x01\x03", b"\x80", b"\x00", b"\x01\x02\x03"]
POOL = {
    "i": [-2, -1, 0, 1, 2, 3, 4, 5, 7, 2147483647, -2147483648],
    "c": [0, 97, 98, 99, 100],
    "r": [0, -1, 255, 16711680],
    "h": [-5000000000, -1, 0, 1, 2, 3, 5000000000, 9223372036854775807, -9223372036854775808],
    "t": [0, 1, 2, 3, 4294967296, 18446744073709551615],
    "m": [bytes([0, 0, 0, 0]), bytes([0, 0, 0, 1]), bytes([144, 60, 127, 0]), bytes([255, 0, 0, 0]), bytes([0, 1, 0, 0])],
}
SCALAR_TYPES = "icrhtfdmsSbTFNI"
DELTA_TYPES = "cihfdTF"


def rand_scalar(rng, t):
    if t in POOL:
        return (t, rng.choice(POOL[t]))
    if t == "f":
        return ("f", rng.choice(F32S))
    if t == "d":
        return ("d", rng.choice(F64S))
    if t in "sS":
        return (t, rng.choice(STRS))
    if t == "b":
        return ("b", rng.choice(BLOBS))
    return (t,)


def elem_types(t):
    return "TF" if t in "TF" else t


def rand_run(rng, t, n):
    """n values of type t forming (often) a constant or arithmetic run"""
    first = rand_scalar(rng, rng.choice(elem_types(t)))
    r = rng.random()
    if n == 1 or r < 0.25:
        return [rand_scalar(rng, rng.choice(elem_types(t))) for _ in range(n)]
    if r < 0.55:
        return [first] * n
    if t in DELTA_TYPES:
        if t in "TF":
            delta = rng.choice([("T",), ("F",)])
        elif t in "cih":
            delta = (t, rng.choice([1, 1, 2, -1, 3, 0, -2]))
        elif t == "f":
            delta = ("f", rng.choice([0x3f000000, 0x3f800000, 0xbf000000, 0x3dcccccd, 0x3e800000]))
        else:
            delta = ("d", rng.choice([0x3fe0000000000000, 0x3ff0000000000000, 0xbfe0000000000000, 0x3fb999999999999a]))
        vals = [range_val(delta, first, i) for i in range(n)]
        if all(v is not None and not is_nan_val(v) for v in vals):
            return vals
    return [first] * n


def rand_array(rng, depth):
    n = rng.randint(0, 4)
    if depth < 2 and rng.random() < 0.12:
        elems = [rand_array(rng, depth + 1) for _ in range(min(n, 2))]
        if elems and rng.random() < 0.5:
            elems = [elems[0]] * len(elems)
        tag = ord("a") if elems else 32
        return ("a", tag, elems)
    t = rng.choice(SCALAR_TYPES)
    elems = rand_run(rng, t, n) if n else []
    r = rng.random()
    if elems:
        tag = ord(elems[-1][0]) if r < 0.6 else ord(elems[0][0])
    else:
        tag = 32 if r < 0.5 else ord(rng.choice("TFiNIS sa"))
    return ("a", tag, elems)


def rand_values(rng, maxlen=6):
    """an expanded list of 0..maxlen values"""
    n = rng.choice([0, 1, 1, 2, 2, 3, 3, 4, 5, 6])
    n = min(n, maxlen)
    out = []
    while len(out) < n:
        r = rng.random()
        if r < 0.2:
            a = rand_array(rng, 0)
            k = 1 if rng.random() < 0.7 else rng.randint(2, 3)
            out += [a] * k
        else:
            t = rng.choice(SCALAR_TYPES)
            k = rng.choice([1, 1, 2, 3, 4])
            out += rand_run(rng, t, k)
    return out[:n]


def mutate(rng, vals):
    """a list close to vals: equal, prefix, one value changed within its type, a value appended"""
    vals = list(vals)
    r = rng.random()
    if r < 0.2 or not vals:
        if r < 0.1:
            return vals
        return vals + rand_values(rng, 2)
    if r < 0.4:
        return vals[:rng.randint(0, len(vals) - 1)]
    i = rng.randrange(len(vals))
    v = vals[i]
    if v[0] == "a":
        if r < 0.7:
            inner = mutate(rng, v[2])
            tag = v[1]
            if rng.random() < 0.3:
                tag = rng.choice([ord("T"), ord("F"), ord("i"), 32, ord("N"), v[1]])
            vals[i] = ("a", tag, inner)
        else:
            vals[i] = rand_array(rng, 0)
    else:
        vals[i] = rand_scalar(rng, v[0] if rng.random() < 0.8 else rng.choice(SCALAR_TYPES))
    return vals


def const_run_len(vals, p):
    n = 1
    while p + n < len(vals) and vals[p + n] == vals[p]:
        n += 1
    return n


def arith_runs(vals, p):
    """[(delta, maxlen)] of arithmetic runs (with delta) starting at p, maxlen >= 2"""
    v0 = vals[p]
    if v0[0] not in DELTA_TYPES or p + 1 >= len(vals):
        return []
    out = []
    cands = []
    d = sub_val(vals[p + 1], v0)
    if d is not None:
        cands.append(d)
    for d in cands:
        n = 0
        while p + n < len(vals) and range_val(d, v0, n) == vals[p + n]:
            n += 1
        if n >= 2:
            out.append((d, n))
    return out


def layouts(vals, limit):
    """all layouts (item lists) of an expanded list, at most `limit` (depth-first)"""
    res = []

    def inner_layouts(v, lim):
        if v[0] == "a":
            return [("a", v[1], l) for l in layouts(v[2], lim)]
        return [v]

    def go(p, acc):
        if len(res) >= limit:
            return
        if p == len(vals):
            res.append(list(acc))
            return
        v = vals[p]
        for x in inner_layouts(v, 3):
            go(p + 1, acc + [x])
            if len(res) >= limit:
                return
        cr = const_run_len(vals, p)
        for n in range(2, cr + 1):
            for x in inner_layouts(v, 2):
                go(p + n, acc + [("rep", n, x)])
        for d, m in arith_runs(vals, p):
            for n in range(2, m + 1):
                go(p + n, acc + [("range", n, d, v)])

    go(0, [])
    return res


def rand_layout(rng, vals, p_compress=0.7):
    """one random layout of an expanded list"""
    out = []
    p = 0
    while p < len(vals):
        v = vals[p]
        opts = []
        cr = const_run_len(vals, p)
        if cr >= 2:
            opts.append(("rep", cr))
        for d, m in arith_runs(vals, p):
            opts.append(("range", m, d))
        if rng.random() < 0.03:
            opts.append(("rep", 1))
        if opts and rng.random() < p_compress:
            o = rng.choice(opts)
            if o[0] == "rep":
                n = o[1] if rng.random() < 0.6 else rng.randint(min(2, o[1]), o[1])
                x = ("a", v[1], rand_layout(rng, v[2], p_compress)) if v[0] == "a" else v
                out.append(("rep", n, x))
                p += n
            else:
                n = o[1] if rng.random() < 0.6 else rng.randint(2, o[1])
                out.append(("range", n, o[2], v))
                p += n
        else:
            out.append(("a", v[1], rand_layout(rng, v[2], p_compress)) if v[0] == "a" else v)
            p += 1
    return out


def count_stats(stats, toks):
    for c in toks:
        k = c[0]
        if k == "-":
            kind = "range_delta" if c.endswith(".1") else ("range_inf" if c.startswith("-0.") else "range_rep")
            stats["cells"][kind] = stats["cells"].get(kind, 0) + 1
        else:
            stats["cells"][k] = stats["cells"].get(k, 0) + 1


def generate(rng, tier, stats):
    n = 30000 if tier == "quick" else 1000000
    try:
        import os
        src = open(os.path.join(os.environ.get("VERIF_REPO", "/repo"), "src/cpp/arg-val-math.c")).read()
        ALLOW_WRAP[0] = "(uint32_t)lhs->val.i * (uint32_t)rhs->val.i" in src
    except OSError:
        ALLOW_WRAP[0] = False
    stats.update({"triples": 0, "layout_pairs": 0, "layout_pair_with_third": 0, "exhaustive_layout_lists": 0,
                  "exhaustive_layout_ops": 0, "infinite_or_nan_stream": 0, "cells": {}, "list_len_hist": {},
                  "compressed_lists": 0, "wrapping_integer_ranges_generated": ALLOW_WRAP[0]})

    def emit(lists, tags):
        toks = []
        for l in lists:
            f = flatten(l)
            count_stats(stats, f)
            stats["list_len_hist"][str(len(f))] = stats["list_len_hist"].get(str(len(f)), 0) + 1
            if any(c[0] == "-" for c in f):
                stats["compressed_lists"] += 1
            toks.append(",".join(f) if f else "-")
        return " ".join(toks + tags)

    for it in range(n):
        r = rng.random()
        if r < 0.45:
            # triples of related lists, each in a random layout (laws + correspondence)
            a = rand_values(rng)
            b = mutate(rng, a) if rng.random() < 0.8 else rand_values(rng)
            c = mutate(rng, rng.choice([a, b])) if rng.random() < 0.8 else rand_values(rng)
            ls = [a, b, c]
            rng.shuffle(ls)
            nan = any(is_nan_val(v) for l in ls for v in l)
            stats["triples"] += 1
            yield emit([rand_layout(rng, l, 0.5) for l in ls], ["=nan"] if nan else ["=law"])
        elif r < 0.75:
            # two layouts of the same expanded list (+ an unrelated third list)
            a = rand_values(rng)
            l1 = rand_layout(rng, a, 0.9)
            l2 = rand_layout(rng, a, 0.3) if rng.random() < 0.5 else list(
                ("a", v[1], rand_layout(rng, v[2], 0.0)) if v[0] == "a" else v for v in a)
            if rng.random() < 0.5:
                b = mutate(rng, a)
                stats["layout_pair_with_third"] += 1
                yield emit([l1, l2, rand_layout(rng, b, 0.5)], ["=same01", "=law"])
            else:
                stats["layout_pairs"] += 1
                yield emit([l1, l2], ["=same01", "=law"])
        elif r < 0.93:
            # every layout of one list against its plain form
            a = rand_values(rng, 5)
            ls = layouts(a, 64 if tier == "thorough" else 12)
            stats["exhaustive_layout_lists"] += 1
            plain = ls[0]
            for l in ls[1:]:
                stats["exhaustive_layout_ops"] += 1
                yield emit([plain, l], ["=same01", "=law"])
        else:
            # infinite ranges / NaN: model correspondence only
            a = rand_values(rng, 4)
            b = mutate(rng, a)
            la, lb = rand_layout(rng, a, 0.5), rand_layout(rng, b, 0.5)
            k = rng.random()
            if k < 0.4 and la:
                v = a[-1]
                if v[0] != "a":
                    la = la + [("rep", 0, v)]
            elif k < 0.6 and lb:
                v = b[-1]
                if v[0] in "cih" and abs(v[1]) < 100000:      # start + i*delta stays far from overflow
                    lb = lb + [("range", 0, (v[0], 1), v)]
            else:
                nanv = rng.choice([("f", 0x7fc00000), ("d", 0x7ff8000000000000), ("f", 0xffc00001)])
                la = la + [nanv]
                if rng.random() < 0.5:
                    lb = lb + [nanv]
            stats["infinite_or_nan_stream"] += 1
            yield emit([la, lb], ["=corr"])


def nontrivial(op):
    w = op.split()
    return any("," in t for t in w if not t.startswith("="))


# ------------------------------------------------------------------------------------------
# oracle: the property, on the implementation's output (independent of the Lean model)
# ------------------------------------------------------------------------------------------
def parse_out(out, n):
    try:
        w = out.split(" ")
        assert w[0] == "E" and w[1 + n * n] == "C" and w[2 + 2 * n * n] == "I"
        e = [int(x) for x in w[1:1 + n * n]]
        c = [int(x) for x in w[2 + n * n:2 + 2 * n * n]]
        its = w[3 + 2 * n * n].split(";")
        assert w[4 + 2 * n * n] == "M"
        ms = w[5 + 2 * n * n:]
        assert len(its) == n and len(ms) == n
        E = [e[i * n:(i + 1) * n] for i in range(n)]
        C = [c[i * n:(i + 1) * n] for i in range(n)]
        return E, C, its, ms
    except Exception:
        return None


def parse_scalar(tok):
    k = tok[0]
    r = tok[1:]
    if k in "icrh":
        return (k, int(r))
    if k == "t":
        return (k, int(r))
    if k in "fd":
        return (k, int(r, 16))
    if k == "m":
        return (k, bytes.fromhex(r))
    if k in "sS":
        return (k, None if r == "~" else (b"" if r == "-" else bytes.fromhex(r)))
    if k == "b":
        return (k, b"" if r == "-" else bytes.fromhex(r))
    return None


def sgn(x):
    return (x > 0) - (x < 0)


def doc_order(a, b):
    """documented order of two scalars of the same type (None: not documented / NaN)"""
    t = a[0]
    if t != b[0]:
        return None
    if t in "icrh":
        return sgn(a[1] - b[1])
    if t in "fd":
        x = bits32f(a[1]) if t == "f" else bits64f(a[1])
        y = bits32f(b[1]) if t == "f" else bits64f(b[1])
        if x != x or y != y:
            return None
        return sgn((x > y) - (x < y))
    if t == "t":
        if a[1] == 1 or b[1] == 1:
            return 0 if a[1] == b[1] else (-1 if a[1] == 1 else 1)
        return sgn(a[1] - b[1])
    if t in "sS":
        if a[1] is None or b[1] is None:
            return None
        x, y = a[1].split(b"\0")[0], b[1].split(b"\0")[0]
        return (x > y) - (x < y)
    if t in "bm":
        return (a[1] > b[1]) - (a[1] < b[1])
    return None


def oracle(op, out):
    w = op.split()
    lists = [t for t in w if not t.startswith("=")]
    tags = [t for t in w if t.startswith("=")]
    n = len(lists)
    if out.startswith("crash"):
        return "implementation crashed: " + out
    p = parse_out(out, n)
    if p is None:
        return "unparsable output"
    E, C, its, ms = p
    if "=law" not in tags:
        return None
    for i in range(n):
        if E[i][i] != 1 or C[i][i] != 0:
            return "not reflexive on list %d: eq=%d cmp=%d" % (i, E[i][i], C[i][i])
        for j in range(n):
            if C[i][j] != -C[j][i]:
                return "antisymmetry: cmp(%d,%d)=%d cmp(%d,%d)=%d" % (i, j, C[i][j], j, i, C[j][i])
            if (E[i][j] == 1) != (C[i][j] == 0):
                return "eq/cmp disagree on (%d,%d): eq=%d cmp=%d" % (i, j, E[i][j], C[i][j])
    for i in range(n):
        for j in range(n):
            for k in range(n):
                if C[i][j] <= 0 and C[j][k] <= 0:
                    if C[i][k] > 0:
                        return "transitivity: %d<=%d<=%d but cmp(%d,%d)=%d" % (i, j, k, i, k, C[i][k])
                    if (C[i][j] < 0 or C[j][k] < 0) and C[i][k] == 0:
                        return "transitivity (strict): %d,%d,%d" % (i, j, k)
    if "=same01" in tags:
        if E[0][1] != 1 or C[0][1] != 0:
            return "compression changes equality/order: eq=%d cmp=%d" % (E[0][1], C[0][1])
        for k in range(n):
            if E[0][k] != E[1][k] or E[k][0] != E[k][1] or C[0][k] != C[1][k] or C[k][0] != C[k][1]:
                return "compression changes the comparison with list %d" % k
        if its[0] != its[1]:
            return "compression changes what iteration yields: %s vs %s" % (its[0][:80], its[1][:80])
        if ms[0] != ms[1]:
            return "compression changes the OSC message"
    # documented per-type orders on single scalars
    for i in range(n):
        for j in range(n):
            if "," in lists[i] or "," in lists[j] or lists[i] == "-" or lists[j] == "-":
                continue
            if lists[i][0] in "a-" or lists[j][0] in "a-":
                continue
            a, b = parse_scalar(lists[i]), parse_scalar(lists[j])
            if a is None or b is None:
                continue
            d = doc_order(a, b)
            if d is not None and C[i][j] != d:
                return "documented order: cmp(%s,%s)=%d, expected %d" % (lists[i], lists[j], C[i][j], d)
    return None


def neighbours(op, rng):
    """ops near a disagreeing one: every pair / sub-list of its lists"""
    w = [t for t in op.split() if not t.startswith("=")]
    out = []
    for a in w:
        for b in w:
            out.append("%s %s =law" % (a, b))
    return out
