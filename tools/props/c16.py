"""C16 — Argument-value comparison is a coherent order, blind to range compression."""
import struct

PROP = "C16"
ENGINE = "argval"
LEAN_MODULES = ["RtoscModel.Props.C16"]
THEOREMS = [
    "Rtosc.ArgVal.cmp_refl", "Rtosc.ArgVal.cmp_antisymm", "Rtosc.ArgVal.cmp_trans",
    "Rtosc.ArgVal.cmp_zero_iff_eq", "Rtosc.ArgVal.orders_as_documented",
    "Rtosc.ArgVal.cmp_lexicographic", "Rtosc.ArgVal.compress_blind",
    "Rtosc.ArgVal.compress_const_run", "Rtosc.ArgVal.compress_arith_run", "Rtosc.ArgVal.expandList_arr_congr",
    "Rtosc.ArgVal.eq_spec",
    "Rtosc.ArgVal.range_arith_int", "Rtosc.ArgVal.range_arith_float", "Rtosc.ArgVal.range_arith_bool",
    "Rtosc.ArgVal.avmessage_of_values",
]
HARNESS = {"src": ["argval.cpp"], "deps": ["common.h", "argval.cpp"]}
RULE = ("op line = 2 or 3 argument-value lists in the library's flat memory layout + tags; lists of 0..6 values over "
        "every type (i c r h t f d m s S b T F N I), values from small sets (ties, prefixes, NULL strings, "
        "signed zero, infinities, boundary integers), arrays of every element type with 0..4 elements (also nested, "
        "also tagged with the first/last element's type or ' '), triples built by mutating/truncating a common "
        "list; for compress-blindness each list is paired with other layouts of the same expanded list (every "
        "choice of `N x value` and `start … end` ranges over its constant and arithmetic runs, recursively inside "
        "arrays; exhaustive per list in the thorough tier up to 64 layouts); 5 % of the ops leave the small sets: "
        "(a) values from the whole range of their type (random 64-bit t/h, 32-bit i/c/r, MIDI, finite float/double "
        "bit patterns, strings/blobs of 0..40 bytes over {00 01 41 61 80 ff}) against their one-bit / one-byte / "
        "truncated neighbours, bare, inside lists and inside arrays; (b) constant runs (of scalars and of arrays) and "
        "arithmetic runs of every delta type (c i h f d T/F) of 7, 17, 129, 130 and 300 values as `N x v` / range, "
        "written out, split in two ranges, half written out, against the run continued by one value or with one "
        "value changed/removed; (c) lists of more than 130 cells with arrays of 5..40 elements; "
        "every op is run with opt = NULL, get_default_cmp_options() or an options struct {0.0} on the stack (3:1:1), "
        "and 40 % of the ops whose lists are single values go through rtosc_arg_vals_eq_single/_cmp_single; "
        "a small stream with infinite ranges and NaNs is compared with the model only.  "
        "A case is non-trivial when some list has >= 2 cells; distinct = distinct op line")
ASSUMPTIONS = ["lists are well-formed flat layouts of structured argument lists (array `len` = number of cells, "
               "range header followed by [delta] start, delta and start of the same numeric type c i h f d or T/F)",
               "no infinite range (num = 0) and no NaN in the lists the order laws are stated for (NaN is not excluded by "
               "the property text: with IEEE comparison a NaN is 'less' than everything in both directions, declared here)",
               "reading of 'orders …': lists and arrays are ordered by their first differing value, a proper prefix first; "
               "numbers = i c h (as integers) and f d (IEEE order, -0 = +0); strings up to their terminator as unsigned bytes. "
               "The statement fixes no order for MIDI values, colours ('r'), values of different types, a NULL string "
               "against a string, arrays of different element type ('T' and 'F' count as one) and NaN: for pairs of lists "
               "decided by such values the check requires the laws and compress-blindness only (the sign is neither "
               "compared with the model nor with a reference); the Lean model nevertheless fixes these orders as the code "
               "has them (memcmp, type character, NULL first, element type character) and the theorems are about that model",
               "lists with infinite ranges are outside the property (equality is not transitive on them); their eq/cmp results "
               "are compared with the model as the code has them, a disagreement there is reported without a failing input",
               "the bytes of an OSC message built from a list that contains an array are not part of the property (only that "
               "they do not depend on the layout): the check compares them between the lists of one op, not with the model",
               "integer range arithmetic wraps around in two's complement (fixes/C10-10-argval-math-wrap.patch); on a tree "
               "without that patch the generator stays inside int32/int64 (signed overflow is undefined behaviour in C)",
               "default comparison options only: opt == NULL, get_default_cmp_options() or any struct with float_tolerance 0.0 "
               "(all three are exercised and must give identical results); a non-zero float_tolerance is not covered "
               "(equality within a tolerance is not transitive)",
               "fix patches fixes/C16-blob-prefix, C16-array-type, C16-itr-repeated-array, C01-avmessage (and C10-10-argval-math-wrap for wrapping ranges) are applied"]
TRUSTED = ["hand-written models RtoscModel/ArgVal/{Val,Float,Math,Itr,Cmp,Msg}.lean of arg-val-cmp.c, arg-val-itr.c, "
           "rtosc_arg_val_range_arg (arg-val-math.c) and rtosc_avmessage (arg-val.c); C01's model of rtosc_amessage",
           "memcmp/strcmp modelled by their sign; IEEE-754 round-to-nearest-even float/double arithmetic (SSE)",
           "the law check on the raw signs (`L` verdict) is evaluated inside the harness (harness/argval.cpp law_verdict) "
           "and, identically, in the driver; the reference order in tools/props/c16.py decides which signs are withheld"]
LEVEL_TEXT = ("Lean theorems (cmp_refl, cmp_antisymm, cmp_trans, cmp_zero_iff_eq, orders_as_documented, "
              "cmp_lexicographic, compress_blind, compress_const_run, compress_arith_run, range_arith_int/_float/_bool, "
              "avmessage_of_values) hold for all argument lists of any length and nesting without infinite ranges and NaN, "
              "for the comparison with the default options (opt == NULL; the options argument is not modelled); the model "
              "they are about is compared with the compiled implementation (ASan/UBSan) on generated pairs/triples and all "
              "their compressed layouts — also with explicitly passed default options and through the _single entry "
              "points — and the order laws, the stated per-type orders (on whole lists) and compress-blindness are also "
              "checked directly on the implementation's outputs")
LEVEL_NOTE = ("Trusted: Lean kernel; the hand-written model is tied to the code by differential execution only; see evidence trusted_base.  "
              "Val.cmpList (the order the theorems speak about) reuses the model's cmpScalar also for the orders the property "
              "does not state (MIDI by memcmp, different types by type character, NULL string first, flags equal, array "
              "element types by character); the float order is the IEEE order expressed through the monotone key FFmt.key; "
              "an 'arithmetic run' is start + i*delta as range_arith_int/_float/_bool spell it out (wrapping integers, one "
              "rounding per float operation); the message clause of compress_blind is an equation of defined results when "
              "the list has no NULL string at top level (avmessage_of_values), with a NULL string both sides are the same "
              "undefined call strlen(NULL)")

# ------------------------------------------------------------------------------------------
# values, reference arithmetic (independent of the Lean model)
# ------------------------------------------------------------------------------------------
I32 = (-2 ** 31, 2 ** 31 - 1)
I64 = (-2 ** 63, 2 ** 63 - 1)


def f32bits(x):
    return struct.unpack("<I", struct.pack("<f", x))[0]


def bits32f(b):
    return struct.unpack("<f", struct.pack("<I", b))[0]


def f64bits(x):
    return struct.unpack("<Q", struct.pack("<d", x))[0]


def bits64f(b):
    return struct.unpack("<d", struct.pack("<Q", b))[0]


def r32(x):
    """round a double to float32 (as a double)"""
    try:
        return struct.unpack("<f", struct.pack("<f", x))[0]
    except OverflowError:
        return float("inf") if x > 0 else float("-inf")


def is_nan_val(v):
    if v[0] == "f":
        return (v[1] & 0x7fffffff) > 0x7f800000
    if v[0] == "d":
        return (v[1] & 0x7fffffffffffffff) > 0x7ff0000000000000
    if v[0] == "a":
        return any(is_nan_val(e) for e in v[2])
    return False


# Integer range arithmetic wraps around only with fixes/C10-10-argval-math-wrap.patch; without it the
# same operands are signed overflow (UB, a UBSan abort).  Wrapping operands are generated only when the
# working tree contains the patch (set in generate()).
ALLOW_WRAP = [False]


def wrap(v, bits):
    m = 1 << bits
    return (v + (m >> 1)) % m - (m >> 1)


def range_val(delta, start, i):
    """start + i*delta as rtosc_arg_val_range_arg computes it; None = not representable
    (overflow, NaN, unsupported type)."""
    t = delta[0]
    if t in "TF":
        if start[0] not in "TF":
            return None
        n = "T" if i != 0 else "F"
        m = "T" if (n == "T" and t == "T") else "F"
        return ("T",) if (start[0] != m) else ("F",)
    if start[0] != t:
        return None
    if t in "ci":
        p = i * delta[1]
        s = start[1] + wrap(p, 32)
        if not ALLOW_WRAP[0] and not (I32[0] <= p <= I32[1] and I32[0] <= s <= I32[1]):
            return None
        return (t, wrap(s, 32))
    if t == "h":
        p = i * delta[1]
        s = start[1] + wrap(p, 64)
        if not ALLOW_WRAP[0] and not (I64[0] <= p <= I64[1] and I64[0] <= s <= I64[1]):
            return None
        return (t, wrap(s, 64))
    if t == "f":
        d, s = bits32f(delta[1]), bits32f(start[1])
        if d != d or s != s:
            return None
        m = r32(r32(float(i)) * d)
        if m != m:
            return None
        res = r32(s + m)
        return ("f", f32bits(res)) if res == res else ("f", 0xffc00000)
    if t == "d":
        d, s = bits64f(delta[1]), bits64f(start[1])
        if d != d or s != s:
            return None
        m = float(i) * d
        if m != m:
            return None
        res = s + m
        return ("d", f64bits(res)) if res == res else ("d", 0xfff8000000000000)
    return None


def sub_val(a, b):
    """candidate delta a - b"""
    t = a[0]
    if t in "TF" and b[0] in "TF":
        return ("T",) if a[0] != b[0] else ("F",)
    if t != b[0]:
        return None
    if t in "ci":
        d = a[1] - b[1]
        return (t, wrap(d, 32)) if (ALLOW_WRAP[0] or I32[0] <= d <= I32[1]) else None
    if t == "h":
        d = a[1] - b[1]
        return (t, wrap(d, 64)) if (ALLOW_WRAP[0] or I64[0] <= d <= I64[1]) else None
    if t == "f":
        x, y = bits32f(a[1]), bits32f(b[1])
        r = r32(x - y) if (x == x and y == y and abs(x) != float("inf") and abs(y) != float("inf")) else None
        return ("f", f32bits(r)) if r is not None and r == r else None
    if t == "d":
        x, y = bits64f(a[1]), bits64f(b[1])
        r = (x - y) if (x == x and y == y and abs(x) != float("inf") and abs(y) != float("inf")) else None
        return ("d", f64bits(r)) if r is not None and r == r else None
    return None


def hx(b):
    return b.hex() if b else "-"


def scalar_tok(v):
    t = v[0]
    if t in "icrht":
        return "%s%d" % (t, v[1])
    if t == "f":
        return "f%08x" % v[1]
    if t == "d":
        return "d%016x" % v[1]
    if t == "m":
        return "m" + v[1].hex()
    if t in "sS":
        return t + ("~" if v[1] is None else hx(v[1]))
    if t == "b":
        return "b" + hx(v[1])
    return t  # T F N I


# items: value | ('rep', n, item) | ('range', n, delta, start) | ('a', tag, [items])
def flatten(items):
    out = []
    for it in items:
        k = it[0]
        if k == "a":
            inner = flatten(it[2])
            out.append("a%02x.%d" % (it[1], len(inner)))
            out += inner
        elif k == "rep":
            out.append("-%d.0" % it[1])
            out += flatten([it[2]])
        elif k == "range":
            out.append("-%d.1" % it[1])
            out.append(scalar_tok(it[2]))
            out.append(scalar_tok(it[3]))
        else:
            out.append(scalar_tok(it))
    return out


def list_tok(items):
    f = flatten(items)
    return ",".join(f) if f else "-"


def expand(items):
    """items -> values (arrays keep their tag, contents expanded); None if a range is not computable"""
    out = []
    for it in items:
        k = it[0]
        if k == "a":
            inner = expand(it[2])
            if inner is None:
                return None
            out.append(("a", it[1], inner))
        elif k == "rep":
            inner = expand([it[2]])
            if inner is None or len(inner) != 1:
                return None
            out += [inner[0]] * it[1]
        elif k == "range":
            for i in range(it[1]):
                v = range_val(it[2], it[3], i)
                if v is None:
                    return None
                out.append(v)
        else:
            out.append(it)
    return out


def parse_scalar(tok):
    k = tok[0]
    r = tok[1:]
    if k in "icrh":
        return (k, int(r))
    if k == "t":
        return (k, int(r))
    if k in "fd":
        return (k, int(r, 16))
    if k == "m":
        return (k, bytes.fromhex(r))
    if k in "sS":
        return (k, None if r == "~" else (b"" if r == "-" else bytes.fromhex(r)))
    if k == "b":
        return (k, b"" if r == "-" else bytes.fromhex(r))
    if k in "TFNI" and not r:
        return (k,)
    return None


def parse_flat(tok):
    """flat cell tokens of one list -> items (None: not a well-formed layout)"""
    cells = [] if tok == "-" else tok.split(",")

    def one(pos, end):
        """the item starting at cell pos -> (item, next pos)"""
        c = cells[pos]
        if c[0] == "a":
            ln = int(c[4:])
            if ln < 0 or pos + 1 + ln > end:
                raise ValueError
            return ("a", int(c[1:3], 16), many(pos + 1, pos + 1 + ln)), pos + 1 + ln
        if c[0] == "-":
            num, hd = c[1:].split(".")
            if int(hd):
                if pos + 3 > end:
                    raise ValueError
                d, st = parse_scalar(cells[pos + 1]), parse_scalar(cells[pos + 2])
                if d is None or st is None:
                    raise ValueError
                return ("range", int(num), d, st), pos + 3
            if pos + 2 > end or cells[pos + 1][0] == "-":
                raise ValueError
            x, nxt = one(pos + 1, end)
            return ("rep", int(num), x), nxt
        v = parse_scalar(c)
        if v is None:
            raise ValueError
        return v, pos + 1

    def many(pos, end):
        out = []
        while pos < end:
            it, pos = one(pos, end)
            out.append(it)
        return out

    try:
        return many(0, len(cells))
    except (ValueError, IndexError):
        return None


def has_infinite(items):
    for it in items:
        if it[0] in ("rep", "range") and it[1] <= 0:
            return True
        if it[0] == "a" and has_infinite(it[2]):
            return True
        if it[0] == "rep" and it[2][0] == "a" and has_infinite(it[2][2]):
            return True
    return False


def denoted(tok):
    """the value list a flat list token denotes; None: infinite range / arithmetic undefined / malformed"""
    items = parse_flat(tok)
    if items is None or has_infinite(items):
        return None
    return expand(items)


def unrolled(items, n):
    """top-level infinite ranges written out n times; None when an infinite range sits inside an array"""
    out = []
    for it in items:
        if it[0] in ("rep", "range") and it[1] <= 0:
            it = (it[0], n) + tuple(it[2:])
        out.append(it)
    return None if has_infinite(out) else out


# ------------------------------------------------------------------------------------------
# the order the property states (reference, independent of the Lean model).  `None` = the statement
# fixes no order for this pair: MIDI, colours, values of different types, a NULL string against a
# string, arrays of different element type, NaN.  Lists and arrays are read lexicographically (first
# differing value decides, a proper prefix first).
# ------------------------------------------------------------------------------------------
def sgn(x):
    return (x > 0) - (x < 0)


def doc_order(a, b):
    """stated order of two scalars (0 also for identical values of a type without a stated order)"""
    t = a[0]
    if t != b[0]:
        return None
    if t in "ich":
        return sgn(a[1] - b[1])
    if t in "fd":
        x = bits32f(a[1]) if t == "f" else bits64f(a[1])
        y = bits32f(b[1]) if t == "f" else bits64f(b[1])
        if x != x or y != y:
            return None
        return sgn((x > y) - (x < y))
    if t == "t":
        if a[1] == 1 or b[1] == 1:
            return 0 if a[1] == b[1] else (-1 if a[1] == 1 else 1)
        return sgn(a[1] - b[1])
    if t in "sS":
        if a[1] is None or b[1] is None:
            return 0 if a[1] is None and b[1] is None else None
        x, y = a[1].split(b"\0")[0], b[1].split(b"\0")[0]
        return (x > y) - (x < y)
    if t == "b":
        return (a[1] > b[1]) - (a[1] < b[1])
    if t in "mr":
        return 0 if a[1] == b[1] else None
    return 0        # T F N I


def arr_compatible(t1, t2):
    return t1 == t2 or (t1 in (84, 70) and t2 in (84, 70))


def val_order(a, b):
    if a[0] == "a" and b[0] == "a":
        return list_order(a[2], b[2]) if arr_compatible(a[1], b[1]) else None
    if a[0] == "a" or b[0] == "a":
        return None
    return doc_order(a, b)


def list_order(vs, ws):
    for a, b in zip(vs, ws):
        c = val_order(a, b)
        if c is None or c != 0:
            return c
    return sgn(len(vs) - len(ws))


def unstated_tags(list_toks):
    """`=uIJ` for every pair of lists whose order the statement does not fix.  An infinite range (outside
    the property, compared with the model only) is written out far enough to reach every value the other
    lists have: a pair that is decided by values without a stated order is tagged as well."""
    items = [parse_flat(t) for t in list_toks]
    den = [expand(l) if l is not None and not has_infinite(l) else None for l in items]
    if any(l is not None and has_infinite(l) for l in items):
        fin = [expand([it for it in l if not (it[0] in ("rep", "range") and it[1] <= 0)]) for l in items if l is not None]
        n = 2 + max([len(v) for v in fin if v is not None] + [0])
        for k, l in enumerate(items):
            if l is not None and has_infinite(l):
                l = unrolled(l, n)
                den[k] = expand(l) if l is not None else None
    out = []
    for i in range(len(den)):
        for j in range(i + 1, len(den)):
            if den[i] is not None and den[j] is not None and list_order(den[i], den[j]) is None:
                out.append("=u%d%d" % (i, j))
    return out


# ------------------------------------------------------------------------------------------
# generator
# ------------------------------------------------------------------------------------------
F32S = [0x00000000, 0x80000000, 0x3f000000, 0x3f800000, 0x3fc00000, 0x40000000, 0xbf800000, 0x40400000,
        0x3dcccccd, 0x7f800000, 0xff800000, 0x00000001, 0x7f7fffff, 0x4b800000, 0x3e4ccccd]
F64S = [0x0000000000000000, 0x8000000000000000, 0x3fe0000000000000, 0x3ff0000000000000, 0x3ff8000000000000,
        0x4000000000000000, 0xbff0000000000000, 0x3fb999999999999a, 0x7ff0000000000000, 0xfff0000000000000,
        0x0000000000000001, 0x7fefffffffffffff, 0x4008000000000000, 0x3fc999999999999a]
STRS = [b"", b"a", b"ab", b"abc", b"b", b"a\x80", b"\xff", b"A", None]
BLOBS = [b"", b"\x01", b"\x01\x02", b"\x01\x02\x00", b"\x01\x02\x00\x00", b"\x01\x03", b"\x80", b"\x00", b"\x01\x02\x03"]
POOL = {
    "i": [-2, -1, 0, 1, 2, 3, 4, 5, 7, 2147483647, -2147483648],
    "c": [0, 97, 98, 99, 100],
    "r": [0, -1, 255, 16711680],
    "h": [-5000000000, -1, 0, 1, 2, 3, 5000000000, 9223372036854775807, -9223372036854775808],
    "t": [0, 1, 2, 3, 4294967296, 18446744073709551615],
    "m": [bytes([0, 0, 0, 0]), bytes([0, 0, 0, 1]), bytes([144, 60, 127, 0]), bytes([255, 0, 0, 0]), bytes([0, 1, 0, 0])],
}
SCALAR_TYPES = "icrhtfdmsSbTFNI"
DELTA_TYPES = "cihfdTF"


def rand_scalar(rng, t):
    if t in POOL:
        return (t, rng.choice(POOL[t]))
    if t == "f":
        return ("f", rng.choice(F32S))
    if t == "d":
        return ("d", rng.choice(F64S))
    if t in "sS":
        return (t, rng.choice(STRS))
    if t == "b":
        return ("b", rng.choice(BLOBS))
    return (t,)


def elem_types(t):
    return "TF" if t in "TF" else t


def rand_run(rng, t, n):
    """n values of type t forming (often) a constant or arithmetic run"""
    first = rand_scalar(rng, rng.choice(elem_types(t)))
    r = rng.random()
    if n == 1 or r < 0.25:
        return [rand_scalar(rng, rng.choice(elem_types(t))) for _ in range(n)]
    if r < 0.55:
        return [first] * n
    if t in DELTA_TYPES:
        if t in "TF":
            delta = rng.choice([("T",), ("F",)])
        elif t in "cih":
            delta = (t, rng.choice([1, 1, 2, -1, 3, 0, -2]))
        elif t == "f":
            delta = ("f", rng.choice([0x3f000000, 0x3f800000, 0xbf000000, 0x3dcccccd, 0x3e800000]))
        else:
            delta = ("d", rng.choice([0x3fe0000000000000, 0x3ff0000000000000, 0xbfe0000000000000, 0x3fb999999999999a]))
        vals = [range_val(delta, first, i) for i in range(n)]
        if all(v is not None and not is_nan_val(v) for v in vals):
            return vals
    return [first] * n


def rand_array(rng, depth):
    n = rng.randint(0, 4)
    if depth < 2 and rng.random() < 0.12:
        elems = [rand_array(rng, depth + 1) for _ in range(min(n, 2))]
        if elems and rng.random() < 0.5:
            elems = [elems[0]] * len(elems)
        tag = ord("a") if elems else 32
        return ("a", tag, elems)
    t = rng.choice(SCALAR_TYPES)
    elems = rand_run(rng, t, n) if n else []
    r = rng.random()
    if elems:
        tag = ord(elems[-1][0]) if r < 0.6 else ord(elems[0][0])
    else:
        tag = 32 if r < 0.5 else ord(rng.choice("TFiNIS sa"))
    return ("a", tag, elems)


def rand_values(rng, maxlen=6):
    """an expanded list of 0..maxlen values"""
    n = rng.choice([0, 1, 1, 2, 2, 3, 3, 4, 5, 6])
    n = min(n, maxlen)
    out = []
    while len(out) < n:
        r = rng.random()
        if r < 0.2:
            a = rand_array(rng, 0)
            k = 1 if rng.random() < 0.7 else rng.randint(2, 3)
            out += [a] * k
        else:
            t = rng.choice(SCALAR_TYPES)
            k = rng.choice([1, 1, 2, 3, 4])
            out += rand_run(rng, t, k)
    return out[:n]


def mutate(rng, vals):
    """a list close to vals: equal, prefix, one value changed within its type, a value appended"""
    vals = list(vals)
    r = rng.random()
    if r < 0.2 or not vals:
        if r < 0.1:
            return vals
        return vals + rand_values(rng, 2)
    if r < 0.4:
        return vals[:rng.randint(0, len(vals) - 1)]
    i = rng.randrange(len(vals))
    v = vals[i]
    if v[0] == "a":
        if r < 0.7:
            inner = mutate(rng, v[2])
            tag = v[1]
            if rng.random() < 0.3:
                tag = rng.choice([ord("T"), ord("F"), ord("i"), 32, ord("N"), v[1]])
            vals[i] = ("a", tag, inner)
        else:
            vals[i] = rand_array(rng, 0)
    else:
        vals[i] = rand_scalar(rng, v[0] if rng.random() < 0.8 else rng.choice(SCALAR_TYPES))
    return vals


def const_run_len(vals, p):
    n = 1
    while p + n < len(vals) and vals[p + n] == vals[p]:
        n += 1
    return n


def arith_runs(vals, p):
    """[(delta, maxlen)] of arithmetic runs (with delta) starting at p, maxlen >= 2"""
    v0 = vals[p]
    if v0[0] not in DELTA_TYPES or p + 1 >= len(vals):
        return []
    out = []
    cands = []
    d = sub_val(vals[p + 1], v0)
    if d is not None:
        cands.append(d)
    for d in cands:
        n = 0
        while p + n < len(vals) and range_val(d, v0, n) == vals[p + n]:
            n += 1
        if n >= 2:
            out.append((d, n))
    return out


def layouts(vals, limit):
    """all layouts (item lists) of an expanded list, at most `limit` (depth-first)"""
    res = []

    def inner_layouts(v, lim):
        if v[0] == "a":
            return [("a", v[1], l) for l in layouts(v[2], lim)]
        return [v]

    def go(p, acc):
        if len(res) >= limit:
            return
        if p == len(vals):
            res.append(list(acc))
            return
        v = vals[p]
        for x in inner_layouts(v, 3):
            go(p + 1, acc + [x])
            if len(res) >= limit:
                return
        cr = const_run_len(vals, p)
        for n in range(2, cr + 1):
            for x in inner_layouts(v, 2):
                go(p + n, acc + [("rep", n, x)])
        for d, m in arith_runs(vals, p):
            for n in range(2, m + 1):
                go(p + n, acc + [("range", n, d, v)])

    go(0, [])
    return res


def rand_layout(rng, vals, p_compress=0.7):
    """one random layout of an expanded list"""
    out = []
    p = 0
    while p < len(vals):
        v = vals[p]
        opts = []
        cr = const_run_len(vals, p)
        if cr >= 2:
            opts.append(("rep", cr))
        for d, m in arith_runs(vals, p):
            opts.append(("range", m, d))
        if rng.random() < 0.03:
            opts.append(("rep", 1))
        if opts and rng.random() < p_compress:
            o = rng.choice(opts)
            if o[0] == "rep":
                n = o[1] if rng.random() < 0.6 else rng.randint(min(2, o[1]), o[1])
                x = ("a", v[1], rand_layout(rng, v[2], p_compress)) if v[0] == "a" else v
                out.append(("rep", n, x))
                p += n
            else:
                n = o[1] if rng.random() < 0.6 else rng.randint(2, o[1])
                out.append(("range", n, o[2], v))
                p += n
        else:
            out.append(("a", v[1], rand_layout(rng, v[2], p_compress)) if v[0] == "a" else v)
            p += 1
    return out


def count_stats(stats, toks):
    for c in toks:
        k = c[0]
        if k == "-":
            kind = "range_delta" if c.endswith(".1") else ("range_inf" if c.startswith("-0.") else "range_rep")
            stats["cells"][kind] = stats["cells"].get(kind, 0) + 1
        else:
            stats["cells"][k] = stats["cells"].get(k, 0) + 1


ALPH = [0x00, 0x01, 0x41, 0x61, 0x80, 0xff]
WIDE_TYPES = "tthhiircmfdsSbb"
T_EDGES = [0, 2, 3, 2 ** 31, 2 ** 32 - 1, 2 ** 32, 2 ** 32 + 1, 2 ** 63 - 1, 2 ** 63, 2 ** 63 + 1, 2 ** 64 - 2, 2 ** 64 - 1]


def wide_scalar(rng, t):
    """a value from the whole range of its type (not from the small pools)"""
    if t == "t":
        return ("t", rng.choice(T_EDGES) if rng.random() < 0.3 else rng.getrandbits(64))
    if t == "h":
        return ("h", (rng.choice(T_EDGES) if rng.random() < 0.3 else rng.getrandbits(64)) - 2 ** 63)
    if t in "icr":
        return (t, rng.getrandbits(32) - 2 ** 31)
    if t == "m":
        return ("m", bytes(rng.getrandbits(8) for _ in range(4)))
    if t == "f":
        b = rng.getrandbits(32)
        return ("f", b & 0xbfffffff if (b & 0x7fffffff) > 0x7f800000 else b)
    if t == "d":
        b = rng.getrandbits(64)
        return ("d", b & 0xbfffffffffffffff if (b & 0x7fffffffffffffff) > 0x7ff0000000000000 else b)
    n = rng.choice([0, 1, 2, 3, 4, 5, 8, 9, 16, 17, 33, 40]) if rng.random() < 0.7 else rng.randint(0, 40)
    return (t, bytes(rng.choice(ALPH) for _ in range(n)))


def near(rng, v):
    """a value of the same type that differs from v in one bit / one byte / by truncation"""
    t = v[0]
    if t in "thicr":
        bits = 64 if t in "th" else 32
        off = 0 if t == "t" else 2 ** (bits - 1)
        k = rng.choice([0, 0, 1, 2, bits // 2 - 1, bits // 2, bits // 2 + 1, bits - 2, bits - 1, rng.randrange(bits)])
        return (t, ((v[1] + off) ^ (1 << k)) - off)
    if t == "m":
        b = bytearray(v[1])
        b[rng.randrange(4)] ^= 1 << rng.randrange(8)
        return ("m", bytes(b))
    if t in "fd":
        bits = 32 if t == "f" else 64
        for _ in range(8):
            w = (t, v[1] ^ (1 << rng.choice([0, 1, bits - 1, rng.randrange(bits)])))
            if not is_nan_val(w):
                return w
        return v
    if t in "sSb":
        b = bytearray(v[1] or b"")
        r = rng.random()
        if b and r < 0.5:           # one byte changed (often behind a 0x00 byte)
            i = rng.randrange(len(b))
            if 0 in b and rng.random() < 0.5:
                i = rng.randrange(b.index(0), len(b))
            b[i] = rng.choice([x for x in ALPH if x != b[i]])
        elif b and r < 0.7:
            del b[rng.randrange(len(b)):]
        elif b and r < 0.8:
            del b[rng.randrange(len(b))]
        else:
            b.insert(rng.randint(0, len(b)), rng.choice(ALPH))
        return (t, bytes(b))
    return v


def wide_const(rng):
    """a value to repeat: small-pool or wide scalar, or an array"""
    r = rng.random()
    if r < 0.25:
        return rand_array(rng, 0)
    if r < 0.6:
        return wide_scalar(rng, rng.choice(WIDE_TYPES))
    return rand_scalar(rng, rng.choice(SCALAR_TYPES))


def long_run(rng):
    """(layouts of one long constant or arithmetic run, its values, a continuation layout or None)"""
    n = rng.choice([7, 7, 17, 17, 129, 129, 130, 300])
    if rng.random() < 0.35:
        v = wide_const(rng)
        k = rng.randint(1, n - 1)
        lay = lambda x: ("a", x[1], rand_layout(rng, x[2], 0.5)) if x[0] == "a" else x
        ls = [[("rep", n, lay(v))], [v] * n, [("rep", k, lay(v)), ("rep", n - k, v)], [v] * k + [("rep", n - k, lay(v))]]
        return ls, [v] * n, [("rep", n + 1, v)]
    t = rng.choice(DELTA_TYPES)
    if t in "TF":
        d, s = rng.choice([("T",), ("F",)]), rng.choice([("T",), ("F",)])
    elif t == "c":
        d, s = ("c", rng.choice([1, 1, 2, -1, 3])), ("c", rng.choice([0, 0, 1, 32, 97, 127, 200]))
    elif t == "i":
        d = ("i", rng.choice([1, -1, 2, 7, -3, 1000003, 0]))
        s = ("i", rng.choice([0, 1, -5, 100, -2147483648 if d[1] >= 0 else 2147483647, rng.randint(-10 ** 6, 10 ** 6)]))
        if ALLOW_WRAP[0] and rng.random() < 0.15:
            d, s = ("i", rng.choice([2147483647, -2147483648, 16777259])), ("i", rng.getrandbits(32) - 2 ** 31)
    elif t == "h":
        d = ("h", rng.choice([1, -1, 3, 5000000000, -5000000000, 4294967296, 4294967297, 0]))
        s = ("h", rng.choice([0, -7, 2147483647, -5000000000, rng.getrandbits(40)]))
        if ALLOW_WRAP[0] and rng.random() < 0.15:
            d, s = ("h", rng.choice([2 ** 63 - 1, -2 ** 63, 2 ** 62 + 5])), ("h", rng.getrandbits(64) - 2 ** 63)
    elif t == "f":
        d = ("f", rng.choice([0x3f000000, 0x3f800000, 0xbf000000, 0x3dcccccd, 0x3e800000, 0x41200000, 0x00000001, 0x80000000]))
        s = ("f", rng.choice([0x00000000, 0x3f800000, 0xc2c80000, 0x3dcccccd, 0x4b7ffff0, 0x80000000]))
    else:
        d = ("d", rng.choice([0x3fe0000000000000, 0x3ff0000000000000, 0xbfe0000000000000, 0x3fb999999999999a,
                              0x4024000000000000, 0x0000000000000001]))
        s = ("d", rng.choice([0x0000000000000000, 0x3ff0000000000000, 0xc059000000000000, 0x3fb999999999999a,
                              0x433ffffffffffff0]))
    vals = [range_val(d, s, i) for i in range(n + 1)]
    if any(v is None or is_nan_val(v) for v in vals):
        return None
    more, vals = [("range", n + 1, d, s)], vals[:n]
    ls = [[("range", n, d, s)], list(vals)]
    k = rng.randint(1, n - 1)
    for cand in ([("range", k, d, s), ("range", n - k, d, vals[k])], vals[:k] + [("range", n - k, d, vals[k])],
                 [("range", k, d, s)] + vals[k:]):
        if expand(cand) == vals:        # float steps do not always restart exactly
            ls.append(cand)
    return ls, vals, more


def long_list(rng):
    """an expanded list of more than 130 cells: short runs of every type, arrays of 5..40 elements"""
    out, cells = [], 0
    target = rng.choice([131, 140, 200])
    while cells < target:
        if rng.random() < 0.25:
            t = rng.choice(SCALAR_TYPES)
            m = rng.randint(5, 40)
            el = []
            while len(el) < m:
                el += rand_run(rng, t, rng.randint(1, 6))
            el = el[:m]
            a = ("a", ord(el[-1][0]), el)
            k = rng.choice([1, 1, 2])
            out += [a] * k
            cells += k * (m + 1)
        else:
            k = rng.choice([1, 1, 2, 3, 5, 6])
            out += rand_run(rng, rng.choice(SCALAR_TYPES), k)
            cells += k
    return out


def generate(rng, tier, stats):
    n = 30000 if tier == "quick" else 800000
    try:
        import os
        src = open(os.path.join(os.environ.get("VERIF_REPO", "/repo"), "src/cpp/arg-val-math.c")).read()
        ALLOW_WRAP[0] = "(uint32_t)lhs->val.i * (uint32_t)rhs->val.i" in src
    except OSError:
        ALLOW_WRAP[0] = False
    stats.update({"triples": 0, "layout_pairs": 0, "layout_pair_with_third": 0, "exhaustive_layout_lists": 0,
                  "exhaustive_layout_ops": 0, "infinite_or_nan_stream": 0, "wide_scalar_ops": 0, "long_run_ops": 0,
                  "long_list_ops": 0, "cells": {}, "list_len_hist": {}, "max_cells_in_a_list": 0,
                  "compressed_lists": 0, "pairs_without_stated_order": 0, "options_variant": {"NULL": 0, "default": 0, "stack": 0},
                  "single_entry_point_ops": 0, "wrapping_integer_ranges_generated": ALLOW_WRAP[0]})

    def emit(lists, tags):
        toks = []
        for l in lists:
            f = flatten(l)
            count_stats(stats, f)
            b = len(f) if len(f) < 8 else ("8-15" if len(f) < 16 else "16-127" if len(f) < 128 else "128+")
            stats["list_len_hist"][str(b)] = stats["list_len_hist"].get(str(b), 0) + 1
            stats["max_cells_in_a_list"] = max(stats["max_cells_in_a_list"], len(f))
            if any(c[0] == "-" for c in f):
                stats["compressed_lists"] += 1
            toks.append(",".join(f) if f else "-")
        ut = unstated_tags(toks)
        stats["pairs_without_stated_order"] += len(ut)
        tags = list(tags) + ut
        # which entry points / options pointer the implementation is called with (the model is the same)
        k = rng.choice([0, 0, 0, 1, 2])
        stats["options_variant"][["NULL", "default", "stack"][k]] += 1
        if k:
            tags.append("=o%d" % k)
        if rng.random() < 0.4 and all(len(l) == 1 and l[0][0] not in ("rep", "range") for l in lists):
            tags.append("=sg")
            stats["single_entry_point_ops"] += 1
        return " ".join(toks + tags)

    def law_tag(ls):
        return ["=nan"] if any(is_nan_val(v) for l in ls for v in l) else ["=law"]

    for it in range(n):
        r = rng.random()
        if r < 0.42:
            # triples of related lists, each in a random layout (laws + correspondence)
            a = rand_values(rng)
            b = mutate(rng, a) if rng.random() < 0.8 else rand_values(rng)
            c = mutate(rng, rng.choice([a, b])) if rng.random() < 0.8 else rand_values(rng)
            ls = [a, b, c]
            rng.shuffle(ls)
            stats["triples"] += 1
            yield emit([rand_layout(rng, l, 0.5) for l in ls], law_tag(ls))
        elif r < 0.71:
            # two layouts of the same expanded list (+ an unrelated third list)
            a = rand_values(rng)
            l1 = rand_layout(rng, a, 0.9)
            l2 = rand_layout(rng, a, 0.3) if rng.random() < 0.5 else list(
                ("a", v[1], rand_layout(rng, v[2], 0.0)) if v[0] == "a" else v for v in a)
            if rng.random() < 0.5:
                b = mutate(rng, a)
                stats["layout_pair_with_third"] += 1
                yield emit([l1, l2, rand_layout(rng, b, 0.5)], ["=same01", "=law"])
            else:
                stats["layout_pairs"] += 1
                yield emit([l1, l2], ["=same01", "=law"])
        elif r < 0.88:
            # every layout of one list against its plain form
            a = rand_values(rng, 5)
            ls = layouts(a, 64 if tier == "thorough" else 12)
            stats["exhaustive_layout_lists"] += 1
            plain = ls[0]
            for l in ls[1:]:
                stats["exhaustive_layout_ops"] += 1
                yield emit([plain, l], ["=same01", "=law"])
        elif r < 0.90:
            # values from the whole range of their type and their one-bit / one-byte neighbours
            v = wide_scalar(rng, rng.choice(WIDE_TYPES))
            w = near(rng, v) if rng.random() < 0.9 else wide_scalar(rng, v[0])
            x = near(rng, rng.choice([v, w])) if rng.random() < 0.8 else wide_scalar(rng, v[0])
            trio = [v, w, x]
            rng.shuffle(trio)
            k = rng.random()
            if k < 0.5:
                ls = [[y] for y in trio]
            elif k < 0.8:
                pre, post = rand_values(rng, 2), rand_values(rng, 1)
                ls = [pre + [y] + post for y in trio]
            else:
                pre = [rand_scalar(rng, v[0]) for _ in range(rng.randint(0, 2))]
                ls = [[("a", ord(v[0]), pre + [y] * rng.randint(1, 2))] for y in trio]
            stats["wide_scalar_ops"] += 1
            yield emit([rand_layout(rng, l, 0.4) for l in ls], law_tag(ls))
        elif r < 0.92:
            # long constant / arithmetic runs (7, 17, 129, 130, 300 values) in several layouts
            lr = long_run(rng)
            if lr is None:
                continue
            lays, vals, more = lr
            pre, post = rand_values(rng, 1), rand_values(rng, 1)
            rng.shuffle(lays)
            two = [pre + l + post for l in lays[:2]]
            stats["long_run_ops"] += 1
            k = rng.random()
            if k < 0.35:
                yield emit(two, ["=same01", "=law"])
            else:
                if k < 0.55:        # the run continued by one value: same number of cells, longer list
                    third = pre + more + post
                elif k < 0.8:       # one value changed / removed
                    i = rng.randrange(len(vals))
                    w = list(vals)
                    if rng.random() < 0.3:
                        del w[i]
                    else:
                        w[i] = near(rng, w[i]) if w[i][0] != "a" and rng.random() < 0.7 else wide_const(rng)
                    third = pre + rand_layout(rng, w, 0.3 if len(w) < 40 else 0.0) + post
                else:
                    third = pre + (lays[2] if len(lays) > 2 else lays[0]) + post
                yield emit(two + [third], ["=same01"] + law_tag([expand(third) or []]))
        elif r < 0.93:
            # long lists (> 130 cells) with long arrays
            a = long_list(rng)
            l1 = rand_layout(rng, a, 0.9)
            l2 = list(("a", v[1], rand_layout(rng, v[2], 0.0)) if v[0] == "a" else v for v in a)
            stats["long_list_ops"] += 1
            if rng.random() < 0.5:
                yield emit([l1, l2, rand_layout(rng, mutate(rng, a), 0.5)], ["=same01", "=law"])
            else:
                yield emit([l1, l2], ["=same01", "=law"])
        else:
            # infinite ranges / NaN: model correspondence only
            a = rand_values(rng, 4)
            b = mutate(rng, a)
            la, lb = rand_layout(rng, a, 0.5), rand_layout(rng, b, 0.5)
            k = rng.random()
            if k < 0.4 and la:
                v = a[-1]
                if v[0] != "a":
                    la = la + [("rep", 0, v)]
            elif k < 0.6 and lb:
                v = b[-1]
                if v[0] in "cih" and abs(v[1]) < 100000:      # start + i*delta stays far from overflow
                    lb = lb + [("range", 0, (v[0], 1), v)]
            else:
                nanv = rng.choice([("f", 0x7fc00000), ("d", 0x7ff8000000000000), ("f", 0xffc00001)])
                la = la + [nanv]
                if rng.random() < 0.5:
                    lb = lb + [nanv]
            stats["infinite_or_nan_stream"] += 1
            yield emit([la, lb], ["=corr"])


def nontrivial(op):
    w = op.split()
    return any("," in t for t in w if not t.startswith("="))


# ------------------------------------------------------------------------------------------
# oracle: the property, on the implementation's output (independent of the Lean model)
# ------------------------------------------------------------------------------------------
def parse_out(out, n):
    """-> E (ints), C (ints, or 'x' = non-zero with the sign withheld), L (verdict of the law check on the
    raw signs, None when not printed), iterations, messages"""
    try:
        w = out.split(" ")
        assert w[0] == "E" and w[1 + n * n] == "C"
        e = [int(x) for x in w[1:1 + n * n]]
        c = [x if x == "x" else int(x) for x in w[2 + n * n:2 + 2 * n * n]]
        p = 2 + 2 * n * n
        L = None
        if w[p] == "L":
            L = w[p + 1]
            p += 2
        assert w[p] == "I" and w[p + 2] == "M"
        its = w[p + 1].split(";")
        ms = w[p + 3:]
        assert len(its) == n and len(ms) == n
        E = [e[i * n:(i + 1) * n] for i in range(n)]
        C = [c[i * n:(i + 1) * n] for i in range(n)]
        return E, C, L, its, ms
    except Exception:
        return None


def oracle(op, out):
    w = op.split()
    lists = [t for t in w if not t.startswith("=")]
    tags = [t for t in w if t.startswith("=")]
    n = len(lists)
    if out.startswith("crash"):
        return "implementation crashed: " + out
    p = parse_out(out, n)
    if p is None:
        return "unparsable output"
    E, C, L, its, ms = p
    if "=law" not in tags:
        return None
    nz = lambda c: c == "x" or c != 0
    # the laws on the raw signs (evaluated next to the implementation; signs of pairs whose order the statement
    # does not fix are withheld from the output and only enter through this verdict)
    if L is not None and L != "ok":
        return "order laws violated (raw signs): " + L
    for i in range(n):
        if E[i][i] != 1 or C[i][i] != 0:
            return "not reflexive on list %d: eq=%d cmp=%s" % (i, E[i][i], C[i][i])
        for j in range(n):
            if (C[i][j] == "x") != (C[j][i] == "x") or (C[i][j] != "x" and C[i][j] != -C[j][i]):
                return "antisymmetry: cmp(%d,%d)=%s cmp(%d,%d)=%s" % (i, j, C[i][j], j, i, C[j][i])
            if (E[i][j] == 1) != (not nz(C[i][j])):
                return "eq/cmp disagree on (%d,%d): eq=%d cmp=%s" % (i, j, E[i][j], C[i][j])
    for i in range(n):
        for j in range(n):
            for k in range(n):
                if "x" in (C[i][j], C[j][k], C[i][k]):
                    continue
                if C[i][j] <= 0 and C[j][k] <= 0:
                    if C[i][k] > 0:
                        return "transitivity: %d<=%d<=%d but cmp(%d,%d)=%d" % (i, j, k, i, k, C[i][k])
                    if (C[i][j] < 0 or C[j][k] < 0) and C[i][k] == 0:
                        return "transitivity (strict): %d,%d,%d" % (i, j, k)
    if "=same01" in tags:
        if E[0][1] != 1 or C[0][1] != 0:
            return "compression changes equality/order: eq=%d cmp=%s" % (E[0][1], C[0][1])
        for k in range(n):
            if E[0][k] != E[1][k] or E[k][0] != E[k][1] or C[0][k] != C[1][k] or C[k][0] != C[k][1]:
                return "compression changes the comparison with list %d" % k
        if its[0] != its[1]:
            return "compression changes what iteration yields: %s vs %s" % (its[0][:80], its[1][:80])
        if ms[0] != ms[1]:
            return "compression changes the OSC message"
    # stated orders: numbers numerically, strings lexicographically, blobs bytewise with a proper prefix first,
    # 'immediately' before every other time tag; lists by their first differing value, a proper prefix first
    den = [denoted(t) for t in lists]
    for i in range(n):
        for j in range(n):
            if den[i] is None or den[j] is None:
                continue
            d = list_order(den[i], den[j])
            if d is None or (C[i][j] == "x" and d != 0):
                continue
            if C[i][j] != d:
                return "documented order: cmp(%s,%s)=%s, expected %d" % (lists[i][:60], lists[j][:60], C[i][j], d)
    return None


def retag(lists, tags):
    keep = [t for t in tags if not t.startswith("=u")]
    if any(len(parse_flat(l) or []) != 1 for l in lists):
        keep = [t for t in keep if t != "=sg"]
    return " ".join(list(lists) + keep + unstated_tags(lists))


def neighbours(op, rng):
    """ops near a disagreeing one: every pair of its lists"""
    w = [t for t in op.split() if not t.startswith("=")]
    out = []
    def lawful(t):      # the laws are stated for finite lists without NaN only
        items = parse_flat(t)
        if items is None or has_infinite(items):
            return False
        v = expand(items)
        return v is not None and not any(is_nan_val(x) for x in v)

    for a in w:
        for b in w:
            out.append(retag([a, b], ["=law"] if lawful(a) and lawful(b) else ["=corr"]))
    return out
