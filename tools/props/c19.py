"""C19 — Automation output stays in range and MIDI-learn requests are served in order."""
import ctypes
import itertools
import math
import os
import re
import struct
import sys
from fractions import Fraction

sys.path.insert(0, os.path.dirname(os.path.dirname(os.path.abspath(__file__))))
import vlib  # noqa: E402

PROP = "C19"
ENGINE = "auto"
LEAN_MODULES = ["RtoscModel.Props.C19"]
THEOREMS = ["Rtosc.Auto.emit_in_range_right_type", "Rtosc.Auto.binding_is_recorded", "Rtosc.Auto.emit_monotone",
            "Rtosc.Auto.default_gain_linear", "Rtosc.Auto.learn_queue_refines",
            "Rtosc.Auto.unbound_controller_serves_head", "Rtosc.Auto.learn_order_preserved",
            "Rtosc.Auto.bound_cc_drives_its_slot", "Rtosc.Auto.ieee_model_laws",
            "Rtosc.Auto.default_gain_log", "Rtosc.Auto.default_gain_log_real",
            "Rtosc.Auto.default_gain_log_float_deviation", "Rtosc.Auto.log_bounds_stored",
            "Rtosc.Auto.logmin_within_declared_range", "Rtosc.Auto.logmin_below_min_counterexample",
            "Rtosc.Auto.log_scale_needs_positive_bound", "Rtosc.Auto.unbound_nrpn_sequence_serves_head"]
# the library is linked as it is; its calls of libm's expf/exp are wrapped at link time so that the
# argument of the exponential of a log-scale parameter is observable whichever spelling the code uses
HARNESS = {"src": ["auto.cpp"], "deps": ["common.h"], "libs": ["-Wl,--wrap=expf", "-Wl,--wrap=exp"]}
STATELESS = True          # one op line = one whole history, lines are independent
RULE = ("one op line = one whole history over a fresh AutomationMgr (2..6 slots x 1..3 sub-automations, 1..40 "
        "operations: createBinding with/without learn, setSlotSubPath, clearSlot, clearSlotSub, "
        "setSlotSubGain/Offset+updateMapping, setSlot/setSlotSub with values in and outside [0,1], handleMidi with "
        "bound/unbound CCs (every controller number 0..127) and complete/partial/interleaved NRPN sequences over any "
        "parameter number) over a generated port table (int, int log-scale, float linear, float log with and without "
        "logmin, toggle, plus unusable ports; addresses of 3..120 characters, flat or nested one level; range literals "
        "in every spelling atof reads: 1e3, 2E-2, +5, .5, 5.); a case is non-trivial when the history binds at least "
        "one parameter and contains an emitting or MIDI operation; distinct = distinct op line")
ASSUMPTIONS = ["floats are finite (no NaN/infinity, no overflow: gains/offsets/slot values whose products leave the float "
               "range are outside the theorems and not generated); parameter ranges have min <= max (logmin <= max)",
               "the lower end of the range of a log-scale parameter (logmin if declared, else min), as the float the "
               "code passes to logf, is positive: an explicit clause of PortWF (hypothesis of every theorem through "
               "Reachable). Without it the compiled code computes logf(0) = -inf / logf(negative) = NaN and emits NaN "
               "for every slot value (probe `N:2:1 P:f:0:100:log:-:-:00000000:40935d8e B:0:0:0 S:0:3f000000` prints "
               "ffc00000); the model's carrier has no NaN, and log_scale_needs_positive_bound proves that an arithmetic "
               "which does give logf a value below zero (log|x|) satisfies all order laws and still sends a value above "
               "the declared maximum. Such ports are not generated",
               "a log-scale parameter that declares logmin has the range [logmin, max] whatever its min is (nothing in "
               "the code compares logmin with min: log_bounds_stored); it lies inside the declared [min, max] when "
               "min <= logmin (logmin_within_declared_range; all generated ports), otherwise values below min are sent "
               "(logmin_below_min_counterexample: port 10..100 with logmin 1 sends 1 at slot value 0; the compiled code "
               "does the same)",
               "integer parameters have integer-valued bounds below 2^24 that fit an int",
               "a bound address has at most 127 characters (createBinding copies it into a 128-byte buffer and cuts "
               "off the rest; hypothesis path.length <= 127 of OpWF; generated addresses have 3..120 characters)",
               "MIDI channel >= 0 and 0 <= controller number < 128",
               "createBinding is called with a slot index inside the manager (the code does not check it)",
               "monotonicity / range theorems are stated for any arithmetic satisfying the order laws Rtosc.Auto.Laws (a "
               "hypothesis, never an axiom); the laws are proved for exact rationals and for the IEEE-754 rounding model "
               "the driver runs (ieee_model_laws); what stays assumed is that the compiled float code is that model "
               "(checked bit for bit by the correspondence stream) and that libm's logf is monotone on positive "
               "arguments (Laws.logf_mono asks nothing about arguments <= 0) and expf is monotone",
               "log-scale parameters: expf/logf are libm's; the theorem bounds the value by expf(logf(lower bound)) and "
               "expf(logf(max)), i.e. by the declared bounds up to libm's rounding; the emitted value is checked against "
               "the declared bounds and the logarithmic map with relative tolerance 1e-5 (integers: plus the rounding "
               "to the nearest integer) by the oracle; the model predicts the argument of expf bit-exactly",
               "default mapping of a log-scale parameter: default_gain_log is stated for exact rational arithmetic and "
               "EVERY pair of functions standing for logf/expf (logf monotone on positive arguments), "
               "default_gain_log_real for exact real arithmetic with Real.log/Real.exp; "
               "default_gain_log_float_deviation bounds the distance between the argument of expf in the IEEE model "
               "and the exact interpolation of the stored logf values by 86*2^-24*(max|logf bound| + 2^-126) (a "
               "worst-case bound over 16 roundings: 2.4e-5 for the range 1..100, above the property's 1e-5 for wide "
               "ranges; the observed deviation is far smaller and is what the oracle checks); libm's own error in "
               "logf/expf is not part of any theorem",
               "the statement does not say what a slot emits at the moment it learns a controller, nor in which order "
               "the sub-automations of one slot emit: the learn-time emission is masked and the messages of one "
               "operation are compared as a multiset in the model/implementation comparison; the oracle accepts a "
               "learn-time emission or none and any order (each message must still be a correct message of a bound "
               "sub-automation)",
               "the ghost field Automation.bound of the model (address and port of the call that bound the automation) "
               "is read by no model function; binding_is_recorded ties it to the operation history"]
TRUSTED = ["hand-written model RtoscModel/Auto.lean of AutomationMgr (createBinding, setSlotSubPath, updateMapping, "
           "setSlot, setSlotSub, clearSlot, clearSlotSub, setSlotSubGain/Offset, handleMidi, setparameternumber, getnrpn)",
           "RtoscModel/AutoFloat.lean: IEEE-754 binary32/binary64 round-to-nearest-even over Rat (validated bit-for-bit "
           "against the compiled code by the correspondence stream; its monotonicity is proved, Proofs/AutoFloatLemmas.lean)",
           "libm logf/expf (log-scale parameters); the link-time interception of expf/exp in the harness "
           "(-Wl,--wrap) that exposes the argument of the exponential",
           "Ports::apropos resolving the generated flat and nested addresses (C18's subject): the model takes the "
           "port found for an address as an input"]
LEVEL_TEXT = ("Lean theorems over all operation histories of any length and any number of slots: the learn-queue "
              "numbering refines an abstract FIFO queue and keeps the request order (learn_queue_refines, "
              "learn_order_preserved), a bound controller drives exactly its slot (bound_cc_drives_its_slot), every "
              "emitted message goes to the address, has the type and lies in the declared range of the PORT its "
              "automation was last bound to (emit_in_range_right_type, stated against an independent specification of "
              "a port's type and range; binding_is_recorded proves that the model's ghost binding table is changed by "
              "createBinding/setSlotSubPath/clearSlot/clearSlotSub exactly as the statement reads them and by nothing "
              "else), emission is "
              "monotone for non-negative gain (emit_monotone) under explicit order laws of float arithmetic that are proved "
              "for the IEEE rounding model the driver runs (ieee_model_laws), and the "
              "default mapping is exactly linear over Rat for linear-scale parameters (default_gain_linear) and, for "
              "log-scale parameters, exactly expf(logf lo + x*(logf hi - logf lo)) with lo..hi the port's declared "
              "range (logmin if declared, else min, up to max): over Rat for every pair of functions standing for "
              "logf/expf with logf monotone on positive arguments (default_gain_log), over the reals with Real.log / "
              "Real.exp, where the value lies between lo and hi themselves and is lo at 0 and hi at 1 "
              "(default_gain_log_real), and in the IEEE float model the driver runs the argument of expf is within "
              "86*2^-24*(max|logf bound| + 2^-126) of the exact interpolation (default_gain_log_float_deviation); "
              "hypothesis-free facts about log-scale ports: the stored bounds are logf of [logmin or min, max] "
              "(log_bounds_stored), that range is inside the declared [min,max] iff min <= logmin "
              "(logmin_within_declared_range, logmin_below_min_counterexample), and the positivity clause of PortWF "
              "cannot be dropped (log_scale_needs_positive_bound); the NRPN form of the learn clause is proved on the "
              "wire: the four messages 99/98/6/38 of an unbound parameter number teach exactly the oldest waiting "
              "slot (unbound_nrpn_sequence_serves_head; unbound_controller_serves_head covers CC and completed NRPN "
              "as single events); the model is compared bit-for-bit "
              "(IEEE rounding modelled exactly) with the compiled implementation on thousands of generated histories "
              "per run (whole type-tag string, first argument and message size of every emitted message), and the "
              "property is evaluated directly on the implementation's output by an independent Python reference")
LEVEL_NOTE = ("Trusted: Lean kernel; the hand-written model is tied to the code by differential execution only; see evidence trusted_base. Open: for log-scale parameters the range theorem over the float model bounds the value by "
              "expf(logf(bound)), not the bound itself (over the reals it is the bound itself: default_gain_log_real); "
              "the accuracy of libm's logf/expf (oracle tolerance 1e-5) is in no theorem, and the float deviation bound "
              "is proved for the default gain/offset and slot values in [0,1] only; a slot bound only to an NRPN can "
              "queue for learning again (absStep mirrors the code's test midi_cc == -1, review A6); float overflow "
              "(gain around 3e38) and integer bounds beyond the int range are outside the theorems' arithmetic "
              "assumptions: there the real code emits INT_MIN / lets NaN through its clamps (review B1/B2, not generated)")
TECHNIQUE = "Lean 4 model + invariants over histories; bit-exact float correspondence; independent property oracle"

# ---------------------------------------------------------------------------------------
# float helpers
# ---------------------------------------------------------------------------------------


def f32(x):
    return struct.unpack("<f", struct.pack("<f", x))[0]


def bits(x):
    return "%08x" % struct.unpack("<I", struct.pack("<f", x))[0]


def unbits(s):
    return struct.unpack("<f", struct.pack("<I", int(s, 16)))[0]


_libm = None


def logf(x):
    """libm's logf on a float32 value (the value createBinding stores for log-scale ports)."""
    global _libm
    if _libm is None:
        try:
            _libm = ctypes.CDLL("libm.so.6")
            _libm.logf.restype = ctypes.c_float
            _libm.logf.argtypes = [ctypes.c_float]
        except OSError:
            _libm = False
    if _libm:
        return float(_libm.logf(ctypes.c_float(x)))
    return f32(math.log(x))


# ---------------------------------------------------------------------------------------
# generator
# ---------------------------------------------------------------------------------------
INT_RANGES = [("0", "127"), ("0", "1"), ("-64", "63"), ("1", "100"), ("0", "16383"), ("-5", "5"), ("3", "3"),
              ("0", "255"), ("-100", "0"), ("0", "1E2"), ("-1e2", "1e+2")]
LIN_RANGES = [("-1", "10"), ("0", "1"), ("0", "100"), ("0", "100.2"), ("-0.5", "0.5"), ("20", "20000"),
              ("0.1", "0.7"), ("-40", "0"), ("1", "1"), ("0", "127"), ("1e-3", "0.5"), ("20", "2e4"),
              ("-2.5E-1", ".75")]
LOG_RANGES = [("1", "1000", None), ("20", "20000", None), ("0.01", "10", None), ("0", "1000", "1"),
              ("0", "100", "0.001"), ("0.5", "2", None), ("1", "8000000", None), ("5", "5", None),
              ("1e-3", "10", None), ("0", "1e3", "1E-2")]
# integer parameters with a logarithmic scale (rLog / rLogWithLogmin on an integer port)
INTLOG_RANGES = [("1", "1000", None), ("1", "127", None), ("20", "20000", None), ("0", "1000", "1"),
                 ("2", "2", None), ("1", "16383", None), ("0", "127", "1"), ("1", "1e3", None), ("3", "40", None)]
CCS = [1, 7, 10, 12, 74, 0, 127, 5, 37, 100]
NRPN_TYPES = [99, 98, 6, 38]
PLAIN_CCS = [c for c in range(128) if c not in NRPN_TYPES]      # every controller number that is not (N)RPN
NAME_CHARS = "abcdefghijklmnopqrstuvwxyzABCDEFGHIJKLMNOPQRSTUVWXYZ0123456789_"
MAX_ADDR = 120        # param_path holds 127 characters; the generated addresses stay below


def respell(rng, lit):
    """another spelling atof reads as the same number: +5, 5., .5, 1e3, 2E-2, 1002e-1 …"""
    if lit is None or rng.random() < 0.65:
        return lit
    neg = lit.startswith("-")
    body = lit.lstrip("+-")
    if "e" in body.lower():
        return lit
    ip, _, fp = body.partition(".")
    forms = []
    if not neg:
        forms.append("+" + body)
    if not fp:
        forms.append(body + ".")
        forms.append(body + ".0")
        z = len(ip) - len(ip.rstrip("0"))
        if z and ip.strip("0"):
            forms.append(ip[:-z] + rng.choice(["e", "E", "e+", "E+0"]) + str(z))
        forms.append(ip + "0" + rng.choice(["e-1", "E-01"]))
    else:
        if ip == "0":
            forms.append("." + fp)
        digits = (ip + fp).lstrip("0") or "0"
        forms.append(digits + rng.choice(["e-", "E-"]) + str(len(fp)))
        forms.append(ip + "." + fp + "0")
    f = rng.choice(forms)
    return "-" + f.lstrip("+") if neg else f


def rand_name(rng, n):
    return "".join(rng.choice(NAME_CHARS) for _ in range(n))


def rand_path(rng, k, dirs):
    """address of port k: None (the default /p<letter>) or /<leaf> or /<dir>/<leaf>, 4..120 characters, the
    lengths drawn around the sizes that matter (message buffers of 64/128/256 bytes, 4-byte padding)"""
    if rng.random() < 0.45:
        return None
    total = rng.choice([rng.randint(4, 20), rng.randint(21, 60), rng.randint(48, 70), rng.randint(61, MAX_ADDR),
                        rng.randint(100, MAX_ADDR), MAX_ADDR, MAX_ADDR - 1, 51, 52, 53, 59, 60, 61])
    stem = "p" + chr(ord("a") + k)
    if rng.random() < 0.55 and total >= 8:
        if dirs and rng.random() < 0.5:
            d = rng.choice(dirs)
        else:
            dl = rng.randint(2, max(2, min(total - 5, 60)))
            d = "d" + chr(ord("a") + len(dirs)) + rand_name(rng, dl - 2)
            dirs.append(d)
        leaf_len = max(2, total - len(d) - 2)
        return "/" + d + "/" + stem + rand_name(rng, leaf_len - 2)
    return "/" + stem + rand_name(rng, total - 3)


def port_token(rng, k=0, dirs=None):
    tok, kind = port_fields(rng)
    path = rand_path(rng, k, dirs if dirs is not None else [])
    if path is not None:
        tok += ":" + path
    return tok, kind


def log_fields(rng, table):
    mn, mx, lm = rng.choice(table)
    lo = f32(float(lm if lm is not None else mn))
    hi = f32(float(mx))
    return respell(rng, mn), respell(rng, mx), respell(rng, lm) or "-", bits(logf(lo)), bits(logf(hi))


def port_fields(rng):
    r = rng.random()
    if r < 0.22:
        mn, mx = rng.choice(INT_RANGES)
        return "P:i:%s:%s:%s:-:-:-:-" % (respell(rng, mn), respell(rng, mx), rng.choice(["lin", "-"])), "i"
    if r < 0.32:
        return "P:i:%s:%s:log:%s:-:%s:%s" % log_fields(rng, INTLOG_RANGES), "ilog"
    if r < 0.54:
        mn, mx = rng.choice(LIN_RANGES)
        return "P:f:%s:%s:%s:-:-:-:-" % (respell(rng, mn), respell(rng, mx), rng.choice(["lin", "lin", "-"])), "f"
    if r < 0.73:
        return "P:f:%s:%s:log:%s:-:%s:%s" % log_fields(rng, LOG_RANGES), "log"
    if r < 0.88:
        if rng.random() < 0.3:
            return "P:T:0:1:-:-:-:-:-", "T"
        return "P:T:-:-:-:-:-:-:-", "T"
    if r < 0.92:
        return "P:%s:-:-:-:-:-:-:-" % rng.choice("if"), "nobounds"
    if r < 0.96:
        return "P:i:0:127:lin:-:internal:-:-", "internal"
    return "P:f:0:1:lin:-:nolearn:-:-", "nolearn"


def rand_value(rng):
    r = rng.random()
    if r < 0.15:
        return rng.choice([0.0, 1.0])
    if r < 0.3:
        return rng.choice([0.5, 0.25, 0.75, 0.125, 0.5000001, 0.49999997])
    if r < 0.45:
        return rng.randint(0, 127) / 127.0
    if r < 0.75:
        return rng.random()
    if r < 0.85:
        return rng.choice([-0.5, 1.5, -1.0, 2.0, -0.001, 1.001, 10.0, -10.0])
    if r < 0.9:
        return rng.choice([1e-3, 1e-6, 0.999999, 1e-20])
    return rng.uniform(-1.0, 2.0)


def rand_gain(rng):
    r = rng.random()
    if r < 0.5:
        return rng.choice([100.0, 50.0, 200.0, 25.0, 10.0, 150.0, 0.0, 1.0, 400.0])
    if r < 0.65:
        return rng.choice([-100.0, -50.0, -1.0])
    if r < 0.9:
        return rng.uniform(0.0, 300.0)
    return rng.uniform(-300.0, 300.0)


def rand_offset(rng):
    r = rng.random()
    if r < 0.5:
        return rng.choice([0.0, 10.0, -10.0, 50.0, -50.0, 100.0, -100.0, 25.0])
    return rng.uniform(-150.0, 150.0)


def generate(rng, tier, stats):
    n = 12000 if tier == "quick" else 200000
    stats.update({"ops": {}, "ports": {}, "len_hist": {}, "slots_hist": {}, "oob_index_ops": 0,
                  "nrpn_sequences": 0, "histories_with_clear_while_waiting": 0, "address_len_hist": {},
                  "nested_addresses": 0, "respelled_literals": 0, "cc_numbers": set()})

    def cnt(d, k):
        stats[d][k] = stats[d].get(k, 0) + 1

    for _ in range(n):
        nslots = rng.randint(2, 6)
        per = rng.randint(1, 3)
        nports = rng.randint(2, 6)
        toks = ["N:%d:%d" % (nslots, per)]
        dirs = []
        for pk in range(nports):
            t, kind = port_token(rng, pk, dirs)
            toks.append(t)
            cnt("ports", kind)
            f = t.split(":")
            alen = len(f[9]) if len(f) > 9 else 3
            cnt("address_len_hist", str((alen + 9) // 10 * 10))
            if len(f) > 9 and f[9].count("/") == 2:
                stats["nested_addresses"] += 1
            stats["respelled_literals"] += sum(1 for x in (f[2], f[3], f[5]) if re.search(r"[eE+]|^\.|\.$|\.\d*0$", x))
        length = rng.randint(1, 40)
        cnt("len_hist", str((length + 9) // 10 * 10))
        cnt("slots_hist", "%dx%d" % (nslots, per))
        learnish = rng.random() < 0.6      # histories centred on the learn queue
        waiting = 0
        clear_while_waiting = False
        k = 0
        used_ccs = []
        while k < length:
            def slot():
                if rng.random() < 0.03:
                    stats["oob_index_ops"] += 1
                    return rng.choice([-1, nslots, nslots + 3])
                return rng.randrange(nslots)

            def sub():
                if rng.random() < 0.03:
                    stats["oob_index_ops"] += 1
                    return rng.choice([-1, per, per + 2])
                return rng.randrange(per)
            r = rng.random()
            if r < (0.30 if learnish else 0.18):
                p = rng.randrange(nports) if rng.random() < 0.95 else nports + 1
                l = 1 if rng.random() < (0.8 if learnish else 0.4) else 0
                toks.append("B:%d:%d:%d" % (rng.randrange(nslots), p, l))
                waiting += l
                cnt("ops", "bind_learn" if l else "bind")
            elif r < 0.33:
                toks.append("H:%d:%d:%d" % (slot(), rng.randrange(per), rng.randrange(nports)))
                cnt("ops", "setSlotSubPath")
            elif r < (0.47 if learnish else 0.40):
                toks.append("C:%d" % slot())
                if waiting:
                    clear_while_waiting = True
                cnt("ops", "clearSlot")
            elif r < 0.50:
                toks.append("D:%d:%d" % (slot(), sub()))
                cnt("ops", "clearSlotSub")
            elif r < 0.57:
                toks.append("G:%d:%d:%s" % (slot(), sub(), bits(rand_gain(rng))))
                cnt("ops", "gain")
            elif r < 0.62:
                toks.append("O:%d:%d:%s" % (slot(), sub(), bits(rand_offset(rng))))
                cnt("ops", "offset")
            elif r < 0.74:
                toks.append("S:%d:%s" % (slot(), bits(rand_value(rng))))
                cnt("ops", "setSlot")
            elif r < 0.79:
                toks.append("U:%d:%d:%s" % (slot(), sub(), bits(rand_value(rng))))
                cnt("ops", "setSlotSub")
            else:
                q = rng.random()
                if q < 0.55:
                    # plain CC: a new one or one used before (probably bound by now)
                    if used_ccs and rng.random() < 0.55:
                        c, t = rng.choice(used_ccs)
                    else:
                        c = 0 if rng.random() < 0.7 else rng.randint(0, 15)
                        t = rng.choice(CCS) if rng.random() < 0.5 else rng.choice(PLAIN_CCS)
                        used_ccs.append((c, t))
                    stats["cc_numbers"].add(t)
                    toks.append("M:%d:%d:%d" % (c, t, rng.choice([0, 127, 64, rng.randint(0, 127)])))
                    cnt("ops", "midi_cc")
                elif q < 0.85:
                    # a complete NRPN sequence (possibly with a CC in between)
                    if rng.random() < 0.5:
                        hi, lo = rng.choice([(0, 1), (1, 0), (2, 5), (127, 127), (0, 0)])
                    else:
                        hi, lo = rng.randint(0, 127), rng.randint(0, 127)
                    seq = [(99, hi), (98, lo), (6, rng.randint(0, 127)), (38, rng.randint(0, 127))]
                    if rng.random() < 0.3:
                        rng.shuffle(seq)
                    if rng.random() < 0.3:
                        seq.append((rng.choice([6, 38]), rng.randint(0, 127)))
                    for t, v in seq:
                        toks.append("M:%d:%d:%d" % (rng.randint(0, 2), t, v))
                        k += 1
                        if rng.random() < 0.1:
                            toks.append("M:0:%d:%d" % (rng.choice(PLAIN_CCS), rng.randint(0, 127)))
                            k += 1
                    stats["nrpn_sequences"] += 1
                    cnt("ops", "midi_nrpn_seq")
                else:
                    toks.append("M:%d:%d:%d" % (rng.randint(0, 2), rng.choice(NRPN_TYPES), rng.randint(0, 127)))
                    cnt("ops", "midi_nrpn_single")
            k += 1
        if clear_while_waiting:
            stats["histories_with_clear_while_waiting"] += 1
        yield " ".join(toks)
    stats["cc_numbers"] = len(stats["cc_numbers"])


def nontrivial(op):
    w = op.split()
    has_bind = any(t.startswith("B:") for t in w)
    return has_bind and any(t[0] in "SUM" for t in w)


def neighbours(op, rng):
    """shorter histories with the same setup: every prefix of the operation list"""
    w = op.split()
    head = [t for t in w if t[0] in "NP"]
    ops = [t for t in w if t[0] not in "NP"]
    for k in range(1, len(ops)):
        yield " ".join(head + ops[:k])


# ---------------------------------------------------------------------------------------
# oracle: an independent reference of the property (abstract learn queue, binding table,
# range / type / monotonicity / default-linearity checks on the emitted values)
# ---------------------------------------------------------------------------------------
REL = 1e-5            # tolerance the property states for log-scale parameters
_RAW = {}             # op line -> unmasked implementation output (see main)


class Port:
    def __init__(self, tok, idx):
        f = tok.split(":")
        self.kind = f[1]
        self.path = f[9] if len(f) > 9 else "/p" + chr(ord("a") + idx)
        self.addr = self.path.encode().hex()
        self.has_bounds = f[2] != "-" and f[3] != "-"
        self.usable = f[6] == "-" and (self.kind == "T" or self.has_bounds)
        self.log = f[4] == "log" and self.kind != "T"
        if self.kind == "T":
            self.mn, self.mx = 0.0, 1.0
        elif self.has_bounds:
            self.mn, self.mx = f32(float(f[2])), f32(float(f[3]))
        if self.log and self.has_bounds:
            self.lo = f32(float(f[5])) if f[5] != "-" else self.mn    # lower end of the emitted range


class Sub:
    def __init__(self):
        self.port = None
        self.gain = 100.0
        self.offset = 0.0
        self.samples = []     # (slot value, emitted value) since the last change of this automation


def pad4(n):
    return (n + 3) // 4 * 4


def parse_msgs(seg):
    """message = <address hex>,<type string>[,<first argument>][,x=<bits>],#<size>"""
    out = []
    for m in seg.split():
        f = m.split(",")
        if len(f) < 2:
            return None
        d = {"addr": f[0], "type": f[1], "val": None, "size": None}
        rest = f[2:]
        if rest and rest[-1].startswith("#"):
            d["size"] = int(rest.pop()[1:])
        rest = [x for x in rest if not x.startswith("x=")]
        try:
            if f[1][:1] == "i" and rest:
                d["val"] = int(rest[0])
            elif f[1][:1] == "f" and rest:
                d["val"] = unbits(rest[0])
        except ValueError:
            return None
        out.append(d)
    return out


def check_value(port, sub, t, msg, where, track=True, dry=False):
    """range, type, address; linear map at default gain/offset; monotonicity within an epoch"""
    if msg["addr"] != port.addr:
        got = bytes.fromhex(msg["addr"]) if msg["addr"] != "-" else b""
        return "%s: message goes to address %s, bound parameter is %s" % (where, got, port.path)
    k = port.kind
    # the message is the address plus exactly one value of the parameter's type: the type string is one tag
    if msg["size"] is not None:
        want = pad4(len(port.path) + 1) + 4 + (0 if k == "T" else 4)
        if len(msg["type"]) == 1 and msg["size"] != want:
            return "%s: message of %d bytes, an address of %d characters with one '%s' argument takes %d" % (
                where, msg["size"], len(port.path), msg["type"], want)
    if k == "T":
        if msg["type"] not in ("T", "F"):
            return "%s: toggle parameter received type '%s'" % (where, msg["type"])
        ev = 1 if msg["type"] == "T" else 0
    elif k == "i":
        if msg["type"] != "i":
            return "%s: integer parameter received type '%s'" % (where, msg["type"])
        ev = msg["val"]
        lo = port.lo if port.log else port.mn
        if not (port.mn <= ev <= port.mx) or not (lo <= ev):
            return "%s: value %d outside [%g,%g]" % (where, ev, max(lo, port.mn), port.mx)
    else:
        if msg["type"] != "f":
            return "%s: float parameter received type '%s'" % (where, msg["type"])
        ev = msg["val"]
        if ev != ev or ev in (float("inf"), float("-inf")):
            return "%s: value is not finite" % where
        if port.log:
            lo, hi = port.lo, port.mx
            if not (lo - abs(lo) * REL <= ev <= hi + abs(hi) * REL):
                return "%s: value %r outside [%g,%g] (log scale, rel. tol. 1e-5)" % (where, ev, lo, hi)
        elif not (port.mn <= ev <= port.mx):
            return "%s: value %r outside [%g,%g]" % (where, ev, port.mn, port.mx)
    if t is None:
        return None
    # --- default gain/offset: slot values 0..1 map linearly onto min..max -----------------
    if sub.gain == 100.0 and sub.offset == 0.0 and 0.0 <= t <= 1.0:
        if k == "T":
            if ev != (1 if t > 0.5 else 0):
                return "%s: toggle at slot value %r is %s" % (where, t, msg["type"])
        elif port.log:
            if port.lo > 0 and port.mx > 0:
                ex = math.exp(math.log(port.lo) + t * (math.log(port.mx) - math.log(port.lo)))
                # an integer parameter gets the nearest integer
                if abs(ev - ex) > 2 * REL * abs(ex) + (0.5 if k == "i" else 0.0):
                    return "%s: log-scale value %r, expected %r at slot value %r" % (where, ev, ex, t)
        else:
            ex = Fraction(port.mn) + Fraction(t) * (Fraction(port.mx) - Fraction(port.mn))
            scale = max(abs(port.mn), abs(port.mx), abs(port.mx - port.mn))
            if k == "i":
                lo = math.floor(ex + Fraction(1, 2) - Fraction(scale) / 10 ** 6 - Fraction(1, 10 ** 9))
                hi = math.floor(ex + Fraction(1, 2) + Fraction(scale) / 10 ** 6 + Fraction(1, 10 ** 9))
                if not (lo <= ev <= hi):
                    return "%s: integer value %d, expected round(%s) at slot value %r" % (where, ev, float(ex), t)
            else:
                if abs(Fraction(ev) - ex) > Fraction(scale) * Fraction(4, 2 ** 23):
                    return "%s: value %r, expected %r at slot value %r (linear map)" % (where, ev, float(ex), t)
                integral = port.mn == int(port.mn) and port.mx == int(port.mx) and scale < 2 ** 17
                if integral and t in (0.0, 1.0) and Fraction(ev) != ex:
                    return "%s: value %r, expected exactly %r at slot value %r" % (where, ev, float(ex), t)
    # --- monotone in the slot value for positive gain ---------------------------------------
    if track or dry:
        if sub.gain > 0 and port.mn <= port.mx:
            for (t0, e0) in sub.samples:
                if t0 == t:
                    continue
                lo_t, lo_e, hi_t, hi_e = (t0, e0, t, ev) if t0 < t else (t, ev, t0, e0)
                slack = REL * abs(hi_e) if (port.log and k == "f") else 0.0
                if lo_e > hi_e + slack:
                    return "%s: not monotone: slot values %r < %r give %r > %r (gain %g)" % (
                        where, lo_t, hi_t, lo_e, hi_e, sub.gain)
        if not dry:
            sub.samples.append((t, ev))
            if len(sub.samples) > 12:
                sub.samples.pop(0)
    return None


def oracle(op, out):
    out = _RAW.get(op, out)
    w = op.split()
    h = w[0].split(":")
    nslots, per = int(h[1]), int(h[2])
    ports = []
    i = 1
    while i < len(w) and w[i][0] == "P":
        ports.append(Port(w[i], len(ports)))
        i += 1
    ops = w[i:]
    if not ops:
        return None
    if out.startswith("crash") or out in ("oob", "bad-op"):
        return "implementation failed on a valid history: " + out
    segs = out.split("|")
    if len(segs) != len(ops):
        return "implementation printed %d segments for %d operations" % (len(segs), len(ops))

    subs = [[Sub() for _ in range(per)] for _ in range(nslots)]
    queue = []                     # slots waiting for a controller, oldest first
    cc = [None] * nslots
    nrpn = [None] * nslots
    reg = {"ph": -1, "pl": -1, "vh": -1, "vl": -1}

    def in_slot(s):
        return 0 <= s < nslots

    def in_sub(j):
        return 0 <= j < per

    def slot_emits(s):
        return [(s, j) for j in range(per) if subs[s][j].port is not None]

    for n, (tok, seg) in enumerate(zip(ops, segs)):
        where = "op %d (%s)" % (n + 1, tok)
        if ";" not in seg:
            return where + ": malformed output segment"
        mtxt, stxt = seg.split(";", 1)
        msgs = parse_msgs(mtxt)
        if msgs is None:
            return where + ": malformed message list"
        try:
            st = [tuple(int(x) for x in s.split(",")) for s in stxt.split("/")]
        except ValueError:
            return where + ": malformed state"
        if len(st) != nslots or any(len(x) != 3 for x in st):
            return where + ": malformed state"
        f = tok.split(":")
        o = f[0]
        expect = []        # [(slot, sub, slot value or None)] that must emit, in order
        optional = False   # the emission may also be absent (property does not say)
        if o == "B":
            s, p, l = int(f[1]), int(f[2]), int(f[3])
            port = ports[p] if 0 <= p < len(ports) else None
            if port is not None and port.usable:
                free = [j for j in range(per) if subs[s][j].port is None]
                if free:
                    sb = subs[s][free[0]]
                    sb.port, sb.gain, sb.offset, sb.samples = port, 100.0, 0.0, []
                    if l and s not in queue and cc[s] is None:
                        if nrpn[s] is None or st[s][0] == len(queue) + 1:
                            # (a slot that only has an NRPN binding may or may not be allowed to
                            #  learn again: the property does not say; follow the implementation)
                            queue.append(s)
        elif o == "H":
            s, j, p = int(f[1]), int(f[2]), int(f[3])
            port = ports[p] if 0 <= p < len(ports) else None
            if in_slot(s) and in_sub(j) and port is not None and port.usable:
                sb = subs[s][j]
                sb.port, sb.samples = port, []
        elif o == "C":
            s = int(f[1])
            if in_slot(s):
                if s in queue:
                    queue.remove(s)
                cc[s] = nrpn[s] = None
                subs[s] = [Sub() for _ in range(per)]
        elif o == "D":
            s, j = int(f[1]), int(f[2])
            if in_slot(s) and in_sub(j):
                subs[s][j] = Sub()
        elif o in ("G", "O"):
            s, j, x = int(f[1]), int(f[2]), unbits(f[3])
            if in_slot(s) and in_sub(j):
                if o == "G":
                    subs[s][j].gain = x
                else:
                    subs[s][j].offset = x
                subs[s][j].samples = []
        elif o == "S":
            s, x = int(f[1]), unbits(f[2])
            if in_slot(s):
                expect = [(a, b, x) for a, b in slot_emits(s)]
        elif o == "U":
            s, j, x = int(f[1]), int(f[2]), unbits(f[3])
            if in_slot(s) and in_sub(j) and subs[s][j].port is not None:
                expect = [(s, j, x)]
        elif o == "M":
            c, t, v = int(f[1]), int(f[2]), int(f[3])
            ctrl = None          # ("cc"|"nrpn", id, normalised value) when the event is a controller value
            if t in (99, 98, 6, 38):
                if t == 99:
                    reg.update(ph=v, vh=-1, vl=-1)
                elif t == 98:
                    reg.update(pl=v, vh=-1, vl=-1)
                elif reg["ph"] >= 0 and reg["pl"] >= 0:
                    reg["vh" if t == 6 else "vl"] = v
                if min(reg.values()) >= 0:
                    ctrl = ("nrpn", reg["ph"] * 128 + reg["pl"], f32((reg["vh"] * 128 + reg["vl"]) / 16383.0))
            else:
                ctrl = ("cc", c * 128 + t, f32(v / 127.0))
            if ctrl is not None:
                table = cc if ctrl[0] == "cc" else nrpn
                bound = [s for s in range(nslots) if table[s] == ctrl[1]]
                if len(bound) > 1:
                    return where + ": controller %s %d is bound to several slots %s" % (ctrl[0], ctrl[1], bound)
                if bound:
                    expect = [(a, b, ctrl[2]) for a, b in slot_emits(bound[0])]
                elif queue:
                    head = queue.pop(0)
                    table[head] = ctrl[1]
                    expect = [(a, b, None) for a, b in slot_emits(head)]
                    optional = True
        else:
            return where + ": unknown operation"

        # ---- emitted messages ---------------------------------------------------------------
        if optional and not msgs:
            expect = []
        if len(msgs) != len(expect):
            return "%s: %d message(s) emitted %s, the bound automations are %s" % (
                where, len(msgs), [bytes.fromhex(m["addr"]).decode("latin1") + ":" + m["type"] for m in msgs],
                [(a, b, subs[a][b].port.path) for a, b, _ in expect])
        # the statement fixes no order among the messages of one slot's sub-automations: accept any
        # assignment of the emitted messages to the bound automations (the order of emission first)
        first = None
        passing = []
        for perm in itertools.permutations(range(len(expect))):
            bad = None
            for m, pi in zip(msgs, perm):
                a, b, x = expect[pi]
                bad = check_value(subs[a][b].port, subs[a][b], x, m, where + " slot %d sub %d" % (a, b), dry=True)
                if bad:
                    break
            if bad is None:
                passing.append(perm)
            elif first is None:
                first = bad
        if not passing and first is not None:
            return first
        if passing:
            # which message belongs to which sub-automation may be ambiguous (same parameter bound twice):
            # a sample is recorded for the monotonicity check only where every admissible assignment agrees
            cand = {}
            for perm in passing:
                for m, pi in zip(msgs, perm):
                    cand.setdefault(pi, set()).add((m["addr"], m["type"], m["val"]))
            for m, pi in zip(msgs, passing[0]):
                a, b, x = expect[pi]
                if len(cand[pi]) == 1:
                    check_value(subs[a][b].port, subs[a][b], x, m, where)
                else:
                    subs[a][b].samples = []
        # ---- bookkeeping observables --------------------------------------------------------
        for s in range(nslots):
            exp_learn = queue.index(s) + 1 if s in queue else -1
            exp_cc = -1 if cc[s] is None else cc[s]
            exp_nrpn = -1 if nrpn[s] is None else nrpn[s]
            if st[s] != (exp_learn, exp_cc, exp_nrpn):
                return "%s: slot %d has (learning,cc,nrpn)=%s, the request order %s and bindings require %s" % (
                    where, s, st[s], queue, (exp_learn, exp_cc, exp_nrpn))
    return None


# ---------------------------------------------------------------------------------------
# entry point.  The model/implementation comparison is done on a canonical form of both
# outputs that drops what the property does not fix:
#  * the value of a log-scale parameter is the result of libm's exponential.  The model predicts
#    the ARGUMENT of the exponential bit-exactly but does not compute the exponential, so the
#    value is masked (`~`) and checked by the oracle against the property's tolerance.  When the
#    harness could not observe the argument (the code no longer calls expf/exp), the emitted value
#    is compared with exp(model's argument) within that tolerance instead;
#  * what a slot emits at the moment it learns a controller (the oracle calls it optional) is
#    replaced by `*`;
#  * the messages of one operation are compared as a sorted multiset.
# The oracle always sees the unmasked implementation output (_RAW).
# ---------------------------------------------------------------------------------------
_MASK = re.compile(r",([fi]),[-0-9a-f]+,x=")
_MODEL_X = re.compile(r"^([0-9a-f-]+),([fi]),~,x=([0-9a-f]{8}),(#\d+)$")
_STATS = {"learn_time_emissions_masked": 0, "log_values_compared_by_tolerance": 0}


def canon(op, out, count=False):
    if ";" not in out:
        return out
    toks = [t for t in op.split() if t[0] not in "NP"]
    segs = out.split("|")
    if len(segs) != len(toks):
        return out
    res = []
    prev = None
    for tok, seg in zip(toks, segs):
        if ";" not in seg:
            return out
        mtxt, stxt = seg.split(";", 1)
        cur = [x.split(",")[1:] for x in stxt.split("/")]
        if tok[0] == "M" and mtxt:
            before = prev if prev is not None else [["-1", "-1"]] * len(cur)
            if cur != before:                # a slot learned this controller
                mtxt = "*"
                if count:
                    _STATS["learn_time_emissions_masked"] += 1
        prev = cur
        msgs = sorted(_MASK.sub(r",\1,~,x=", m) for m in mtxt.split())
        res.append(" ".join(msgs) + ";" + stxt)
    return "|".join(res)


def reconcile(impl, model):
    """impl line in which every log-scale value the harness printed without `x=` and that equals
    exp(<the model's argument>) within the property's tolerance is rewritten as the model prints it"""
    si, sm = impl.split("|"), model.split("|")
    if len(si) != len(sm):
        return impl
    out = []
    for a, b in zip(si, sm):
        if ";" not in a or ";" not in b:
            return impl
        ma, sa = a.split(";", 1)
        mb, _ = b.split(";", 1)
        la, lb = ma.split(), mb.split()
        if len(la) == len(lb):
            for k, (x, y) in enumerate(zip(la, lb)):
                g = _MODEL_X.match(y)
                f = x.split(",")
                if g and len(f) == 4 and f[0] == g.group(1) and f[1] == g.group(2) and f[3] == g.group(4):
                    try:
                        ex = math.exp(unbits(g.group(3)))
                        v = unbits(f[2]) if f[1] == "f" else int(f[2])
                    except (ValueError, OverflowError, struct.error):
                        continue
                    if abs(v - ex) <= REL * abs(ex) + (0.5 if f[1] == "i" else 0.0):
                        la[k] = y
                        _STATS["log_values_compared_by_tolerance"] += 1
        out.append(" ".join(la) + ";" + sa)
    return "|".join(out)


def main(argv):
    orig_h, orig_d = vlib.run_harness, vlib.run_driver
    last = {}

    def run_harness_canon(exe, ops, workdir, tag, extra_args=()):
        raw = orig_h(exe, ops, workdir, tag, extra_args)
        out = []
        for op, r in zip(ops, raw):
            m = canon(op, r, count=True)
            if m != r:
                _RAW[op] = r
            out.append(m)
        last["ops"], last["raw"], last["out"] = ops, raw, out
        return out

    def run_driver_canon(engine, ops, workdir, tag, nproc=1):
        raw = orig_d(engine, ops, workdir, tag, nproc)
        out = [canon(op, r) for op, r in zip(ops, raw)]
        if last.get("ops") is ops or last.get("ops") == ops:
            impl = last["out"]          # the very list the runner compares with: patched in place
            for k, (op, r) in enumerate(zip(ops, raw)):
                if impl[k] != out[k] and ",~,x=" in r:
                    _RAW[op] = last["raw"][k]          # the oracle keeps seeing what the harness printed
                    impl[k] = canon(op, reconcile(last["raw"][k], r))
        return out

    vlib.run_harness, vlib.run_driver = run_harness_canon, run_driver_canon
    try:
        return vlib.main(sys.modules[__name__], argv)
    finally:
        vlib.run_harness, vlib.run_driver = orig_h, orig_d
