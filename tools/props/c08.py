"""C08 — Bundles compose and decompose losslessly, including nesting."""
import os
import re
import struct

from props import c01 as C01

PROP = "C08"
ENGINE = "bundle"
LEAN_MODULES = ["RtoscModel.Props.C08"]
THEOREMS = [
    "Rtosc.Osc.messageLengthU_encode",
    # rtosc_message_length(msg,-1) and rtosc_bundle return on arbitrary bytes (fixes/C06-bundle-length-wrap.patch)
    "Rtosc.Osc.messageLengthU_terminates",
    "Rtosc.Osc.bundle_terminates",
    "Rtosc.Osc.bundle_eq_spec_partial",
    "Rtosc.Osc.bundle_eq_spec_counterexample",
    "Rtosc.Osc.bundleP_encode",
    "Rtosc.Osc.elements_encode",
    "Rtosc.Osc.elements_encode_padded",
    "Rtosc.Osc.fetch_size_encode",
    "Rtosc.Osc.timetag_encode",
    "Rtosc.Osc.messageLength_bundle",
    "Rtosc.Osc.message_not_bundle",
    "Rtosc.Osc.decompose_encode",
    "Rtosc.Osc.compose_decompose",
    "Rtosc.Osc.appendBundle_eq_spec",
    "Rtosc.Osc.bundle_output_composes",
    "Rtosc.Osc.BW.stores_eq_storesFast",
]
HARNESS = {"src": ["bundle.cpp"], "exclude": ["src/cpp/subtree-serialize.cpp"], "deps": ["common.h", "bundle_common.h"]}
RULE = ("element trees with 0..8 elements per bundle (a fraction with 9..32) and nesting depth 0..4, every message element "
        "drawn from C01's space (all 17 type symbols, boundary values, strings/blobs of every residue mod 4; a fraction with "
        "up to 40 tags and with one string/blob of 100..4096 bytes; in every run a few elements and nested bundles of 65532.."
        "70000 bytes, so that every byte of a size field is exercised), 64-bit time tags from a boundary set + random; every "
        "(nested) bundle is composed by the real rtosc_bundle (one literal call site per element count up to 8, one 40-pointer "
        "call site above) into its own exact-size block, nested bundles followed by a zero word (capacity >= size+4); "
        "top-level capacity exact / slack / too small (too small: outside this property, only r=0 is compared with the "
        "model); the result is taken apart on an exact-size copy with rtosc_bundle_p/_elements/_fetch/_size/_timetag/"
        "rtosc_message_length recursively; append_bundle sequences; rtosc_bundle_p on plain messages. About a third of the "
        "ops run in ARENA mode (Cr/Ar): all blocks come from one region whose addresses are reused by every op (poisoned "
        "around the blocks) and a decoy composition with other contents at the same addresses precedes the real one, so "
        "that anything remembered per element address shows up. A small stream puts nested bundles into blocks without the "
        "zero word (known finding C08-K4). Non-trivial = at least one element; distinct = distinct op line")
ASSUMPTIONS = ["every message element is well-formed (C01) and its address does not start with '#' (Elem.WF excludes every "
               "such address although only the 8 bytes \"#bundle\\0\" would be misread; OSC addresses start with '/')",
               "a bundle handed to rtosc_bundle as an element is followed by a zero word inside its allocation "
               "(rtosc_bundle cannot know its length otherwise: K4, rtosc.c:750); messages need nothing behind them; "
               "bundle_output_composes: what rtosc_bundle writes into a buffer >= size+4 meets this precondition",
               "every bundle is shorter than 2^32 bytes; the property's input space has 0..8 elements per bundle, the harness "
               "goes up to 40 (variadic call sites)",
               "rtosc_bundle_fetch/size are only asked for elements that exist (index < count); the buffer handed to "
               "rtosc_bundle_elements with len > size is zero behind the bundle (what rtosc_bundle's memset leaves)",
               "the functions are pure functions of the bytes they are given (no state between calls): not a theorem about "
               "the C code; probed by the arena ops (same addresses, other contents, before every composition)",
               "what the destination holds after a call that does not fit is C02's clause and is not compared here"]
TRUSTED = ["hand-written model RtoscModel/Osc/Bundle.lean of rtosc_bundle*, rtosc_message_length(msg,-1) and append_bundle",
           "C01's models of rtosc_message_length (Osc/Length.lean)",
           "the compiled driver runs BW.storesFast (a linear splice) in place of BW.stores; proved equal "
           "(csimp rule BW.stores_eq_storesFast)"]
LEVEL_TEXT = ("Lean theorems, by induction over the element list for bundles nested to any depth, under the precondition "
              "that every nested-bundle element is followed by a zero word inside its block (known finding C08-K4; "
              "bundle_output_composes shows that rtosc_bundle's own output in a buffer >= size+4 meets it): rtosc_bundle "
              "writes exactly the OSC 1.0 bundle encoding and returns its length; rtosc_bundle_p holds of it; "
              "rtosc_bundle_elements reports the number of elements; rtosc_bundle_fetch/size return every element "
              "byte-identical with its exact size; the time tag is preserved; rtosc_message_length reports the total "
              "length; a message whose address is not \"#bundle\" is never taken for a bundle; append_bundle extends the "
              "bundle by one element; on arbitrary element bytes (blocks shorter than 2^32) rtosc_message_length(msg,-1) "
              "and rtosc_bundle return (messageLengthU_terminates, bundle_terminates; fixes/C06-bundle-length-wrap.patch). "
              "The model is compared with the compiled implementation (ASan/UBSan, exact-size "
              "blocks, heap and reused-address arena) on generated element trees and the round trip is evaluated on the "
              "implementation's output by an independent Python bundle codec")
LEVEL_NOTE = ("Trusted: Lean kernel; the hand-written model is tied to the code by differential execution only; see "
              "evidence trusted_base. bundle_eq_spec is proved under the precondition that nested-bundle elements are followed by a zero word "
              "(known finding C08-K4: rtosc_bundle finds an element's size with rtosc_message_length(msg,-1), which for "
              "a bundle reads one word past its end); the counterexample is a theorem as well")
HAVE_APPEND = True


def probe_append_bundle():
    """harness/bundle.cpp calls the file-static append_bundle of subtree-serialize.cpp by name.  If the tree has no
    function of that name and signature any more the harness still compiles (fallback overload) but cannot drive it:
    the append stream is then not generated, and this note goes into the evidence."""
    global HAVE_APPEND
    import vlib
    try:
        src = open(os.path.join(vlib.REPO, "src/cpp/subtree-serialize.cpp")).read()
    except OSError:
        src = ""
    HAVE_APPEND = re.search(r"size_t\s+append_bundle\s*\(\s*char\s*\*\s*\w+\s*,\s*const\s+char\s*\*\s*\w+\s*,\s*size_t\s+\w+\s*,"
                            r"\s*size_t\s+\w+\s*,\s*size_t\s+\w+\s*\)", src) is not None
    if HAVE_APPEND:
        return "append_bundle(char*, const char*, size_t, size_t, size_t) found in subtree-serialize.cpp"
    return ("harness out of date: subtree-serialize.cpp has no append_bundle(char*, const char*, size_t, size_t, size_t); "
            "the append_bundle stream is NOT run (appendBundle_eq_spec is then tied to the code by nothing)")


TRANSLATORS = [probe_append_bundle]
MAGIC = b"#bundle\0"

hx = C01.hx
unhx = C01.unhx


# ---------------------------------------------------------------------------------------
# independent bundle codec (the specification, in Python)
# ---------------------------------------------------------------------------------------
# tree: ("m", bytes) | ("B", tt, cap, [tree])
def enc(t):
    if t[0] == "m":
        return t[1]
    out = MAGIC + struct.pack(">Q", t[1])
    for k in t[3]:
        e = enc(k)
        out += struct.pack(">I", len(e)) + e
    return out


def dec(b):
    """strict decoder: bytes -> tree without capacities (None if malformed)"""
    if b[:8] != MAGIC:
        return ("m", b)
    if len(b) < 16:
        return None
    tt = struct.unpack(">Q", b[8:16])[0]
    pos = 16
    kids = []
    while pos < len(b):
        if pos + 4 > len(b):
            return None
        n = struct.unpack(">I", b[pos:pos + 4])[0]
        if n == 0 or pos + 4 + n > len(b):
            return None
        k = dec(b[pos + 4:pos + 4 + n])
        if k is None:
            return None
        kids.append(k)
        pos += 4 + n
    return ("B", tt, None, kids)


def strip(t):
    return t if t[0] == "m" else ("B", t[1], None, [strip(k) for k in t[3]])


def hexz(b):
    if not b:
        return "-"
    if not any(b):
        return "z%d" % len(b)
    return b.hex()


def dstr(t):
    if t[0] == "m":
        return "m" + hx(t[1])
    parts = []
    off = 20
    for k in t[3]:
        e = enc(k)
        parts.append("%d:%d:%d:%s" % (off, len(e), len(e), dstr(k)))
        off += 4 + len(e)
    return "B%016x[%s]" % (t[1], ",".join(parts))


def parse_d(s):
    """decomposition string of the harness -> tree (independent check of the round trip)"""
    pos = [0]

    def node():
        if s[pos[0]] == "m":
            j = pos[0] + 1
            while j < len(s) and s[j] in "0123456789abcdef-":
                j += 1
            b = unhx(s[pos[0] + 1:j])
            pos[0] = j
            return ("m", b)
        assert s[pos[0]] == "B"
        tt = int(s[pos[0] + 1:pos[0] + 17], 16)
        pos[0] += 17
        assert s[pos[0]] == "["
        pos[0] += 1
        kids = []
        while s[pos[0]] != "]":
            if s[pos[0]] == ",":
                pos[0] += 1
            for _ in range(3):
                j = s.index(":", pos[0])
                pos[0] = j + 1
            kids.append(node())
        pos[0] += 1
        return ("B", tt, None, kids)
    try:
        t = node()
        return t if pos[0] == len(s) else None
    except (AssertionError, ValueError, IndexError):
        return None


def tokens(t):
    if t[0] == "m":
        return ["m" + hx(t[1])]
    out = ["B%016x:%d:%d" % (t[1], len(t[3]), t[2])]
    for k in t[3]:
        out += tokens(k)
    return out


def parse_tokens(toks, i=0):
    t = toks[i]
    if t[0] == "m":
        return ("m", unhx(t[1:])), i + 1
    tt, n, cap = t[1:].split(":")
    kids = []
    i += 1
    for _ in range(int(n)):
        k, i = parse_tokens(toks, i)
        kids.append(k)
    return ("B", int(tt, 16), int(cap), kids), i


def nested_status(t, top=True):
    """-> (ok, k4): ok = every nested bundle has capacity >= size+4 (zero word present);
    k4 = some nested bundle has size <= capacity < size+4 (fits, but no complete zero word) while every
    bundle fits its block"""
    if t[0] == "m":
        return True, False
    ok, k4 = True, False
    for k in t[3]:
        o, q = nested_status(k, False)
        ok &= o
        k4 |= q
    size = len(enc(t))
    if not top:
        if t[2] < size + 4:
            ok = False
            if t[2] >= size:
                k4 = True
    return ok, k4


def all_fit(t, top=True):
    if t[0] == "m":
        return True
    return all(all_fit(k, False) for k in t[3]) and (top or t[2] >= len(enc(t)))


# ---------------------------------------------------------------------------------------
# generator
# ---------------------------------------------------------------------------------------
TT_SET = [0, 1, 0xffffffffffffffff, 0x8000000000000000, 0x7fffffffffffffff, 0x00000000ffffffff, 0xffffffff00000000,
          0xdeadbeefcafebaad, 0x0000000100000000, 0x00ff00ff00ff00ff, 0x2362756e646c6500, 0x0000000000000010]


def rand_tt(rng, stats=None):
    if rng.random() < 0.5:
        if stats is not None:
            stats["tt_boundary"] += 1
        return rng.choice(TT_SET)
    return rng.getrandbits(64)


_NOSTAT = {"empty_str": 0, "null_blob": 0, "f_via_double": 0}


LONG = [100, 255, 256, 257, 1023, 1024, 1025, 4096]


def rand_msg(rng, small=False, wide=False):
    """wide: the full message shape of C01 (up to 40 tags), sometimes with one long string / blob"""
    tags = C01.rand_tags(rng, 0, 40) if wide else C01.rand_tags(rng, 0, 3 if small else 6)
    pt = [t for t in tags if bytes([t]) in C01.PAYLOAD]
    args = [C01.rand_arg(rng, t, "A", dict(_NOSTAT)) for t in pt]
    # blob (n, None) = n zero bytes; (n, data) with a longer block = its first n bytes: encode() handles both
    if wide and rng.random() < 0.3:
        idx = [i for i, t in enumerate(pt) if bytes([t]) in b"sSb"]
        if idx:
            i = rng.choice(idx)
            n = rng.choice(LONG)
            args[i] = bytes(rng.randint(1, 255) for _ in range(n)) if bytes([pt[i]]) in b"sS" else \
                (n, bytes(rng.getrandbits(8) for _ in range(n)))
    addr = C01.rand_addr(rng, rng.randint(1, 9) if small else None)
    return C01.encode(addr, tags, args)


def sized_msg(rng, size, allow_str=False):
    """a message of exactly `size` bytes (size % 4 == 0, size >= 16): one blob or one string fills it.
    (A 64 KiB *string* costs the Lean driver about a minute - C01's length model walks a list with indices -
    so the quick tier uses blobs for the big elements; strings of up to 4 KiB are in the ordinary streams.)"""
    addr = b"/" + bytes(rng.randint(0x61, 0x7a) for _ in range(rng.randint(1, 2)))     # 4 bytes padded
    if not allow_str or rng.random() < 0.5:
        n = size - 4 - 4 - 4                                   # address, ",b\0\0", length word
        n -= rng.randint(0, 3) if n >= 4 else 0                # any residue: padding fills up
        m = C01.encode(addr, b"b", [(n, bytes(rng.getrandbits(8) for _ in range(n)))])
    else:
        n = size - 4 - 4 - 1
        n -= rng.randint(0, 3) if n >= 4 else 0
        m = C01.encode(addr, b"s", [bytes(rng.randint(1, 255) for _ in range(n))])
    assert len(m) == size, (len(m), size)
    return m


def rand_tree(rng, depth, maxkids, small=False, wide=False):
    """a bundle node of nesting depth <= depth; capacities are filled in by set_caps"""
    n = rng.randint(0, maxkids)
    kids = []
    for _ in range(n):
        if depth > 0 and rng.random() < 0.35:
            kids.append(rand_tree(rng, depth - 1, max(1, maxkids // 2), small, wide))
        else:
            kids.append(("m", rand_msg(rng, small, wide and rng.random() < 0.5)))
    return ["B", rand_tt(rng), None, kids]


def depth_of(t):
    if t[0] == "m":
        return 0
    return 1 + max([depth_of(k) for k in t[3]] + [0])


def set_caps(rng, t, top_cap, exact_nested=False):
    """nested bundles: size + 4..16 (zero word present) — or exactly `size` when exact_nested"""
    if t[0] == "m":
        return t
    kids = [set_caps(rng, k, None, exact_nested) for k in t[3]]
    size = len(enc(("B", t[1], 0, kids)))
    if top_cap is not None:
        cap = top_cap(size)
    elif exact_nested:
        cap = size + rng.choice([0, 0, 1, 3])
    else:
        cap = size + (4 if rng.random() < 0.6 else rng.randint(4, 16))
    return ("B", t[1], cap, kids)


def top_cap_fn(rng, stats):
    def f(size):
        r = rng.random()
        if r < 0.30:
            stats["cap_exact"] += 1
            return size
        if r < 0.80:
            stats["cap_slack4+"] += 1
            return size + rng.randint(4, 64)
        if r < 0.90:
            stats["cap_slack1-3"] += 1
            return size + rng.randint(1, 3)
        stats["cap_too_small"] += 1
        return rng.randint(0, size - 1)
    return f


def count(stats, t):
    d = depth_of(t) - 1
    stats["depth_hist"][min(d, 4)] += 1
    stats["elems_hist"][min(len(t[3]), 8)] += 1
    stats["size_hist"][min(len(enc(t)) // 64, 15)] += 1


def big_trees(rng, quick):
    """elements and nested bundles whose size needs the upper bytes of the 32-bit size field"""
    out = []
    sizes = [65532, 65536, 65540, 70000 - 70000 % 4, 131072 + 4 * rng.randint(0, 8)]
    pick = [rng.choice(sizes[:3]), rng.choice(sizes[1:3]), sizes[3], sizes[4], sizes[1]] if quick else sizes + sizes[:3]
    for j, sz in enumerate(pick):
        small1, small2 = ("m", rand_msg(rng, True)), ("m", rand_msg(rng, True))
        big = ("m", sized_msg(rng, sz, allow_str=(not quick and j == 0)))
        if j % 2 == 0:
            # a big message between two small ones
            out.append(["B", rand_tt(rng), None, [small1, big, small2]])
        else:
            # a nested bundle of exactly sz bytes (16 + 4 + message), between two small messages
            inner = ["B", rand_tt(rng), None, [("m", sized_msg(rng, sz - 20))]]
            out.append(["B", rand_tt(rng), None, [small1, inner, small2]])
    return out


# append_bundle the way subtree_serialize grows its bundle; the third message does not fit any more
APPEND_WITNESSES = ["A 52 Bdeadbeef0a0b0c0d:0:52 m2f6100002c000000 m2f6200002c690000000000ff m2f6300002c000000"]


def generate(rng, tier, stats):
    quick = tier == "quick"
    stats.update({"compose": 0, "append": 0, "bundle_p": 0, "k4_stream": 0, "tt_boundary": 0, "cap_exact": 0,
                  "cap_slack4+": 0, "cap_slack1-3": 0, "cap_too_small": 0, "depth_hist": [0] * 5, "arena_ops": 0,
                  "elems_hist": [0] * 9, "many_elems": 0, "size_hist": [0] * 16, "append_full": 0, "wide_trees": 0,
                  "big_sizes": [], "append_bundle_driven": HAVE_APPEND})

    def c_op(t):
        """a third of the compositions in arena mode (never the ones without the zero word: K4 is a heap finding)"""
        if rng.random() < 0.35 and nested_status(t)[0]:
            stats["arena_ops"] += 1
            return "Cr"
        return "C"

    big = big_trees(rng, quick)

    def body():
        # every element count x nesting depth
        for n in range(0, 9):
            for d in range(0, 5):
                for _ in range(3 if quick else 40):
                    kids = []
                    for j in range(n):
                        if d > 0 and (j == 0 or rng.random() < 0.3):
                            kids.append(rand_tree(rng, d - 1, 3, small=True))
                        else:
                            kids.append(("m", rand_msg(rng, small=True)))
                    t = set_caps(rng, ["B", rand_tt(rng, stats), None, kids], top_cap_fn(rng, stats))
                    count(stats, t)
                    stats["compose"] += 1
                    yield " ".join([c_op(t)] + tokens(t))
        # every boundary time tag
        for tt in TT_SET:
            t = set_caps(rng, ["B", tt, None, [("m", rand_msg(rng, True))]], lambda s: s)
            stats["compose"] += 1
            yield " ".join([c_op(t)] + tokens(t))
        # random trees
        for _ in range(20000 if quick else 300000):
            wide = rng.random() < 0.12
            stats["wide_trees"] += wide
            t = set_caps(rng, rand_tree(rng, rng.randint(0, 4), rng.choice([1, 2, 3, 4, 8]), wide=wide), top_cap_fn(rng, stats))
            count(stats, t)
            stats["compose"] += 1
            yield " ".join([c_op(t)] + tokens(t))
        # more elements than the property asks for (9..32): the other call site of the harness
        for _ in range(300 if quick else 6000):
            kids = [("m", rand_msg(rng, small=True)) if rng.random() < 0.85 else rand_tree(rng, rng.randint(0, 1), 2, small=True)
                    for _ in range(rng.randint(9, 32))]
            t = set_caps(rng, ["B", rand_tt(rng), None, kids], top_cap_fn(rng, stats))
            stats["many_elems"] += 1
            stats["compose"] += 1
            yield " ".join([c_op(t)] + tokens(t))
        # nested bundles in blocks without the zero word (K4)
        for _ in range(12 if quick else 40):
            kids = [rand_tree(rng, rng.randint(0, 1), 2, small=True)] + [("m", rand_msg(rng, True)) for _ in range(rng.randint(0, 2))]
            rng.shuffle(kids)
            t = set_caps(rng, ["B", rand_tt(rng), None, kids], lambda s: s + 8, exact_nested=True)
            stats["k4_stream"] += 1
            yield " ".join(["C"] + tokens(t))
        # append_bundle
        if HAVE_APPEND:
            yield from APPEND_WITNESSES
        for _ in range(4000 if quick and HAVE_APPEND else 60000 if HAVE_APPEND else 0):
            base = rand_tree(rng, rng.randint(0, 1), 3, small=True)
            # sources: messages, and now and then a whole (nested) bundle, the way a serialised subtree is appended
            msgs = [rand_msg(rng, small=True) if rng.random() < 0.8 else
                    enc(set_caps(rng, rand_tree(rng, rng.randint(0, 1), 2, small=True), lambda s_: s_))
                    for _ in range(rng.randint(1, 4))]
            stats["append_bundle_sources"] = stats.get("append_bundle_sources", 0) + sum(m[:8] == MAGIC for m in msgs)
            need = len(enc(("B", base[1], 0, [strip_caps(k) for k in base[3]]))) + sum(4 + len(m) for m in msgs)
            r = rng.random()
            if r < 0.6:
                cap = need + rng.randint(0, 12)
                max_len = cap
            elif r < 0.8:
                cap = need + rng.randint(0, 12)
                max_len = rng.randint(max(cap - 40, 0), cap)
                stats["append_full"] += 1
            else:
                cap = max(need - rng.randint(1, 24), 0)
                max_len = cap
                stats["append_full"] += 1
            t = set_caps(rng, base, lambda s: cap)
            stats["append"] += 1
            a = "A"
            if rng.random() < 0.35 and nested_status(t)[0]:
                a = "Ar"
                stats["arena_ops"] += 1
            yield " ".join([a, str(max_len)] + tokens(t) + ["m" + hx(m) for m in msgs])
        # rtosc_bundle_p on plain messages (and on the one address that *is* the magic)
        for _ in range(600 if quick else 20000):
            stats["bundle_p"] += 1
            r = rng.random()
            if r < 0.8:
                yield "P " + hx(rand_msg(rng))
            else:
                addr = rng.choice([b"#bundle", b"#bundlf", b"#bundle2", b"#b", b"#bundl", b"/#bundle", b"#", b"#bundle/x"])
                yield "P " + hx(C01.encode(addr, b"i", [rng.getrandbits(32)]))

    rest = list(body())
    step = max(len(rest) // (len(big) + 1), 1)
    pos = 0
    for j, bt in enumerate(big):
        yield from rest[pos:pos + step]
        pos += step
        t = set_caps(rng, bt, lambda s: s + rng.choice([0, 4, 8]))
        stats["big_sizes"].append(len(enc(t)))
        stats["compose"] += 1
        yield " ".join(["Cr" if j % 2 else "C"] + tokens(t))
    yield from rest[pos:]


def strip_caps(t):
    return t if t[0] == "m" else ("B", t[1], 0, [strip_caps(k) for k in t[3]])


def nontrivial(op):
    w = op.split()
    if w[0] == "P":
        return False
    return any(x[0] == "m" for x in w[1:])


# ---------------------------------------------------------------------------------------
# the property, evaluated on the implementation's output
# ---------------------------------------------------------------------------------------
def fields(out):
    return dict(x.split("=", 1) for x in out.split() if "=" in x)


def expected_readers(t, size):
    return "p=1 n=%d tt=%016x len=%d d=%s" % (len(t[3]), t[1], size, dstr(t))


def oracle(op, out):
    w = op.split()
    if w[0] == "P":
        m = unhx(w[1])
        want = 1 if m[:8] == MAGIC else 0
        if out.startswith("crash"):
            return "rtosc_bundle_p crashed on a message: " + out
        if out != "p=%d" % want:
            return "rtosc_bundle_p: expected %d, got %s" % (want, out)
        return None
    if w[0] in ("C", "Cr"):
        t, _ = parse_tokens(w, 1)
        if not all_fit(t, True):
            return None                       # a nested bundle that does not fit its block: outside the property
        size = len(enc(t))
        e = enc(t)
        if t[2] < size:
            return None                       # the top-level buffer is too small: C02's clause, not this property's
        if out.startswith("crash"):
            return "composing/decomposing a well-formed bundle crashed: " + out
        exp = "r=%d b=%s %s" % (size, hx(e), expected_readers(t, size))
        if t[2] >= size + 4:
            exp += " nz=%d" % len(t[3])
        if out == exp:
            # the round trip once more, through the independent decoder
            f = fields(out)
            if t[2] >= size and (dec(unhx_z(f["b"])[:size]) != strip(t) or parse_d(f["d"]) != strip(t)):
                return "decoded bundle differs from the composed elements"
            return None
        return diff_msg(out, exp)
    if w[0] in ("A", "Ar"):
        max_len = int(w[1])
        t, i = parse_tokens(w, 2)
        msgs = [unhx(x[1:]) for x in w[i:]]
        if out == "no-append-bundle":
            return None                       # harness out of date (see probe_append_bundle)
        e = enc(t)
        if not all_fit(t, True) or max_len > t[2] or t[2] < len(e):
            return None
        # the property speaks about appends that fit; from the first one that does not, nothing is demanded here
        # (returning 0 and leaving the destination alone is append_bundle's own contract, store-safety is C02's)
        ln = len(e)
        cur = strip(t)
        buf = bytearray(e)
        for m in msgs:
            if len(m) == 0 or max_len < ln + len(m) + 4:
                return None
            buf += struct.pack(">I", len(m)) + m
            ln += 4 + len(m)
            k = dec(m)
            if k is None:
                return None
            cur = ("B", cur[1], None, cur[3] + [k])
        if out.startswith("crash"):
            return "append_bundle crashed: " + out
        rets = []
        k = len(e)
        for m in msgs:
            k += 4 + len(m)
            rets.append(str(k))
        exp = "r=%d a=%s b=%s %s" % (len(e), ",".join(rets) if rets else "-", hx(bytes(buf)), expected_readers(cur, ln))
        if out == exp:
            return None
        return diff_msg(out, exp)
    return None


def unhx_z(s):
    if s == "-":
        return b""
    if s[0] == "z":
        return b"\0" * int(s[1:])
    return bytes.fromhex(s)


NAMES = {"r": "return value of rtosc_bundle", "b": "bytes written", "p": "rtosc_bundle_p", "n": "rtosc_bundle_elements",
         "tt": "rtosc_bundle_timetag", "len": "rtosc_message_length", "d": "rtosc_bundle_fetch/size decomposition",
         "nz": "rtosc_bundle_elements with the buffer's capacity", "a": "return values of append_bundle"}


def diff_msg(out, exp):
    fo, fe = fields(out), fields(exp)
    bad = [k for k in fe if fo.get(k) != fe[k]] + [k for k in fo if k not in fe]
    return "bundle codec disagrees on: " + ", ".join(
        "%s (expected %s, got %s)" % (NAMES.get(k, k), str(fe.get(k))[:80], str(fo.get(k))[:80]) for k in bad[:3])


def known(op, impl_out, model_out, defs):
    """C08-K4: a nested bundle in a block without a complete zero word behind it; the size query of
    rtosc_bundle (rtosc_message_length(msg,-1)) reads past the block.  Attributed only if the trigger holds
    and the implementation does exactly what the defect-mirroring model predicts."""
    w = op.split()
    if w[0] not in ("C", "A", "Cr", "Ar"):
        return None
    t, _ = parse_tokens(w, 1 if w[0][0] == "C" else 2)
    ok, k4 = nested_status(t)
    for d in defs:
        if d.get("id") == "C08-K4" and k4 and all_fit(t, True) \
                and impl_out == ("crash:asan:use-after-poison" if w[0][-1] == "r" else "crash:asan:heap-buffer-overflow") \
                and model_out in (None, impl_out):
            return "C08-K4 nested bundle element without terminating zero word (rtosc.c:750)"
        # the model mirrors the defect; an implementation that handles such an input *correctly* (the oracle is
        # satisfied) is not a violation of the property: reported as the same finding, "not reproduced"
        if d.get("id") == "C08-K4" and k4 and all_fit(t, True) and model_out is not None \
                and model_out.startswith("crash:asan") and not impl_out.startswith("crash") and oracle(op, impl_out) is None:
            return "C08-K4 (not reproduced: the implementation composed this input correctly; known_findings.d/C08.json is out of date)"
    return None


def neighbours(op, rng):
    w = op.split()
    if w[0] not in ("C", "Cr"):
        return
    t, _ = parse_tokens(w, 1)
    size = len(enc(t))
    for cap in list(range(max(size - 4, 0), size + 9)):
        yield " ".join([w[0]] + tokens(("B", t[1], cap, t[3])))
    for k in t[3]:
        yield " ".join([w[0]] + tokens(("B", t[1], size + 8, [k])))
