"""C05 — Path-pattern matching follows the documented pattern language.

Engine `match`.  Op lines (see harness/match.cpp, lean/Driver/MatchEngine.lean):
  M <pattern-hex> <address-hex> <tags-hex> <spec-token|?>  [kind]
  X <pattern-hex> <alphabet-hex> <maxlen> <tags>,<tags>,… <spec-token>
The spec token describes the pattern structurally (`<segs>|<sub>|<types>`, see `tok()`); it is
ignored by harness and driver and read by the oracle, which is a small independent
implementation of the *statement* (backtracking over the segments), not of the C code.
"""
import os
import subprocess

PROP = "C05"
ENGINE = "match"
LEAN_MODULES = ["RtoscModel.Props.C05"]
THEOREMS = ["Rtosc.Match.match_iff_spec", "Rtosc.Match.match_sound", "Rtosc.Match.match_complete_partial",
            "Rtosc.Match.match_complete_counterexample", "Rtosc.Match.match_total",
            "Rtosc.Match.types_sandwich", "Rtosc.Match.types_exact",
            "Rtosc.Match.enum_bound_strict", "Rtosc.Match.enum_bound_strict_msg",
            "Rtosc.Match.copies_agree", "Rtosc.Match.colon_address_counterexample",
            "Rtosc.Match.path_eq_body"]
HARNESS = {"src": ["match.cpp"], "exclude": ["src/cpp/ports.cpp"], "deps": ["common.h"]}
RULE = ("patterns are generated from the grammar (literal text incl. inner '/', #N with boundary N and leading zeros, "
        "{a,b,..} groups, trailing '/', ':types' alternatives incl. empty ones); for each pattern the addresses are "
        "derived from it: exact, one character appended / removed / changed, index N-1 / N / N+1, leading zeros, "
        "9 and 10+ digit indices, continuation after a trailing '/', the pattern's own text as address; type strings: "
        "each alternative, extensions, prefixes, unrelated.  X lines enumerate EVERY address over the 11-letter alphabet "
        "`abc012/:#{,` up to length 3 (quick) / 5 (thorough) x 9 type strings for a systematically enumerated family of "
        "small patterns (exhaustive for that sub-space; results compared as count + order-sensitive hash).  "
        "A small stream of malformed patterns (unbalanced braces, '*', ':' inside groups) is compared model-vs-code "
        "only.  Non-trivial = the pattern is more than a plain literal; distinct = distinct op line")
ASSUMPTIONS = ["patterns of the documented form (Pat.WF0): literal text without NUL # { * :, N < 2^31, alternatives without NUL , }",
               "addresses and type strings are C strings; every digit run of the address is below 2^31 (the statement bounds indices to 9 digits; beyond, atoi wraps: theorem atoi_wraps)",
               "completeness additionally assumes prefix-free {} groups (known finding C05-K1); soundness does not",
               "the buffer behind the type string is at least as long as the longest type alternative "
               "(rtosc_match_args advances arg_str once per pattern character; the harness appends 32 spare bytes; "
               "theorem args_reads_past_type_string)",
               "the model mirrors dispatch.c with fixes/C05-colon-address.patch applied"]
TRUSTED = ["hand-written model RtoscModel/Match/Path.lean of rtosc_match_number, rtosc_match_options, rtosc_match_path, "
           "rtosc_match_args, rtosc_match, rtosc_argument_string and RtoscModel/Match/Copies.lean of arg_matcher, "
           "Port_Matcher::rtosc_match_args",
           "glibc atoi = (int)strtol(s,0,10) with saturation at LONG_MAX (modelled as atoiU, validated by the correspondence)",
           "message layout of rtosc_amessage for all-zero arguments (mkMsg/zeroArgSize, validated by the harness itself: it aborts on a size mismatch)"]
LEVEL_TEXT = ("Lean theorems: rtosc_match_path accepts exactly the addresses the statement describes for every well-formed "
              "pattern and every address (match_iff_spec), soundness and the enumeration bound for all patterns of the "
              "documented form, the type-string sandwich and the exact type-matcher behaviour, equality of the three "
              "copies of the type matcher; the model is compared with the compiled code on tens of thousands of generated "
              "(pattern, message) pairs per run plus an exhaustive small scope, and the statement is evaluated directly "
              "on the implementation's output by an independent oracle")
TECHNIQUE = "Lean 4 model + proofs; correspondence against ASan/UBSan build; independent spec oracle; exhaustive small scope"

ALPH = b"abc012/:#{,"
TAGS9 = [b"", b"i", b"f", b"ii", b"if", b"fi", b"s", b"T", b"iii"]
SLACK = 32


def hx(b):
    return b.hex() if b else "-"


def unhx(s):
    return b"" if s == "-" else bytes.fromhex(s)


# --------------------------------------------------------------------------------------
# structured patterns
# --------------------------------------------------------------------------------------
# pattern = (segs, sub, types); seg = ("L", bytes) | ("E", digit-bytes) | ("A", [bytes])
def render(p):
    segs, sub, types = p
    out = b""
    for k, v in segs:
        if k == "L":
            out += v
        elif k == "E":
            out += b"#" + v
        else:
            out += b"{" + b",".join(v) + b"}"
    if sub:
        out += b"/"
    if types is not None:
        for t in types:
            out += b":" + t
    return out


def tok(p):
    segs, sub, types = p
    ss = []
    for k, v in segs:
        if k == "A":
            ss.append("A" + ",".join(hx(a) for a in v))
        else:
            ss.append(k + hx(v))
    return "%s|%d|%s" % (";".join(ss), 1 if sub else 0, "N" if types is None else ",".join(hx(t) for t in types))


def untok(t):
    a, b, c = t.split("|")
    segs = []
    if a:
        for s in a.split(";"):
            if s[0] == "A":
                segs.append(("A", [unhx(x) for x in s[1:].split(",")]))
            else:
                segs.append((s[0], unhx(s[1:])))
    types = None if c == "N" else [unhx(x) for x in c.split(",")]
    return (segs, b == "1", types)


def isdig(c):
    return 48 <= c <= 57


def wf0(p):
    """Pat.wf0 of Match/Spec.lean, re-implemented."""
    segs, sub, types = p
    for i, (k, v) in enumerate(segs):
        if k == "L":
            if not v or any(c in b"\0#{*:" for c in v):
                return False
            if i > 0 and segs[i - 1][0] == "E" and isdig(v[0]):
                return False
            if i == len(segs) - 1 and not sub and v[-1:] == b"/":
                return False
        elif k == "E":
            if not v or not all(isdig(c) for c in v) or int(v) >= 2 ** 31:
                return False
        else:
            if not v or any(c in b"\0,}" for a in v for c in a):
                return False
    if types is not None:
        if not types or any(c in b"\0:" for t in types for c in t):
            return False
    return True


def has_prefix_alts(p):
    """trigger of C05-K1 (Pat.hasPrefixAlts)"""
    for k, v in p[0]:
        if k == "A":
            for a in v:
                for b in v:
                    if a != b and b.startswith(a):
                        return True
    return False


def idx_bounded(addr):
    i = 0
    n = len(addr)
    while i < n:
        if isdig(addr[i]):
            j = i
            while j < n and isdig(addr[j]):
                j += 1
            if int(addr[i:j]) >= 2 ** 31:
                return False
            i = j
        else:
            i += 1
    return True


# --------------------------------------------------------------------------------------
# the statement, evaluated directly (independent of the C code's structure and of the model)
# --------------------------------------------------------------------------------------
def spelled_ends(segs, addr):
    """all offsets at which the address can stand after spelling the segments in order"""
    pos = {0}
    for k, v in segs:
        nxt = set()
        for i in pos:
            if k == "L":
                if addr.startswith(v, i):
                    nxt.add(i + len(v))
            elif k == "E":
                j = i
                while j < len(addr) and isdig(addr[j]):
                    j += 1
                if j > i and int(addr[i:j]) < int(v):      # the whole digit run, strictly below N
                    nxt.add(j)
            else:
                for a in v:
                    if addr.startswith(a, i):
                        nxt.add(i + len(a))
        pos = nxt
        if not pos:
            break
    return pos


def path_spec(p, addr):
    segs, sub, _ = p
    ends = spelled_ends(segs, addr)
    if sub:
        return any(addr[i:i + 1] == b"/" for i in ends)
    return len(addr) in ends


def types_exact(p, tags):
    return p[2] is None or tags in p[2]


def types_loose(p, tags):
    return p[2] is None or any(tags.startswith(a) for a in p[2])


# --------------------------------------------------------------------------------------
# generator
# --------------------------------------------------------------------------------------
LIT_CH = b"abcxyz_.,}-"
ALT_CH = b"abcxyz/_-"
TAG_CH = b"ifsbTFhc"
N_CHOICES = [0, 1, 2, 3, 9, 10, 12, 16, 100, 123, 128, 234, 1000, 65536, 999999999, 2 ** 31 - 1]


def rand_lit(rng, after_enum):
    n = rng.choice([1, 1, 2, 2, 3, 4, 6])
    s = bytearray()
    for i in range(n):
        r = rng.random()
        if r < 0.15 and not (i == 0 and after_enum):
            s.append(rng.choice(b"0123456789"))
        elif r < 0.27:
            s.append(47)
        else:
            s.append(rng.choice(LIT_CH))
    return bytes(s)


def rand_alts(rng, prefix_related):
    n = rng.choice([1, 2, 2, 3, 3, 4])
    out = []
    tries = 0
    while len(out) < n and tries < 50:
        tries += 1
        l = rng.choice([0, 1, 1, 2, 2, 3]) if prefix_related else rng.choice([1, 1, 2, 2, 3])
        a = bytes(rng.choice(ALT_CH if rng.random() < 0.9 else b"012") for _ in range(l))
        if not prefix_related and any(a.startswith(b) or b.startswith(a) for b in out):
            continue
        out.append(a)
    if prefix_related and len(out) >= 1 and rng.random() < 0.8:
        b = rng.choice(out)
        ext = b + bytes([rng.choice(ALT_CH)])
        out.insert(rng.randint(0, len(out)), ext)
    return out or [b"a"]


def rand_tags(rng, lo=0, hi=3):
    return bytes(rng.choice(TAG_CH) for _ in range(rng.randint(lo, hi)))


def rand_pattern(rng, k1=False):
    nseg = rng.choice([0, 1, 1, 2, 2, 2, 3, 3, 4])
    segs = []
    for i in range(nseg):
        r = rng.random()
        after_enum = bool(segs) and segs[-1][0] == "E"
        if r < 0.45:
            segs.append(("L", rand_lit(rng, after_enum)))
        elif r < 0.75:
            n = rng.choice(N_CHOICES) if rng.random() < 0.8 else rng.randint(0, 300)
            ds = str(n).encode()
            if rng.random() < 0.15:
                ds = b"0" * rng.randint(1, 3) + ds
            segs.append(("E", ds))
        else:
            segs.append(("A", rand_alts(rng, k1)))
    sub = rng.random() < 0.4
    if segs and not sub and segs[-1][0] == "L" and segs[-1][1].endswith(b"/"):
        sub = True
        segs[-1] = ("L", segs[-1][1][:-1] or b"a")
    r = rng.random()
    if r < 0.35:
        types = None
    else:
        types = []
        for _ in range(rng.choice([1, 1, 2, 2, 3])):
            types.append(b"" if rng.random() < 0.2 else rand_tags(rng, 1, 3 if rng.random() < 0.9 else 12))
    return (segs, sub, types)


def fmt_index(rng, v):
    s = str(v).encode()
    r = rng.random()
    if r < 0.2:
        s = b"0" * rng.randint(1, 4) + s
    elif r < 0.25 and len(s) < 9:
        s = s.rjust(9, b"0")
    return s


def matching_address(rng, p, mode="ok"):
    """an address built piece by piece from the pattern; `mode` picks the index values"""
    segs, sub, _ = p
    out = b""
    for k, v in segs:
        if k == "L":
            out += v
        elif k == "E":
            n = int(v)
            if mode == "ok":
                val = rng.choice([0, n - 1, n // 2, rng.randint(0, max(0, n - 1))]) if n > 0 else 0
            elif mode == "N":
                val = n
            elif mode == "N+1":
                val = n + 1
            elif mode == "N-1":
                val = max(0, n - 1)
            elif mode == "9dig":
                val = rng.choice([999999999, 100000000, min(n, 999999999)])
            else:  # "big": beyond the statement's bound (correspondence only)
                val = rng.choice([2 ** 31, 2 ** 32, 2 ** 32 + max(0, n - 1), 2 ** 63, 10 ** 20, 2 ** 64 + 1])
            out += fmt_index(rng, max(0, val))
        else:
            out += rng.choice(v)
    if sub:
        out += b"/"
        if rng.random() < 0.6:
            out += bytes(rng.choice(b"abc/1:#") for _ in range(rng.randint(1, 5)))
    return out


def mutate(rng, addr, kind):
    a = bytearray(addr)
    pool = b"abcxyz/_012:,}#{"
    if kind == "append":
        a.append(rng.choice(pool))
    elif kind == "remove" and a:
        del a[rng.randrange(len(a))]
    elif kind == "change" and a:
        i = rng.randrange(len(a))
        c = rng.choice(pool)
        while c == a[i]:
            c = rng.choice(pool)
        a[i] = c
    elif kind == "insert":
        a.insert(rng.randint(0, len(a)), rng.choice(pool))
    elif kind == "truncate" and a:
        del a[rng.randrange(len(a)):]
    return bytes(a)


def tag_choices(rng, p):
    types = p[2]
    out = [b"", rand_tags(rng, 1, 3)]
    if types:
        t = rng.choice(types)
        out += [t, t + bytes([rng.choice(TAG_CH)]), t[:-1], rng.choice(types)]
        if len(t) > 0:
            c = bytearray(t)
            c[rng.randrange(len(c))] = rng.choice(TAG_CH)
            out.append(bytes(c))
    return out


MENU = [("L", b"a"), ("L", b"ab"), ("L", b"b/"), ("L", b"/a"), ("L", b"1"), ("L", b"c,"),
        ("E", b"1"), ("E", b"2"), ("E", b"10"), ("E", b"12"), ("E", b"02"),
        ("A", [b"a", b"b"]), ("A", [b"ab", b"c"]), ("A", [b"a/", b"b"]), ("A", [b"0", b"1"]), ("A", [b"c"])]
TYPE_MENU = [None, [b"i"], [b"", b"i"], [b"i", b"f"], [b"ii", b""], [b"i", b"if"], [b"s"], [b"f", b"i", b"T"]]


def small_patterns():
    """the systematically enumerated family: all segment lists of length 0..2 over MENU x trailing '/'
    (well-formed, prefix-free), type alternatives assigned round-robin"""
    out = []
    lists = [[]] + [[a] for a in MENU] + [[a, b] for a in MENU for b in MENU]
    k = 0
    for segs in lists:
        for sub in (False, True):
            p = (list(segs), sub, TYPE_MENU[k % len(TYPE_MENU)])
            k += 1
            if wf0(p) and not has_prefix_alts(p):
                out.append(p)
    return out


def generate(rng, tier, stats):
    quick = tier == "quick"
    n_pat = 10000 if quick else 40000
    stats.update({"M_wf": 0, "M_k1_patterns": 0, "M_malformed": 0, "X": 0, "patterns": 0,
                  "seg_kinds": {"L": 0, "E": 0, "A": 0}, "sub": 0, "typed": 0,
                  "addr_kinds": {}, "expect": {"must": 0, "must_not": 0, "free": 0, "unchecked": 0}})
    xs = small_patterns()
    if quick:
        xs = rng.sample(xs, 120)
        xlen = 3
    else:
        xlen = 5
    x_every = max(1, n_pat // max(1, len(xs)))
    xi = 0

    def emit_M(p, addr, tags, kind, spec=True):
        stats["addr_kinds"][kind] = stats["addr_kinds"].get(kind, 0) + 1
        t = tok(p) if spec else "?"
        if spec:
            e = expectation(p, addr, tags)
            stats["expect"][e] += 1
        return "M %s %s %s %s %s" % (hx(render(p)), hx(addr), hx(tags), t, kind)

    for i in range(n_pat):
        if i % x_every == 0 and xi < len(xs):
            p = xs[xi]
            xi += 1
            stats["X"] += 1
            yield "X %s %s %d %s %s" % (hx(render(p)), hx(ALPH), xlen, ",".join(hx(t) for t in TAGS9), tok(p))
        r = rng.random()
        if r < 0.04:
            # malformed / outside the documented form: model vs code only
            s = bytes(rng.choice(b"ab#{},/:*12") for _ in range(rng.randint(0, 8)))
            stats["M_malformed"] += 1
            for _ in range(4):
                a = bytes(rng.choice(b"ab/:,12{}") for _ in range(rng.randint(0, 6)))
                if rng.random() < 0.5:
                    a = mutate(rng, s.split(b":")[0].replace(b"#", b"").replace(b"*", b"x"), rng.choice(["append", "remove", "change", "keep"]))
                stats["addr_kinds"]["malformed"] = stats["addr_kinds"].get("malformed", 0) + 1
                stats["expect"]["unchecked"] += 1
                yield "M %s %s %s ? malformed" % (hx(s), hx(a), hx(rand_tags(rng, 0, 2)))
            continue
        k1 = r < 0.12
        p = rand_pattern(rng, k1)
        if not wf0(p):
            continue
        stats["patterns"] += 1
        if has_prefix_alts(p):
            stats["M_k1_patterns"] += 1
        else:
            stats["M_wf"] += 1
        for k, _ in p[0]:
            stats["seg_kinds"][k] += 1
        stats["sub"] += 1 if p[1] else 0
        stats["typed"] += 1 if p[2] is not None else 0
        has_enum = any(k == "E" for k, _ in p[0])
        base = matching_address(rng, p)
        cases = [(base, "exact")]
        for kind in ("append", "remove", "change", "insert", "truncate"):
            cases.append((mutate(rng, matching_address(rng, p), kind), kind))
        if has_enum:
            for mode in ("N-1", "N", "N+1", "9dig"):
                cases.append((matching_address(rng, p, mode), "idx" + mode))
            if rng.random() < 0.3:
                cases.append((matching_address(rng, p, "big"), "idxbig"))
        if p[2] is not None:
            # the address spells out the type part too (K2)
            cases.append((render((p[0], p[1], None)) .replace(b"#", b"") + b":" + p[2][0], "colon"))
            cases.append((matching_address(rng, (p[0], False, None)) + b":" + p[2][-1], "colon"))
        if p[1]:
            cases.append((matching_address(rng, (p[0], False, None)), "noslash"))
        for addr, kind in cases:
            tl = tag_choices(rng, p)
            for tags in ([rng.choice(tl)] if kind != "exact" else tl):
                yield emit_M(p, addr, tags, kind)
    while xi < len(xs):
        p = xs[xi]
        xi += 1
        stats["X"] += 1
        yield "X %s %s %d %s %s" % (hx(render(p)), hx(ALPH), xlen, ",".join(hx(t) for t in TAGS9), tok(p))


def expectation(p, addr, tags):
    if not idx_bounded(addr) or b"\0" in addr or b"\0" in tags:
        return "unchecked"
    ps = path_spec(p, addr)
    if ps and types_exact(p, tags):
        return "must"
    if not (ps and types_loose(p, tags)):
        return "must_not"
    return "free"


def nontrivial(op):
    w = op.split()
    if w[0] == "X":
        return True
    pat = unhx(w[1])
    return any(c in pat for c in b"#{/:")


# --------------------------------------------------------------------------------------
# oracle
# --------------------------------------------------------------------------------------
def mix(h, s):
    for c in s:
        h = (h * 1099511628211 + c + 1) & 0xFFFFFFFFFFFFFFFF
    return (h * 1099511628211 + 255) & 0xFFFFFFFFFFFFFFFF


def enum_matches(p, alph, maxlen):
    """all addresses over `alph` up to `maxlen` that the statement says match the path of p,
    produced generatively (pieces, then every continuation after a trailing '/'), then checked
    once more with path_spec; returned in the harness's enumeration order"""
    segs, sub, _ = p
    al = set(alph)
    digs = [c for c in alph if isdig(c)]
    fronts = {b""}
    for k, v in segs:
        nxt = set()
        for f in fronts:
            if k == "L":
                c = [v]
            elif k == "A":
                c = v
            else:
                c = []
                cur = [b""]
                for _ in range(maxlen - len(f)):
                    cur = [x + bytes([d]) for x in cur for d in digs]
                    c += [x for x in cur if int(x) < int(v)]
            for piece in c:
                g = f + piece
                if len(g) <= maxlen and all(ch in al for ch in piece):
                    nxt.add(g)
        fronts = nxt
    res = set()
    if sub:
        for f in fronts:
            g = f + b"/"
            if len(g) > maxlen or 47 not in al:
                continue
            conts = [b""]
            res.add(g)
            for _ in range(maxlen - len(g)):
                conts = [x + bytes([c]) for x in conts for c in alph]
                for x in conts:
                    res.add(g + x)
    else:
        res = fronts
    res = [a for a in res if path_spec(p, a)]
    order = {c: i for i, c in enumerate(alph)}
    res.sort(key=lambda a: (len(a), [order[c] for c in a]))
    return res


def oracle(op, out):
    """The statement, evaluated on what the implementation printed."""
    w = op.split()
    if out.startswith("crash") or out == "bad-op":
        return "implementation did not produce a result: " + out
    if w[0] == "M":
        if w[4] == "?":
            return None
        p = untok(w[4])
        addr, tags = unhx(w[2]), unhx(w[3])
        if not wf0(p) or b"\0" in addr or b"\0" in tags or not idx_bounded(addr):
            return None
        o = out.split()
        if len(o) != 8 or o[0] != "P" or o[2] != "M" or o[4] != "A" or o[6] != "B":
            return "unparsable output " + out
        ps = path_spec(p, addr)
        got_p = o[1] != "NULL"
        if got_p != ps:
            return ("rtosc_match_path %s the address although the statement says it %s" %
                    ("accepts" if got_p else "rejects", "does not match" if not ps else "matches"))
        got_m = o[3] == "1"
        if ps and types_exact(p, tags) and not got_m:
            return "rtosc_match rejects a message whose address spells the pattern and whose type string is listed"
        if got_m and not (ps and types_loose(p, tags)):
            return "rtosc_match accepts a message that %s" % (
                "does not spell the pattern" if not ps else "has a type string that is neither equal to nor an extension of an alternative")
        if p[2] is not None:
            for name, v in (("arg_matcher", o[5]), ("Port_Matcher::rtosc_match_args", o[7])):
                if v not in ("0", "1"):
                    return "%s gave no result" % name
                if tags in p[2] and v != "1":
                    return "%s rejects a listed type string" % name
                if v == "1" and not any(tags.startswith(a) for a in p[2]):
                    return "%s accepts a type string that is neither equal to nor an extension of an alternative" % name
        return None
    if w[0] == "X":
        p = untok(w[5])
        if not wf0(p) or has_prefix_alts(p):
            return None
        alph, maxlen = unhx(w[2]), int(w[3])
        tagv = [unhx(t) for t in w[4].split(",")]
        ms = enum_matches(p, alph, maxlen)
        h = 0
        for a in ms:
            h = mix(h, a)
        o = out.split()
        if len(o) != 3 + len(tagv) or o[0] != "X":
            return "unparsable output " + out
        if (int(o[1]), int(o[2])) != (len(ms), h):
            return "rtosc_match_path accepts %s addresses (hash %s) of the scope, the statement %d (hash %d)" % (o[1], o[2], len(ms), h)
        for t, f in zip(tagv, o[3:]):
            c, hh = f.split(":")
            if types_exact(p, t):
                if (int(c), int(hh)) != (len(ms), h):
                    return "rtosc_match with listed type string %r accepts %s addresses, the statement %d" % (t, c, len(ms))
            elif not types_loose(p, t):
                if int(c) != 0:
                    return "rtosc_match accepts %s messages with type string %r, which no alternative admits" % (c, t)
        return None
    return None


# --------------------------------------------------------------------------------------
# known finding C05-K1
# --------------------------------------------------------------------------------------
_trigger_cache = {}


def lean_trigger(token):
    """Pat.hasPrefixAlts evaluated by the compiled Lean definitions (driver op W)."""
    if token in _trigger_cache:
        return _trigger_cache[token]
    import vlib
    try:
        r = subprocess.run([vlib.driver_path(ENGINE)], input="W %s\n" % token, stdout=subprocess.PIPE,
                           stderr=subprocess.PIPE, text=True, timeout=30)
        o = r.stdout.split()
        res = len(o) >= 3 and o[0] == "W" and o[1] == "1" and o[2] == "0"
    except Exception:
        res = False
    _trigger_cache[token] = res
    return res


def known(op, impl_out, model_out, defs):
    """C05-K1 only: the pattern satisfies the trigger (as computed by the Lean predicate and by this
    module), the statement says the address matches, the code says it does not, and that is exactly
    what the defect-mirroring model predicts."""
    if not any(d.get("id") == "C05-K1" for d in defs):
        return None
    w = op.split()
    if w[0] != "M" or w[4] == "?":
        return None
    if model_out is not None and impl_out != model_out:
        return None
    p = untok(w[4])
    if not (wf0(p) and has_prefix_alts(p) and lean_trigger(w[4])):
        return None
    addr, tags = unhx(w[2]), unhx(w[3])
    o = impl_out.split()
    if len(o) != 8:
        return None
    if path_spec(p, addr) and o[1] == "NULL" and o[3] == "0":
        # every other part of the statement must still hold on this output
        if p[2] is not None:
            for v in (o[5], o[7]):
                if (tags in p[2] and v != "1") or (v == "1" and not any(tags.startswith(a) for a in p[2])):
                    return None
        return "C05-K1"
    return None


def neighbours(op, rng):
    w = op.split()
    if w[0] != "M":
        return
    addr, tags = unhx(w[2]), unhx(w[3])
    rest = " ".join(w[4:])
    seen = set()
    for i in range(len(addr) + 1):
        for a in (addr[:i] + addr[i + 1:], addr[:i] + b"a" + addr[i:], addr[:i] + b"1" + addr[i:], addr[:i] + b"/" + addr[i:]):
            for t in (tags, b"", tags[:-1], tags + b"i"):
                k = (a, t)
                if k not in seen:
                    seen.add(k)
                    yield "M %s %s %s %s" % (w[1], hx(a), hx(t), rest)


# --------------------------------------------------------------------------------------
# runner
# --------------------------------------------------------------------------------------
def _run_driver(engine, ops, workdir, tag, nproc=1):
    """Same contract as vlib.run_driver.  The driver processes write to files instead of pipes:
    with pipes, every process but the one currently being read stalls once it has produced 64 KB,
    which serialises the expensive X lines (12 min instead of 1 in the thorough tier)."""
    import vlib
    exe = vlib.driver_path(engine)
    if nproc <= 1 or len(ops) < 2000:
        nproc = 1
    per = (len(ops) + nproc - 1) // nproc if ops else 1
    procs = []
    for i in range(0, len(ops), per):
        part = ops[i:i + per]
        fn = os.path.join(workdir, "%s.drv.%d" % (tag, i))
        with open(fn, "w") as f:
            f.write("\n".join(part) + "\n")
        fo = open(fn + ".out", "w")
        procs.append((fn, len(part), fo, subprocess.Popen([exe], stdin=open(fn), stdout=fo, stderr=subprocess.PIPE, text=True)))
    res = []
    for fn, n, fo, p in procs:
        _, err = p.communicate()
        fo.close()
        got = open(fn + ".out").read().split("\n")
        os.remove(fn)
        os.remove(fn + ".out")
        if p.returncode != 0:
            raise RuntimeError("driver failed: " + err[-2000:])
        if got and got[-1] == "":
            got.pop()
        if len(got) != n:
            raise RuntimeError("driver printed %d lines for %d ops" % (len(got), n))
        res.extend(got)
    return res


def main(argv):
    import sys
    import vlib
    vlib.run_driver = _run_driver
    return vlib.main(sys.modules[__name__], argv)
