"""C05 — Path-pattern matching follows the documented pattern language.

Engine `match`.  Op lines (see harness/match.cpp, lean/Driver/MatchEngine.lean):
  M <pattern-hex> <address-hex> <tags-hex> <spec-token>  [kind]
  U <pattern-hex> <address-hex> <tags-hex> ? [kind]      (outside the quantifier: only "the calls return")
  X <pattern-hex> <alphabet-hex> <maxlen> <tags>,<tags>,… <spec-token>
The spec token describes the pattern structurally (`<segs>|<sub>|<types>`, see `tok()`); it is
ignored by harness and driver and read by the oracle, which is a small independent
implementation of the *statement* (backtracking over the segments), not of the C code.
"""
import os
import subprocess

PROP = "C05"
ENGINE = "match"
LEAN_MODULES = ["RtoscModel.Props.C05"]
THEOREMS = ["Rtosc.Match.match_iff_spec", "Rtosc.Match.match_sound", "Rtosc.Match.match_complete_partial",
            "Rtosc.Match.match_complete_counterexample", "Rtosc.Match.match_total",
            "Rtosc.Match.msg_total", "Rtosc.Match.msg_sound", "Rtosc.Match.msg_complete_partial",
            "Rtosc.Match.types_sandwich", "Rtosc.Match.types_exact",
            "Rtosc.Match.enum_bound_strict", "Rtosc.Match.enum_bound_strict_msg",
            "Rtosc.Match.copies_agree", "Rtosc.Match.colon_address_counterexample",
            "Rtosc.Match.args_overread_counterexample", "Rtosc.Match.path_eq_body",
            # proof extension: digit-run hypothesis weakened / removed, full completeness, leftmost reading
            "Rtosc.Match.idxBounded_enumIdx", "Rtosc.Match.enumIdxBounded_iff_check",
            "Rtosc.Match.enumIdxBounded_of_all_readings",
            "Rtosc.Match.match_total_all", "Rtosc.Match.msg_total_all",
            "Rtosc.Match.match_sound_enum", "Rtosc.Match.match_complete", "Rtosc.Match.match_iff_spec_enum",
            "Rtosc.Match.match_sound_needs_enumIdx",
            "Rtosc.Match.msg_sound_enum", "Rtosc.Match.msg_complete",
            "Rtosc.Match.types_exact_enum", "Rtosc.Match.types_sandwich_enum",
            "Rtosc.Match.leftmost_spells", "Rtosc.Match.leftmost_iff_spec", "Rtosc.Match.leftmost_unique",
            "Rtosc.Match.match_leftmost_complete", "Rtosc.Match.match_iff_leftmost", "Rtosc.Match.k1_exact",
            "Rtosc.Match.msg_iff_leftmost", "Rtosc.Match.msg_leftmost_complete",
            "Rtosc.Match.enum_bound_leftmost", "Rtosc.Match.enum_bound_leftmost_msg",
            "Rtosc.Match.enum_bound_strict_idx", "Rtosc.Match.enum_bound_needs_leftmost"]
HARNESS = {"src": ["match.cpp"], "exclude": ["src/cpp/ports.cpp"], "deps": ["common.h"]}
RULE = ("patterns are generated from the grammar: literal text over lower- AND upper-case letters, punctuation, the "
        "OSC-1.0 wildcard characters `? [ ] ! space , } -` (all literal in this language), any other byte but NUL # { * : "
        "(control characters, bytes >= 0x80), inner '/', digits; #N with boundary N and leading zeros; {a,b,..} groups "
        "with 1..9 alternatives of length 0..7 (incl. # { * : inside); trailing '/'; 1..8 ':types' alternatives over the "
        "full tag alphabet `ifsbTFhcdtSrmNI[]` incl. empty ones, array brackets and 12-character alternatives.  For each "
        "pattern the addresses are derived from it: exact, one character appended / removed / changed / inserted, "
        "truncated, a letter in the other case, a wildcard character replaced by an ordinary one, a further '/component' "
        "appended, index N-1 / N / N+1, leading zeros, 9-digit indices, continuation after a trailing '/', the pattern's "
        "own text as address; type strings: every alternative (also the 5th and later ones), extensions, prefixes, "
        "brackets added / removed, unrelated.  Every M line calls rtosc_match_path and rtosc_match twice: with "
        "path_end == NULL and with path_end != NULL (what Ports::dispatch does); only the verdicts are compared and "
        "checked.  All buffers are exact-size heap blocks (no spare byte behind the message).  X lines enumerate EVERY "
        "address over the 11-letter alphabet `abc012/:#{,` (every 4th pattern: `abB0?2/:#{,` with c -> B, 1 -> ? in "
        "the pattern) up to length 3 (quick) / 5 (thorough) x 9 type strings for a systematically enumerated family of "
        "small patterns (exhaustive for that sub-space; results compared as count + "
        "order-sensitive hash).  Inputs outside the quantifier (an index of 10+ digits / >= 2^31 in the address, patterns "
        "not of the documented form: unbalanced braces, '*') are U lines: the calls are made under the sanitizers and "
        "only 'they returned' is checked, no verdict is compared.  Non-trivial = the pattern is more than a plain "
        "literal; distinct = distinct op line")
ASSUMPTIONS = ["patterns of the documented form (Pat.WF0): literal text without NUL # { * :, N < 2^31, alternatives without NUL , }",
               "addresses and type strings are C strings (a type string only where the pattern has a type part)",
               "soundness (match_sound_enum, msg_sound_enum, the 'only if' halves of match_iff_spec_enum, types_exact_enum, "
               "match_iff_leftmost, msg_iff_leftmost): the digit runs of the address that stand at enumerations of the "
               "pattern are below 2^31 (EnumIdxBounded, decidable: enumIdxBounded_iff_check; the statement bounds indices "
               "to 9 digits; beyond, atoi wraps and the hypothesis cannot be dropped: match_sound_needs_enumIdx, "
               "atoi_wraps; such addresses only run as U lines).  Digit runs anywhere else in the address (literal text, "
               "alternatives, behind a trailing '/') are unconstrained.  The theorems of the first round (match_sound, "
               "msg_sound, match_iff_spec, types_exact, enum_bound_strict, ...) carry the stronger IdxBounded (every digit "
               "run of the whole address; idxBounded_enumIdx) and are kept because C04/C09/C14 use them.  Completeness "
               "(match_complete, msg_complete, match_leftmost_complete, msg_leftmost_complete) and memory safety "
               "(match_total_all, msg_total_all) assume nothing about digit runs; enum_bound_leftmost / "
               "enum_bound_strict_idx only that the one index in question is below 2^31",
               "statements in terms of PathSpec (any reading of the address): completeness (match_complete, msg_complete, "
               "match_iff_spec_enum, types_exact_enum, left half of types_sandwich_enum) and enum_bound_strict_idx "
               "assume prefix-free {} groups (Pat.WF; known finding C05-K1: with prefix-related alternatives an address "
               "can have two readings and the code takes the leftmost); the statements in terms of the "
               "leftmost-alternative reading (match_iff_leftmost, msg_iff_leftmost, enum_bound_leftmost, k1_exact) and "
               "soundness hold for every pattern of the documented form",
               "the message is laid out as rtosc_amessage does (address and ',types' NUL-padded to a multiple of four); "
               "nothing is assumed about the buffer behind the padded type string (msg_total_all holds for rest = [])",
               "the model mirrors dispatch.c and ports.cpp with fixes/C05-colon-address.patch and "
               "fixes/C05-args-overread.patch applied"]
TRUSTED = ["hand-written model RtoscModel/Match/Path.lean of rtosc_match_number, rtosc_match_options, rtosc_match_path, "
           "rtosc_match_args, rtosc_match, rtosc_argument_string and RtoscModel/Match/Copies.lean of arg_matcher "
           "(unused in the library: dead code, compared only as long as it exists), Port_Matcher::rtosc_match_args",
           "glibc atoi = (int)strtol(s,0,10) with saturation at LONG_MAX (modelled as atoiU; the correspondence only "
           "exercises it below 2^31, where every correct decimal reader agrees)",
           "rtosc_match(_path) with path_end != NULL computes the same verdict as with NULL (the code only redirects "
           "path_end to a local; the model has one function for both, the harness calls both and the oracle checks both)",
           "message layout of rtosc_amessage for all-zero arguments (mkMsg/zeroArgSize, validated by the harness itself: it aborts on a size mismatch)"]
LEVEL_TEXT = ("Lean theorems over the model of dispatch.c: for every pattern of the documented form (Pat.WF0) and every "
              "C-string address / message, whatever digit runs it holds: rtosc_match_path and rtosc_match read nothing "
              "outside the pattern and the message (match_total_all, msg_total_all: also for a message in a buffer of "
              "exactly its size).  With the digit runs that stand at enumerations of the pattern below 2^31 "
              "(EnumIdxBounded) they are sound (match_sound_enum, msg_sound_enum: an accepted address spells the pattern "
              "with every index < N and ends where the pattern's path ends, an accepted type string equals or extends an "
              "alternative) and accept exactly the addresses / messages whose leftmost-alternative reading spells the "
              "pattern (match_iff_leftmost, msg_iff_leftmost: at each {} group the first alternative, in pattern order, "
              "that is a prefix of what is left of the address; the reading is unique: leftmost_unique), which states "
              "precisely what the code does on the K1 class (k1_exact) and gives the array-safety corollary for every "
              "pattern (enum_bound_leftmost: no index >= N behind the leftmost reading is accepted).  For patterns whose "
              "{} groups are prefix-free (Pat.WF) the leftmost reading is the only one (leftmost_iff_spec), hence "
              "completeness at full strength, without any hypothesis on digit runs: every address that spells the "
              "pattern is accepted (match_complete) and every message whose address spells the pattern and whose type "
              "string is one of the alternatives is accepted (msg_complete); rtosc_match_path accepts exactly the "
              "addresses the statement describes (match_iff_spec_enum), the type-string sandwich and the exact "
              "type-matcher behaviour (types_sandwich_enum, types_exact_enum), and no index >= N is accepted "
              "(enum_bound_strict_idx); equality of the three copies of the type matcher (copies_agree).  The model is "
              "compared with the compiled code (ASan/UBSan, exact-size buffers) on well over 100000 generated (pattern, "
              "message) pairs per run plus an exhaustive small scope, and the statement is evaluated directly on the "
              "implementation's verdicts by an independent oracle")
LEVEL_NOTE = ("partial with respect to the statement: in the statement's own terms (an address matches when SOME reading "
              "spells the pattern) completeness holds for prefix-free {} groups only (the unchanged code violates it "
              "otherwise: known finding C05-K1, match_complete_counterexample; what it does instead is proved exactly: "
              "match_iff_leftmost); soundness needs indices at enumerations below 2^31 (atoi wrap, "
              "match_sound_needs_enumIdx); the hand-written model is tied to the code by differential execution only; "
              "the documented form is this project's reading of doc/Guide.adoc ('?', '[', ']', upper case, ... are "
              "literal text); C04/C09/C14 still use the first-round theorems with the stronger IdxBounded hypothesis")
TECHNIQUE = "Lean 4 model + proofs; correspondence against ASan/UBSan build; independent spec oracle; exhaustive small scope"

ALPH = b"abc012/:#{,"
TAGS9 = [b"", b"i", b"f", b"ii", b"if", b"fi", b"s", b"[i]", b"iii"]


def hx(b):
    return b.hex() if b else "-"


def unhx(s):
    return b"" if s == "-" else bytes.fromhex(s)


# --------------------------------------------------------------------------------------
# structured patterns
# --------------------------------------------------------------------------------------
# pattern = (segs, sub, types); seg = ("L", bytes) | ("E", digit-bytes) | ("A", [bytes])
def render(p):
    segs, sub, types = p
    out = b""
    for k, v in segs:
        if k == "L":
            out += v
        elif k == "E":
            out += b"#" + v
        else:
            out += b"{" + b",".join(v) + b"}"
    if sub:
        out += b"/"
    if types is not None:
        for t in types:
            out += b":" + t
    return out


def tok(p):
    segs, sub, types = p
    ss = []
    for k, v in segs:
        if k == "A":
            ss.append("A" + ",".join(hx(a) for a in v))
        else:
            ss.append(k + hx(v))
    return "%s|%d|%s" % (";".join(ss), 1 if sub else 0, "N" if types is None else ",".join(hx(t) for t in types))


def untok(t):
    a, b, c = t.split("|")
    segs = []
    if a:
        for s in a.split(";"):
            if s[0] == "A":
                segs.append(("A", [unhx(x) for x in s[1:].split(",")]))
            else:
                segs.append((s[0], unhx(s[1:])))
    types = None if c == "N" else [unhx(x) for x in c.split(",")]
    return (segs, b == "1", types)


def isdig(c):
    return 48 <= c <= 57


def wf0(p):
    """Pat.wf0 of Match/Spec.lean, re-implemented."""
    segs, sub, types = p
    for i, (k, v) in enumerate(segs):
        if k == "L":
            if not v or any(c in b"\0#{*:" for c in v):
                return False
            if i > 0 and segs[i - 1][0] == "E" and isdig(v[0]):
                return False
            if i == len(segs) - 1 and not sub and v[-1:] == b"/":
                return False
        elif k == "E":
            if not v or not all(isdig(c) for c in v) or int(v) >= 2 ** 31:
                return False
        else:
            if not v or any(c in b"\0,}" for a in v for c in a):
                return False
    if types is not None:
        if not types or any(c in b"\0:" for t in types for c in t):
            return False
    return True


def has_prefix_alts(p):
    """trigger of C05-K1 (Pat.hasPrefixAlts)"""
    for k, v in p[0]:
        if k == "A":
            for a in v:
                for b in v:
                    if a != b and b.startswith(a):
                        return True
    return False


def idx_bounded(addr):
    i = 0
    n = len(addr)
    while i < n:
        if isdig(addr[i]):
            j = i
            while j < n and isdig(addr[j]):
                j += 1
            if int(addr[i:j]) >= 2 ** 31:
                return False
            i = j
        else:
            i += 1
    return True


# --------------------------------------------------------------------------------------
# the statement, evaluated directly (independent of the C code's structure and of the model)
# --------------------------------------------------------------------------------------
def spelled_ends(segs, addr):
    """all offsets at which the address can stand after spelling the segments in order"""
    pos = {0}
    for k, v in segs:
        nxt = set()
        for i in pos:
            if k == "L":
                if addr.startswith(v, i):
                    nxt.add(i + len(v))
            elif k == "E":
                j = i
                while j < len(addr) and isdig(addr[j]):
                    j += 1
                if j > i and int(addr[i:j]) < int(v):      # the whole digit run, strictly below N
                    nxt.add(j)
            else:
                for a in v:
                    if addr.startswith(a, i):
                        nxt.add(i + len(a))
        pos = nxt
        if not pos:
            break
    return pos


def path_spec(p, addr):
    segs, sub, _ = p
    ends = spelled_ends(segs, addr)
    if sub:
        return any(addr[i:i + 1] == b"/" for i in ends)
    return len(addr) in ends


def types_exact(p, tags):
    return p[2] is None or tags in p[2]


def types_loose(p, tags):
    return p[2] is None or any(tags.startswith(a) for a in p[2])


# --------------------------------------------------------------------------------------
# generator
# --------------------------------------------------------------------------------------
LOWER = b"abcxyz"
UPPER = b"ABCXYZ"
PUNCT = b"_.,}-"
# characters with a meaning in OSC-1.0 / shell patterns that the documented language takes literally
OSC_SPECIAL = b"?[]! ,}-"
OTHER = bytes(c for c in range(0x21, 0x7f) if c not in b"#{*:/0123456789" and not chr(c).isalnum()) + bytes([1, 0x7f, 0x80, 0xc3, 0xe9, 0xff])
ALT_OTHER = bytes(c for c in OTHER + OSC_SPECIAL if c not in b",}") + b"#{*:"
TAG_CH = b"ifsbTFhc"
TAG_ALL = b"ifsbTFhcdtSrmNI[]"
N_CHOICES = [0, 1, 2, 3, 9, 10, 12, 16, 100, 123, 128, 234, 1000, 65536, 999999999, 2 ** 31 - 1]


def lit_char(rng):
    """a character of literal text: mostly a small lower-case alphabet (so that derived addresses
    collide), its upper-case twin, punctuation, the OSC wildcard characters, any other byte but
    NUL # { * :"""
    r = rng.random()
    if r < 0.5:
        return rng.choice(LOWER)
    if r < 0.68:
        return rng.choice(UPPER)
    if r < 0.8:
        return rng.choice(PUNCT)
    if r < 0.92:
        return rng.choice(OSC_SPECIAL)
    return rng.choice(OTHER)


def alt_char(rng):
    r = rng.random()
    if r < 0.55:
        return rng.choice(LOWER)
    if r < 0.7:
        return rng.choice(UPPER)
    if r < 0.8:
        return rng.choice(b"/_-")
    if r < 0.87:
        return rng.choice(b"012")
    if r < 0.95:
        return rng.choice(b"?[]! ")
    return rng.choice(ALT_OTHER)


def swapcase(c):
    if 65 <= c <= 90 or 97 <= c <= 122:
        return c ^ 32
    return c


def rand_lit(rng, after_enum):
    n = rng.choice([1, 1, 2, 2, 3, 4, 6, 9])
    s = bytearray()
    for i in range(n):
        r = rng.random()
        if r < 0.15 and not (i == 0 and after_enum):
            s.append(rng.choice(b"0123456789"))
        elif r < 0.27:
            s.append(47)
        else:
            s.append(lit_char(rng))
    return bytes(s)


def rand_alts(rng, prefix_related):
    n = rng.choice([1, 2, 2, 3, 3, 4, 6, 9])
    out = []
    tries = 0
    while len(out) < n and tries < 80:
        tries += 1
        l = rng.choice([0, 1, 1, 2, 2, 3, 5]) if prefix_related else rng.choice([1, 1, 2, 2, 3, 4, 7])
        a = bytes(alt_char(rng) for _ in range(l))
        if not prefix_related and any(a.startswith(b) or b.startswith(a) for b in out):
            continue
        out.append(a)
    if prefix_related and len(out) >= 1 and rng.random() < 0.8:
        b = rng.choice(out)
        ext = b + bytes([rng.choice(LOWER + b"/_-")])
        out.insert(rng.randint(0, len(out)), ext)
    return out or [b"a"]


def rand_tags(rng, lo=0, hi=3):
    n = rng.randint(lo, hi)
    r = rng.random()
    if r < 0.6:
        return bytes(rng.choice(TAG_CH) for _ in range(n))
    if r < 0.85:
        # array brackets around / inside the type string
        t = bytearray(rng.choice(TAG_CH) for _ in range(max(1, n)))
        i = rng.randint(0, len(t))
        j = rng.randint(i, len(t))
        t.insert(j, 93)
        t.insert(i, 91)
        return bytes(t)
    if r < 0.97:
        return bytes(rng.choice(TAG_ALL) for _ in range(n))
    return bytes(rng.choice(b"x#/,? A") for _ in range(n))


def strip_brackets(t):
    return bytes(c for c in t if c not in b"[]")


def rand_pattern(rng, k1=False):
    nseg = rng.choice([0, 1, 1, 2, 2, 2, 3, 3, 4])
    segs = []
    for i in range(nseg):
        r = rng.random()
        after_enum = bool(segs) and segs[-1][0] == "E"
        if r < 0.45:
            segs.append(("L", rand_lit(rng, after_enum)))
        elif r < 0.75:
            n = rng.choice(N_CHOICES) if rng.random() < 0.8 else rng.randint(0, 300)
            ds = str(n).encode()
            if rng.random() < 0.15:
                ds = b"0" * rng.randint(1, 3) + ds
            segs.append(("E", ds))
        else:
            segs.append(("A", rand_alts(rng, k1)))
    sub = rng.random() < 0.4
    if segs and not sub and segs[-1][0] == "L" and segs[-1][1].endswith(b"/"):
        sub = True
        segs[-1] = ("L", segs[-1][1][:-1] or b"a")
    r = rng.random()
    if r < 0.35:
        types = None
    else:
        types = []
        for _ in range(rng.choice([1, 1, 2, 2, 3, 5, 8])):
            types.append(b"" if rng.random() < 0.15 else rand_tags(rng, 1, 3 if rng.random() < 0.9 else 12))
    return (segs, sub, types)


def fmt_index(rng, v):
    s = str(v).encode()
    r = rng.random()
    if r < 0.2:
        s = b"0" * rng.randint(1, 4) + s
    elif r < 0.25 and len(s) < 9:
        s = s.rjust(9, b"0")
    return s


def matching_address(rng, p, mode="ok"):
    """an address built piece by piece from the pattern; `mode` picks the index values"""
    segs, sub, _ = p
    out = b""
    for k, v in segs:
        if k == "L":
            out += v
        elif k == "E":
            n = int(v)
            if mode == "ok":
                val = rng.choice([0, n - 1, n // 2, rng.randint(0, max(0, n - 1))]) if n > 0 else 0
            elif mode == "N":
                val = n
            elif mode == "N+1":
                val = n + 1
            elif mode == "N-1":
                val = max(0, n - 1)
            elif mode == "9dig":
                val = rng.choice([999999999, 100000000, min(n, 999999999)])
            else:  # "big": beyond the statement's bound (correspondence only)
                val = rng.choice([2 ** 31, 2 ** 32, 2 ** 32 + max(0, n - 1), 2 ** 63, 10 ** 20, 2 ** 64 + 1])
            out += fmt_index(rng, max(0, val))
        else:
            out += rng.choice(v)
    if sub:
        out += b"/"
        if rng.random() < 0.6:
            out += bytes(rng.choice(b"abcA/1:#?[ ") for _ in range(rng.randint(1, 5)))
    return out


MUT_POOL = b"abcxyzABCXYZ/_012:,}#{?[]! *-." + bytes([0x80, 0xe9])


def mutate(rng, addr, kind):
    a = bytearray(addr)
    pool = MUT_POOL
    if kind == "append":
        a.append(rng.choice(pool))
    elif kind == "remove" and a:
        del a[rng.randrange(len(a))]
    elif kind == "change" and a:
        i = rng.randrange(len(a))
        c = rng.choice(pool)
        while c == a[i]:
            c = rng.choice(pool)
        a[i] = c
    elif kind == "insert":
        a.insert(rng.randint(0, len(a)), rng.choice(pool))
    elif kind == "truncate" and a:
        del a[rng.randrange(len(a)):]
    elif kind == "caseflip":
        # one letter in the other case (all of them with probability 1/4)
        pos = [i for i, c in enumerate(a) if swapcase(c) != c]
        if pos:
            for i in (pos if rng.random() < 0.25 else [rng.choice(pos)]):
                a[i] = swapcase(a[i])
    elif kind == "special":
        # a character that is a wildcard / range / negation in OSC-1.0 patterns is replaced by an
        # ordinary one ('?' must not stand for "any character", "[ab]" not for a class, …)
        pos = [i for i, c in enumerate(a) if c in b"?[]!*-,} "]
        if pos:
            i = rng.choice(pos)
            a[i] = rng.choice(b"abcxyzABC_1")
    elif kind == "slashtail":
        # the address goes on with a further component
        a += b"/" + bytes(rng.choice(b"abx1") for _ in range(rng.randint(0, 3)))
    return bytes(a)


def tag_choices(rng, p):
    types = p[2]
    out = [b"", rand_tags(rng, 1, 3)]
    if types:
        t = rng.choice(types)
        u = types[-1]
        out += [t, t + bytes([rng.choice(TAG_ALL)]), t[:-1], rng.choice(types), u, u + bytes([rng.choice(TAG_CH)])]
        if len(types) > 4:
            out.append(rng.choice(types[4:]))
        # array brackets added to / removed from a listed type string
        if t:
            i = rng.randint(0, len(t))
            j = rng.randint(i, len(t))
            out.append(t[:i] + b"[" + t[i:j] + b"]" + t[j:])
        if strip_brackets(t) != t:
            out.append(strip_brackets(t))
        if len(t) > 0:
            c = bytearray(t)
            c[rng.randrange(len(c))] = rng.choice(TAG_ALL)
            out.append(bytes(c))
    return out


MENU = [("L", b"a"), ("L", b"ab"), ("L", b"b/"), ("L", b"/a"), ("L", b"1"), ("L", b"c,"),
        ("E", b"1"), ("E", b"2"), ("E", b"10"), ("E", b"12"), ("E", b"02"),
        ("A", [b"a", b"b"]), ("A", [b"ab", b"c"]), ("A", [b"a/", b"b"]), ("A", [b"0", b"1"]), ("A", [b"c"])]
TYPE_MENU = [None, [b"i"], [b"", b"i"], [b"i", b"f"], [b"ii", b""], [b"i", b"if"], [b"s"], [b"f", b"i", b"T"],
             [b"T", b"F", b"s", b"fi", b"[i]", b"ii"]]


ALPH_B = b"abB0?2/:#{,"
_MAP_B = bytes.maketrans(b"c1", b"B?")


def variant_b(p):
    """the same small pattern with c -> B and 1 -> ? in literal text and alternatives (not in #N), to be
    enumerated over ALPH_B: upper case next to lower case, and '?' as ordinary text"""
    segs, sub, types = p
    return ([(k, v if k == "E" else ([a.translate(_MAP_B) for a in v] if k == "A" else v.translate(_MAP_B)))
             for k, v in segs], sub, types)


def small_patterns():
    """the systematically enumerated family: all segment lists of length 0..2 over MENU x trailing '/'
    (well-formed, prefix-free), type alternatives assigned round-robin"""
    out = []
    lists = [[]] + [[a] for a in MENU] + [[a, b] for a in MENU for b in MENU]
    k = 0
    for segs in lists:
        for sub in (False, True):
            p = (list(segs), sub, TYPE_MENU[k % len(TYPE_MENU)])
            k += 1
            if wf0(p) and not has_prefix_alts(p):
                out.append(p)
    return out


def generate(rng, tier, stats):
    quick = tier == "quick"
    n_pat = 10000 if quick else 40000
    stats.update({"M_wf": 0, "M_k1_patterns": 0, "U_malformed": 0, "U_idxbig": 0, "X": 0, "patterns": 0,
                  "seg_kinds": {"L": 0, "E": 0, "A": 0}, "sub": 0, "typed": 0,
                  "type_alternatives": {}, "alts_per_group": {}, "pattern_chars": {},
                  "addr_kinds": {}, "expect": {"must": 0, "must_not": 0, "free": 0, "unchecked": 0}})
    xs = small_patterns()
    if quick:
        xs = rng.sample(xs, 120)
        xlen = 3
    else:
        xlen = 5
    x_every = max(1, n_pat // max(1, len(xs)))
    xi = 0

    def emit_X(p, k):
        stats["X"] += 1
        al = ALPH
        if k % 4 == 3:
            p, al = variant_b(p), ALPH_B
            stats["X_variant_B"] = stats.get("X_variant_B", 0) + 1
        return "X %s %s %d %s %s" % (hx(render(p)), hx(al), xlen, ",".join(hx(t) for t in TAGS9), tok(p))

    def emit_M(p, addr, tags, kind):
        stats["addr_kinds"][kind] = stats["addr_kinds"].get(kind, 0) + 1
        stats["expect"][expectation(p, addr, tags)] += 1
        return "M %s %s %s %s %s" % (hx(render(p)), hx(addr), hx(tags), tok(p), kind)

    for i in range(n_pat):
        if i % x_every == 0 and xi < len(xs):
            yield emit_X(xs[xi], xi)
            xi += 1
        r = rng.random()
        if r < 0.04:
            # outside the documented form (unbalanced braces, '*', …): the property says nothing
            # about the verdict there; these only run (U lines: "the calls return", sanitizers on)
            s = bytes(rng.choice(b"ab#{},/:*12") for _ in range(rng.randint(0, 8)))
            stats["U_malformed"] += 1
            for _ in range(4):
                a = bytes(rng.choice(b"ab/:,12{}") for _ in range(rng.randint(0, 6)))
                if rng.random() < 0.5:
                    a = mutate(rng, s.split(b":")[0].replace(b"#", b"").replace(b"*", b"x"), rng.choice(["append", "remove", "change", "keep"]))
                stats["addr_kinds"]["malformed"] = stats["addr_kinds"].get("malformed", 0) + 1
                stats["expect"]["unchecked"] += 1
                yield "U %s %s %s ? malformed" % (hx(s), hx(a), hx(rand_tags(rng, 0, 2)))
            continue
        k1 = r < 0.12
        p = rand_pattern(rng, k1)
        if not wf0(p):
            continue
        stats["patterns"] += 1
        if has_prefix_alts(p):
            stats["M_k1_patterns"] += 1
        else:
            stats["M_wf"] += 1
        for k, v in p[0]:
            stats["seg_kinds"][k] += 1
            if k == "A":
                stats["alts_per_group"][min(len(v), 9)] = stats["alts_per_group"].get(min(len(v), 9), 0) + 1
        stats["sub"] += 1 if p[1] else 0
        stats["typed"] += 1 if p[2] is not None else 0
        if p[2] is not None:
            stats["type_alternatives"][len(p[2])] = stats["type_alternatives"].get(len(p[2]), 0) + 1
        rp = render(p)
        for name, cls in (("upper", UPPER), ("osc_special", b"?[]! "), ("high_bit", bytes(range(128, 256))), ("brackets_in_types", b"[]")):
            if any(c in cls for c in (rp if name != "brackets_in_types" else b"".join(p[2] or []))):
                stats["pattern_chars"][name] = stats["pattern_chars"].get(name, 0) + 1
        has_enum = any(k == "E" for k, _ in p[0])
        base = matching_address(rng, p)
        cases = [(base, "exact")]
        for kind in ("append", "remove", "change", "insert", "truncate", "caseflip", "special", "slashtail"):
            m = mutate(rng, matching_address(rng, p), kind)
            cases.append((m, kind))
        if has_enum:
            for mode in ("N-1", "N", "N+1", "9dig"):
                cases.append((matching_address(rng, p, mode), "idx" + mode))
            if rng.random() < 0.3:
                cases.append((matching_address(rng, p, "big"), "idxbig"))
        if p[2] is not None:
            # the address spells out the type part too (K2)
            cases.append((render((p[0], p[1], None)) .replace(b"#", b"") + b":" + p[2][0], "colon"))
            cases.append((matching_address(rng, (p[0], False, None)) + b":" + p[2][-1], "colon"))
        if p[1]:
            cases.append((matching_address(rng, (p[0], False, None)), "noslash"))
        for addr, kind in cases:
            tl = tag_choices(rng, p)
            for tags in ([rng.choice(tl)] if kind != "exact" else tl):
                if not idx_bounded(addr):
                    # an index beyond the statement's bound (atoi wraps there): U line
                    stats["addr_kinds"][kind] = stats["addr_kinds"].get(kind, 0) + 1
                    stats["expect"]["unchecked"] += 1
                    stats["U_idxbig"] += 1
                    yield "U %s %s %s ? %s" % (hx(render(p)), hx(addr), hx(tags), kind)
                else:
                    yield emit_M(p, addr, tags, kind)
    while xi < len(xs):
        yield emit_X(xs[xi], xi)
        xi += 1


def expectation(p, addr, tags):
    if not idx_bounded(addr) or b"\0" in addr or b"\0" in tags:
        return "unchecked"
    ps = path_spec(p, addr)
    if ps and types_exact(p, tags):
        return "must"
    if not (ps and types_loose(p, tags)):
        return "must_not"
    return "free"


def nontrivial(op):
    w = op.split()
    if w[0] == "X":
        return True
    if w[0] != "M":
        return False
    pat = unhx(w[1])
    return any(c in pat for c in b"#{/:")


# --------------------------------------------------------------------------------------
# oracle
# --------------------------------------------------------------------------------------
def mix(h, s):
    for c in s:
        h = (h * 1099511628211 + c + 1) & 0xFFFFFFFFFFFFFFFF
    return (h * 1099511628211 + 255) & 0xFFFFFFFFFFFFFFFF


def enum_matches(p, alph, maxlen):
    """all addresses over `alph` up to `maxlen` that the statement says match the path of p,
    produced generatively (pieces, then every continuation after a trailing '/'), then checked
    once more with path_spec; returned in the harness's enumeration order"""
    segs, sub, _ = p
    al = set(alph)
    digs = [c for c in alph if isdig(c)]
    fronts = {b""}
    for k, v in segs:
        nxt = set()
        for f in fronts:
            if k == "L":
                c = [v]
            elif k == "A":
                c = v
            else:
                c = []
                cur = [b""]
                for _ in range(maxlen - len(f)):
                    cur = [x + bytes([d]) for x in cur for d in digs]
                    c += [x for x in cur if int(x) < int(v)]
            for piece in c:
                g = f + piece
                if len(g) <= maxlen and all(ch in al for ch in piece):
                    nxt.add(g)
        fronts = nxt
    res = set()
    if sub:
        for f in fronts:
            g = f + b"/"
            if len(g) > maxlen or 47 not in al:
                continue
            conts = [b""]
            res.add(g)
            for _ in range(maxlen - len(g)):
                conts = [x + bytes([c]) for x in conts for c in alph]
                for x in conts:
                    res.add(g + x)
    else:
        res = fronts
    res = [a for a in res if path_spec(p, a)]
    order = {c: i for i, c in enumerate(alph)}
    res.sort(key=lambda a: (len(a), [order[c] for c in a]))
    return res


def oracle(op, out):
    """The statement, evaluated on what the implementation printed."""
    w = op.split()
    if out.startswith("crash") or out == "bad-op":
        return "implementation did not produce a result: " + out
    if w[0] == "U":
        return None if out == "U ok" else "unparsable output " + out
    if w[0] == "M":
        if w[4] == "?":
            return None
        p = untok(w[4])
        addr, tags = unhx(w[2]), unhx(w[3])
        if not wf0(p) or b"\0" in addr or b"\0" in tags or not idx_bounded(addr):
            return None
        o = out.split()
        if len(o) != 12 or (o[0], o[2], o[4], o[6], o[8], o[10]) != ("P", "M", "A", "B", "Pe", "Me"):
            return "unparsable output " + out
        ps = path_spec(p, addr)
        for name, v in (("rtosc_match_path(pattern, address, NULL)", o[1]),
                        ("rtosc_match_path(pattern, address, &path_end)", o[9])):
            if v not in ("1", "NULL"):
                return "%s gave no result" % name
            got_p = v != "NULL"
            if got_p != ps:
                return ("%s %s the address although the statement says it %s" %
                        (name, "accepts" if got_p else "rejects", "does not match" if not ps else "matches"))
        for name, v in (("rtosc_match(pattern, message, NULL)", o[3]),
                        ("rtosc_match(pattern, message, &path_end)", o[11])):
            if v not in ("0", "1"):
                return "%s gave no result" % name
            got_m = v == "1"
            if ps and types_exact(p, tags) and not got_m:
                return "%s rejects a message whose address spells the pattern and whose type string is listed" % name
            if got_m and not (ps and types_loose(p, tags)):
                return "%s accepts a message that %s" % (name,
                    "does not spell the pattern" if not ps else "has a type string that is neither equal to nor an extension of an alternative")
        # the two copies in ports.cpp get the text behind the first ':' of the pattern string; that is the
        # type part unless a {} alternative contains a ':' itself.  `x`: the copy no longer exists.
        if p[2] is not None and b":" not in render((p[0], p[1], None)):
            for name, v in (("arg_matcher", o[5]), ("Port_Matcher::rtosc_match_args", o[7])):
                if v == "x":
                    continue
                if v not in ("0", "1"):
                    return "%s gave no result" % name
                if tags in p[2] and v != "1":
                    return "%s rejects a listed type string" % name
                if v == "1" and not any(tags.startswith(a) for a in p[2]):
                    return "%s accepts a type string that is neither equal to nor an extension of an alternative" % name
        return None
    if w[0] == "X":
        p = untok(w[5])
        if not wf0(p) or has_prefix_alts(p):
            return None
        alph, maxlen = unhx(w[2]), int(w[3])
        tagv = [unhx(t) for t in w[4].split(",")]
        ms = enum_matches(p, alph, maxlen)
        h = 0
        for a in ms:
            h = mix(h, a)
        o = out.split()
        if len(o) != 3 + len(tagv) or o[0] != "X":
            return "unparsable output " + out
        if (int(o[1]), int(o[2])) != (len(ms), h):
            return "rtosc_match_path accepts %s addresses (hash %s) of the scope, the statement %d (hash %d)" % (o[1], o[2], len(ms), h)
        for t, f in zip(tagv, o[3:]):
            c, hh = f.split(":")
            if types_exact(p, t):
                if (int(c), int(hh)) != (len(ms), h):
                    return "rtosc_match with listed type string %r accepts %s addresses, the statement %d" % (t, c, len(ms))
            elif not types_loose(p, t):
                if int(c) != 0:
                    return "rtosc_match accepts %s messages with type string %r, which no alternative admits" % (c, t)
        return None
    return None


# --------------------------------------------------------------------------------------
# known finding C05-K1
# --------------------------------------------------------------------------------------
_trigger_cache = {}


def lean_trigger(token):
    """Pat.hasPrefixAlts evaluated by the compiled Lean definitions (driver op W)."""
    if token in _trigger_cache:
        return _trigger_cache[token]
    import vlib
    try:
        r = subprocess.run([vlib.driver_path(ENGINE)], input="W %s\n" % token, stdout=subprocess.PIPE,
                           stderr=subprocess.PIPE, text=True, timeout=30)
        o = r.stdout.split()
        res = len(o) >= 3 and o[0] == "W" and o[1] == "1" and o[2] == "0"
    except Exception:
        res = False
    _trigger_cache[token] = res
    return res


def known(op, impl_out, model_out, defs):
    """C05-K1 only: the pattern satisfies the trigger (as computed by the Lean predicate and by this
    module), the statement says the address matches, the code says it does not, and that is exactly
    what the defect-mirroring model predicts."""
    if not any(d.get("id") == "C05-K1" for d in defs):
        return None
    w = op.split()
    if w[0] != "M" or w[4] == "?":
        return None
    if model_out is not None and impl_out != model_out:
        return None
    p = untok(w[4])
    if not (wf0(p) and has_prefix_alts(p) and lean_trigger(w[4])):
        return None
    addr, tags = unhx(w[2]), unhx(w[3])
    o = impl_out.split()
    if len(o) != 12:
        return None
    if path_spec(p, addr) and (o[1], o[3], o[9], o[11]) == ("NULL", "0", "NULL", "0"):
        # every other part of the statement must still hold on this output
        if p[2] is not None and b":" not in render((p[0], p[1], None)):
            for v in (o[5], o[7]):
                if v == "x":
                    continue
                if (tags in p[2] and v != "1") or (v == "1" and not any(tags.startswith(a) for a in p[2])):
                    return None
        return "C05-K1"
    return None


def neighbours(op, rng):
    w = op.split()
    if w[0] != "M":
        return
    addr, tags = unhx(w[2]), unhx(w[3])
    rest = " ".join(w[4:])
    seen = set()
    for i in range(len(addr) + 1):
        for a in (addr[:i] + addr[i + 1:], addr[:i] + b"a" + addr[i:], addr[:i] + b"1" + addr[i:], addr[:i] + b"/" + addr[i:],
                  addr[:i] + bytes(swapcase(c) for c in addr[i:i + 1]) + addr[i + 1:], addr[:i] + b"a" + addr[i + 1:]):
            for t in (tags, b"", tags[:-1], tags + b"i"):
                k = (a, t)
                if k not in seen:
                    seen.add(k)
                    yield "M %s %s %s %s" % (w[1], hx(a), hx(t), rest)


# --------------------------------------------------------------------------------------
# runner
# --------------------------------------------------------------------------------------
_impl_seen = {}


def _run_harness(exe, ops, workdir, tag, extra_args=()):
    """vlib.run_harness, remembering the implementation's lines of this batch (see _mask)."""
    outs = _orig_run_harness(exe, ops, workdir, tag, extra_args)
    _impl_seen[tag] = outs
    return outs


MASKED = {"removed_copy": 0, "k1_pattern_statement_holds": 0, "type_extension_either_verdict": 0}


def _mask(model_line, impl_line, op):
    """Where the comparison with the model would demand more than the property says:
    * a copy of the type matcher that no longer exists in ports.cpp (the harness prints `x` for it) is
      not compared: the property is about rtosc_match / rtosc_match_path;
    * (see below) a type string that extends an alternative without being one: the statement allows both verdicts;
    * a pattern with the trigger of finding C05-K1 (a {} alternative that is a proper prefix of another):
      the model mirrors the code's first-prefix-wins behaviour, which the statement does NOT ask for; the
      theorems claim only soundness there (match_sound / msg_sound hold for every documented pattern,
      completeness excludes the trigger).  If what the implementation printed satisfies the statement
      (oracle passes) the line is accepted whatever the defect-mirroring model says, so that a repair of
      K1 is not reported as a violation.  Anything that fails the oracle still goes through known()."""
    a, b = impl_line.split(), model_line.split()
    if a and b and a[0] == "X" and b[0] == "X" and len(a) == len(b) and a != b:
        w = op.split()
        p = untok(w[5])
        tagv = [unhx(t) for t in w[4].split(",")]
        if wf0(p) and len(a) == 3 + len(tagv) and oracle(op, impl_line) is None:
            for j, t in enumerate(tagv):
                if not types_exact(p, t) and types_loose(p, t) and a[3 + j] != b[3 + j]:
                    b[3 + j] = a[3 + j]
                    MASKED["type_extension_either_verdict"] += 1
            return " ".join(b)
        return model_line
    if len(a) != 12 or len(b) != 12 or a[0] != "P":
        return model_line
    if "x" in (a[5], a[7]):
        for k in (5, 7):
            if a[k] == "x" and b[k] != "x":
                b[k] = "x"
                MASKED["removed_copy"] += 1
    if a != b:
        w = op.split()
        if w[0] == "M" and len(w) > 4 and w[4] != "?":
            p = untok(w[4])
            if wf0(p) and has_prefix_alts(p) and oracle(op, impl_line) is None:
                MASKED["k1_pattern_statement_holds"] += 1
                return impl_line
            # the statement leaves the verdict open for a type string that extends an alternative without
            # being one (the code accepts an extension of the LAST alternative only: theorem types_exact,
            # which describes the code, not the property): either verdict is accepted there
            if (wf0(p) and expectation(p, unhx(w[2]), unhx(w[3])) == "free" and (a[1], a[9]) == (b[1], b[9])
                    and oracle(op, impl_line) is None):
                MASKED["type_extension_either_verdict"] += 1
                return impl_line
    return " ".join(b)


def _run_driver(engine, ops, workdir, tag, nproc=1):
    res = _run_driver_raw(engine, ops, workdir, tag, nproc)
    impl = _impl_seen.pop(tag, None)
    if impl is not None and len(impl) == len(res):
        res = [_mask(m, i, o) for m, i, o in zip(res, impl, ops)]
        if any(MASKED.values()):
            import vlib
            vlib.log("C05: comparison relaxed on %s" % MASKED)
    return res


def _run_driver_raw(engine, ops, workdir, tag, nproc=1):
    import vlib
    exe = vlib.driver_path(engine)
    if nproc <= 1 or len(ops) < 2000:
        nproc = 1
    per = (len(ops) + nproc - 1) // nproc if ops else 1
    procs = []
    for i in range(0, len(ops), per):
        part = ops[i:i + per]
        fn = os.path.join(workdir, "%s.drv.%d" % (tag, i))
        with open(fn, "w") as f:
            f.write("\n".join(part) + "\n")
        fo = open(fn + ".out", "w")
        procs.append((fn, len(part), fo, subprocess.Popen([exe], stdin=open(fn), stdout=fo, stderr=subprocess.PIPE, text=True)))
    res = []
    for fn, n, fo, p in procs:
        _, err = p.communicate()
        fo.close()
        got = open(fn + ".out").read().split("\n")
        os.remove(fn)
        os.remove(fn + ".out")
        if p.returncode != 0:
            raise RuntimeError("driver failed: " + err[-2000:])
        if got and got[-1] == "":
            got.pop()
        if len(got) != n:
            raise RuntimeError("driver printed %d lines for %d ops" % (len(got), n))
        res.extend(got)
    return res


def main(argv):
    import sys
    import vlib
    global _orig_run_harness
    if vlib.run_harness is not _run_harness:
        _orig_run_harness = vlib.run_harness
        vlib.run_harness = _run_harness
    vlib.run_driver = _run_driver
    return vlib.main(sys.modules[__name__], argv)
