"""C12, text level: compares the Lean text model (lean/RtoscModel/Save/Text.lean: save_to_file / load_from_file
composed from C10's printer / checker / scanner models) with the compiled library.  SUPERSEDED by c12.text_level,
which runs this comparison inside tools/check.py C12 in both tiers with the compiled load_from_file as the oracle of
the load stage.  This stand-alone script is kept as a debugging aid only: its load oracle is the older, weaker one
("restored, or the file holds +infinity") and reports files with NaN (C12-K9) or mixed option arrays (C12-K10) as
NOT RESTORED although the compiled library rejects them as well.

    python3 tools/props/c12_textcheck.py [seed=7] [cases=600]

For states of the generated applications: (1) the text save_to_file returns (harness mode `txt`) must equal
App.saveText byte for byte; (2) App.loadText of that text into a fresh instance must restore the saved state,
except for files holding +infinity (C12-K9: `R neg`).  Exit status 0 iff both hold."""
import collections
import os
import random
import re
import subprocess
import sys
import tempfile

sys.path.insert(0, os.path.dirname(os.path.dirname(os.path.abspath(__file__))))
import vlib  # noqa: E402
from props import c12  # noqa: E402


def main():
    seed = int(sys.argv[1]) if len(sys.argv) > 1 else 7
    cases = int(sys.argv[2]) if len(sys.argv) > 2 else 600
    rng = random.Random(seed)
    ops = []
    for op in c12.generate(rng, "quick", collections.defaultdict(lambda: collections.defaultdict(int))):
        w = op.split(" ")
        if w[0] != "sl":
            continue
        w[0] = "txt"
        ops.append(" ".join(w))
        if len(ops) >= cases:
            break
    exe = vlib.build_harness("save", c12.HARNESS)
    cm = open(os.path.join(vlib.REPO, "CMakeLists.txt")).read()
    ver = ".".join(re.search(r"set\(VERSION_%s (\d+)\)" % k, cm).group(1) for k in ("MAJOR", "MINOR", "PATCH"))
    with tempfile.TemporaryDirectory(prefix="c12text-") as wd:
        impl = vlib.run_harness(exe, ops, wd, "c12text")
        opf = os.path.join(wd, "ops.txt")
        with open(opf, "w") as f:
            f.write("\n".join(ops) + "\n")
        p = subprocess.run(["lake", "env", "lean", "--run", "Driver/SaveTextCheck.lean", opf, ver],
                           cwd=os.path.join(vlib.VERIF, "lean"), stdout=subprocess.PIPE, stderr=subprocess.PIPE, text=True)
        if p.returncode != 0:
            print(p.stderr[-3000:])
            return 2
        model = p.stdout.split("\n")[:len(ops)]
    same = restored = posinf = bad = 0
    for op, a, b in zip(ops, impl, model):
        parts = b.split(" | ")
        if len(parts) != 3 or parts[0] != a:
            bad += 1
            print("TEXT DIFFERS:", op[:200], "\n  impl ", a[:200], "\n  model", parts[0][:200])
            continue
        same += 1
        load, saved = parts[1], parts[2][2:]
        if " F " in load and load.split(" F ", 1)[1] == saved:
            restored += 1
        elif load == "R neg" and b" inf (inf)" in bytes.fromhex(a[4:]):
            posinf += 1
        else:
            bad += 1
            print("NOT RESTORED:", op[:200], "\n  ", load[:200])
    print("C12 text model: %d cases, %d texts byte-identical, %d restored by App.loadText, %d rejected for +infinity "
          "(C12-K9), %d failures" % (len(ops), same, restored, posinf, bad))
    return 0 if bad == 0 and same == len(ops) else 1


if __name__ == "__main__":
    sys.exit(main())
