"""C03 — Realtime safety: the message path never allocates and never locks.

Own flow (tools/check.py calls main(argv)):
  1. tools/callgraph.py regenerates lean/RtoscModel/CallGraph/Generated.lean (configuration `min`: c++11 -O1) and
     Generated17.lean (configuration `shipped`: language level / optimisation / defines of CMakeLists.txt) from the
     LLVM IR of the working tree (+ harness/rt_entries.cpp) and computes one reachable-set certificate per graph.
  2. lake build RtoscModel.Props.C03: the kernel re-checks the per-run theorems by evaluation
     (`decide +kernel`) over the generated data of BOTH graphs; textual audit; #print axioms.
  3. The dynamic engine `rt` (harness/rt.cpp, built WITHOUT ASan, allocator and mutex functions
     interposed) runs generated ops inside a marked realtime section — once linked with the library compiled at
     c++11 -O1, once with the library compiled by gcc the way CMakeLists.txt does (gnu++17 -O3), and once more against
     <tree>/_build/librtosc*.a when an up-to-date CMake build of the tree exists.  Every output line must report
     hits=0, no exception, no blocked operation; a crash or hang inside the realtime section is a failure too.
  4. A failed obligation prints the shortest offending call path into the replay and the dynamic
     engine is driven towards the entry that path starts from; a concrete allocating op line is the
     failing input, otherwise `no-failing-input-found`.
"""
import hashlib
import json
import os
import random
import re
import struct
import sys
import time

sys.path.insert(0, os.path.dirname(os.path.dirname(os.path.abspath(__file__))))
import vlib       # noqa: E402
import callgraph  # noqa: E402

PROP = "C03"
ENGINE = "rt"
FLAVOUR = "plain"
LEAN_MODULES = ["RtoscModel.Props.C03"]
_PER_GRAPH = ["cert_closed", "cert_contains_entries", "cert_avoids_forbidden", "cert_externals_whitelisted",
              "whitelist_not_forbidden", "api_entries_pinned", "forbidden_names_pinned", "safe"]
THEOREMS = (["Rtosc.CallGraph.closed_contains_reachable", "Rtosc.CallGraph.Graph.safe_of_cert"] +
            ["Rtosc.CallGraph.min_" + t for t in _PER_GRAPH] + ["Rtosc.CallGraph.shipped_" + t for t in _PER_GRAPH] +
            ["Rtosc.CallGraph.rt_path_never_allocates_or_locks"])
HARNESS = {"src": ["rt.cpp", "rt_entries.cpp"], "deps": ["common.h", "rt_tree.h", "rt_entries.h"], "libs": ["-ldl"]}
RULE = ("dynamic side: op lines for the engine `rt` (allocator/mutex interposed, counted inside the realtime section only; run "
        "against the library compiled at c++11 -O1 AND compiled by gcc with the language level / optimisation of CMakeLists.txt): "
        "build/measure/read of generated messages over every type tag incl. oversized and too-small buffers (rtosc_amessage, "
        "rtosc_vmessage via a crafted va_list, literal rtosc_message call sites), raw messages, bundles incl. nested, "
        "rtosc_match/rtosc_match_path over generated patterns, Ports::dispatch on the sugar tree (every callback macro of "
        "port-sugar.h, rRecur/rRecurp/rRecurs/rRecursp nesting, NULL sub-object) and on generated trees (hashed tables, "
        "hash-failing tables, enumerated #N tables, nested sub-trees, default handler, heap-stored functor callbacks) with "
        "matching / non-matching / oversized messages, with and without location buffer, base and application RtData; default "
        "reply/broadcast forwarding; ThreadLink write/writeArray/raw_write/hasNext/read/lookahead histories over small rings "
        "(wrap-around, full ring, oversized message, and operations interrupted in the middle by a fault whose handler operates "
        "on the same link: an operation that waits for a lock never returns). A case fails when it counts an allocator / mutex "
        "call, lets an exception escape, blocks, crashes or hangs inside the realtime section, or when a table built with the "
        "library's own macros holds an empty callback. A case is non-trivial when it carries a payload (>= 1 argument / element / "
        "ring operation pair / a dispatch whose address has >= 1 path component); distinct = distinct op line")
ASSUMPTIONS = [
    "the call graphs are extracted from clang-14 LLVM IR in two configurations: `min` = -std=c++11/-std=gnu99 -O1 -DNDEBUG (lowest language level the headers support) and `shipped` = language level, optimisation level and definitions read from CMakeLists.txt (CMAKE_CXX_STANDARD 17 with extensions = -std=gnu++17, the rtosc target's -std=c99, default build type Release = -O3 -DNDEBUG); the certificate must hold for both",
    "compiler difference: the library is shipped compiled by gcc, which emits no LLVM IR; the graphs are clang's view of the same sources (code under `#if defined(__GNUC__) && !defined(__clang__)`, and gcc-specific inlining / libstdc++ code paths chosen by gcc builtins, are seen only by the dynamic engine, which is built with g++ in both configurations)",
    "each graph is that of an optimised build: an allocation the optimiser removes (an unused malloc/free pair) is not an edge",
    "hypothesis of the theorem (Graph.Safe, `hgraph`): every call that can happen at run time is an edge of the extracted graph or one of the listed excluded edges; for indirect calls this means: a virtual call reaches the functions in the same vtable slot of the receiver's static class and the classes derived from it, restricted to classes instantiated by code reachable from the realtime entries, by the support functions of harness/rt_entries.cpp (rtosc::RtData and the application-style rtt::CapData stand for the objects an application passes in) or by a static initialiser; any other indirect call reaches exactly the address-taken functions of the same function type (pointer types erased)",
    "hypothesis of the theorem (Graph.Safe, `hpre`; the edges are listed in excludedEdges of the generated modules): no empty std::function is invoked (edge to std::__throw_bad_function_call) - checked by the dynamic engine for every port of the tables built with the library's own macros (`emptycb`), assumed for application tables; assertions are compiled out (__assert_fail; NDEBUG as in the default build); no exception unwinds on the realtime path (calls in landing pads / catch handlers; everything that can throw is in the forbidden set and the dynamic engine reports any exception that leaves the realtime section)",
    "application callbacks are represented by the callbacks of harness/rt_tree.h (every port-sugar.h callback macro) and an application RtData that copies replies into a fixed buffer; port tables defined in the library's other translation units (e.g. MidiMapperRT::ports) are not analysed",
    "external leaves on the whitelist (see coverage.whitelist_reached) neither allocate, lock nor throw; this is assumed of libc, not proved (the dynamic engine observes no allocator call from them)",
    "`never locks` is checked as: no mutex / rwlock / condition / once / guard function is reachable, no function on the path contains an atomic read-modify-write instruction (atomicrmw, cmpxchg) in a basic block that lies on a control-flow cycle (what a spin/ticket lock without a callee, or a retry loop, is made of; plain atomic loads and stores, and read-modify-writes outside of loops such as counters, are allowed), and dynamically no operation blocks when it is started while another operation on the same ThreadLink is suspended; a wait loop built from plain atomic loads/stores only would not be seen by the graph",
    "not covered: page faults, lazy PLT binding, allocation inside whitelisted libc functions under unusual locales",
]
TRUSTED = ["tools/callgraph.py (textual LLVM IR extraction, CMakeLists.txt flag extraction, classification lists FORBIDDEN/WHITELIST), clang 14 IR emission, llvm-link",
           "the dynamic engine harness/rt.cpp (symbol interposition of the allocator and pthread mutex functions)"]
LEVEL_TEXT = ("proof over a regenerated call graph; partial. Lean theorem rt_path_never_allocates_or_locks: for the call graph "
              "regenerated on every run from the working tree's LLVM IR in each of two build configurations (c++11 -O1, and "
              "gnu++17/c99 -O3 as CMakeLists.txt builds the library), under the two explicit hypotheses that the graph "
              "over-approximates the calls that can happen and that the listed excluded edges (empty std::function, assert, "
              "unwinding) are never executed: no call path of any length from a realtime entry point reaches an allocator, "
              "deallocator, mutex, exception-allocation or stdio function or a function containing an atomic read-modify-write "
              "instruction inside a loop, and every external it reaches is a whitelisted leaf; the public realtime API functions are pinned by "
              "name to be entries and the allocator/lock names to be forbidden; generic induction proved once, per-run "
              "obligations checked by kernel evaluation of a reachable-set certificate; the graph's indirect-call resolution "
              "and the excluded edges are validated by executing thousands of generated realtime operations with the allocator "
              "and mutex functions interposed, against the library built in both configurations with gcc")
LEVEL_NOTE = ("partial with respect to the property: the proof is about the extracted call graphs (a model regenerated from the "
              "code, sound only up to the stated indirect-call resolution, the excluded edges and the whitelist of libc leaves), "
              "not about the machine code gcc ships; the dynamic side is evidence, not proof")
TECHNIQUE = "Lean 4 kernel-checked reachability certificates over call graphs generated from LLVM IR (two build configurations) + allocator/mutex interposition run"

PAYLOAD = "ifhdtsSbmcr"


# ---------------------------------------------------------------------------------------
# OSC encoding (for raw messages handed to the harness)
# ---------------------------------------------------------------------------------------
def pad4(b):
    return b + b"\0" * (4 - len(b) % 4)


def enc_arg(t, v):
    if t in "icr":
        return struct.pack(">i", v)
    if t == "f":
        return struct.pack(">I", v)
    if t in "ht":
        return struct.pack(">Q", v & 0xffffffffffffffff)
    if t == "d":
        return struct.pack(">Q", v)
    if t in "sS":
        return pad4(v)
    if t == "b":
        return struct.pack(">i", len(v)) + v + b"\0" * ((4 - len(v) % 4) % 4)
    if t == "m":
        return v
    return b""


def osc(addr, types, vals):
    out = pad4(addr) + pad4(b"," + types.encode())
    k = 0
    for t in types:
        if t in PAYLOAD:
            out += enc_arg(t, vals[k])
            k += 1
    return out


def bundle(tt, elems):
    out = b"#bundle\0" + struct.pack(">Q", tt)
    for e in elems:
        out += struct.pack(">I", len(e)) + e
    return out


def hx(b):
    return b.hex() if b else "-"


def arg_token(t, v):
    if t in "icr":
        return "%s:%d" % (t, v)
    if t == "f":
        return "f:%08x" % v
    if t in "ht":
        return "%s:%d" % (t, v & 0xffffffffffffffff)
    if t == "d":
        return "d:%016x" % v
    if t in "sSb":
        return "%s:%s" % (t, hx(v))
    if t == "m":
        return "m:" + v.hex()
    raise ValueError(t)


def args_token(types, vals):
    items = []
    k = 0
    for t in types:
        if t in PAYLOAD:
            items.append(arg_token(t, vals[k]))
            k += 1
    return ",".join(items) if items else "-"


# ---------------------------------------------------------------------------------------
# value generators
# ---------------------------------------------------------------------------------------
I32 = [0, 1, -1, 2, 63, 64, 127, 128, 255, 1000, -1000, 2 ** 31 - 1, -2 ** 31, 65536]
F32 = [0x00000000, 0x80000000, 0x3f800000, 0xbf800000, 0x7f800000, 0xff800000, 0x7fc00000, 0x00000001, 0x42c80000,
       0x3f000000, 0x461c4000, 0x7f7fffff]
F64 = [0, 0x8000000000000000, 0x3ff0000000000000, 0x7ff0000000000000, 0x7ff8000000000000, 1, 0x4059000000000000]
I64 = [0, 1, 2 ** 63 - 1, 2 ** 63, 2 ** 64 - 1, 2 ** 32, 1234567890123]
ALNUM = b"abcdefghijklmnopqrstuvwxyz0123456789_-."
LIT_SIGS = ["", "i", "f", "s", "b", "h", "d", "t", "c", "m", "S", "r", "T", "F", "N", "I",
            "ifs", "sbi", "[if]s", "TiFd", "hdtm", "ss", "iiii", "bb", "cSr"]
ALL_TAGS = "ifhdtsSbmcrTFNI"


def rstr(rng, lo, hi, alph=ALNUM):
    return bytes(rng.choice(alph) for _ in range(rng.randint(lo, hi)))


def rval(rng, t, big=False):
    if t in "icr":
        return rng.choice(I32) if rng.random() < 0.5 else rng.randint(-2 ** 31, 2 ** 31 - 1)
    if t == "f":
        return rng.choice(F32) if rng.random() < 0.5 else rng.getrandbits(32)
    if t in "ht":
        return rng.choice(I64) if rng.random() < 0.5 else rng.getrandbits(64)
    if t == "d":
        return rng.choice(F64) if rng.random() < 0.5 else rng.getrandbits(64)
    if t in "sS":
        if big:
            return rstr(rng, 9000, 20000)
        return rstr(rng, 0, 3) if rng.random() < 0.3 else rstr(rng, 0, 40)
    if t == "b":
        if big:
            return bytes(rng.getrandbits(8) for _ in range(rng.randint(9000, 20000)))
        return bytes(rng.getrandbits(8) for _ in range(rng.choice([0, 1, 2, 3, 4, 5, 7, 8, 33])))
    if t == "m":
        return bytes(rng.getrandbits(8) for _ in range(4))
    raise ValueError(t)


def rtypes(rng, maxn=8):
    r = rng.random()
    if r < 0.1:
        return ""
    if r < 0.3:
        return rng.choice(ALL_TAGS)
    n = rng.randint(1, maxn)
    s = "".join(rng.choice(ALL_TAGS) for _ in range(n))
    if rng.random() < 0.15:  # array brackets
        i = rng.randint(0, len(s))
        j = rng.randint(i, len(s))
        s = s[:i] + "[" + s[i:j] + "]" + s[j:]
    return s


def rvals(rng, types, big=False):
    pl = [t for t in types if t in PAYLOAD]
    bigi = rng.randrange(len(pl)) if (big and pl) else -1
    return [rval(rng, t, big=(i == bigi and t in "sSb")) for i, t in enumerate(pl)]


def raddr(rng):
    n = rng.choice([1, 1, 2, 3])
    return b"/" + b"/".join(rstr(rng, 1, rng.choice([1, 3, 7, 8, 20])) for _ in range(n))


# ---------------------------------------------------------------------------------------
# the sugar tree (mirror of harness/rt_tree.h: path -> accepted argument type strings)
# ---------------------------------------------------------------------------------------
LEAF_PORTS = [("pc", ["", "c"]), ("pf", ["", "f"]), ("pi", ["", "i"]), ("pt", ["", "T", "F"]), ("po", ["", "i", "c", "S"]),
              ("name", ["", "s"]), ("self", [""]), ("nothing", None)]
MID_PORTS = [("vol", ["", "c"]), ("freq", ["", "f"]), ("cross", ["", "f"]), ("count", ["", "i"]), ("on", ["", "T", "F"]),
             ("mode", ["", "i", "c", "S"]), ("cmode", ["", "i", "c", "S"]), ("af#4", ["", "f"]), ("at#4", ["", "T", "F"]),
             ("ai#4", ["", "i"]), ("ao#4", ["", "i", "c", "S"]), ("am#4", ["", "T", "F"]), ("ps#4", ["", "i"]), ("ps", [""]),
             ("str", ["", "s"]), ("act", [""]), ("acti", ["i"]), ("is_on", [""]), ("xfreq", ["f"]), ("big", ["", "i"]), ("sub", [""]), ("self", [""])]
ROOT_PORTS = [("level", ["", "i"]), ("gate", ["", "T", "F"]), ("mid", [""]), ("self", [""])]
OPTION_SYMS = {"po": [b"sine", b"saw", b"square"], "mode": [b"red", b"blue", b"green", b"teal"], "cmode": [b"lo", b"mid", b"hi"],
               "ao#4": [b"x", b"y", b"z"]}
MID_PREFIX = ["mid/", "midp/", "mids0/", "mids1/", "mids#2/"]
LEAF_PREFIX = ["sub/", "subp/", "subs0/", "subs1/", "subs2/", "subsp0/", "subsp1/", "subsp2/", "subs#3/"]


def inst_name(rng, name, stats=None):
    """`af#4` -> `af2` (or an out-of-range / malformed index now and then)"""
    if "#" not in name:
        return name
    base, n = name.split("#")
    n = int(n.rstrip("/"))
    slash = "/" if name.endswith("/") else ""
    r = rng.random()
    if r < 0.85:
        return "%s%d%s" % (base, rng.randrange(n), slash)
    if r < 0.95:
        return "%s%d%s" % (base, n + rng.randrange(3), slash)
    return base + slash


def sugar_message(rng, stats):
    level = rng.choice(["root", "mid", "mid", "leaf", "leaf", "leaf"])
    if level == "root":
        path = ""
        name, tys = rng.choice(ROOT_PORTS)
    elif level == "mid":
        path = inst_name(rng, rng.choice(MID_PREFIX))
        name, tys = rng.choice(MID_PORTS)
    else:
        path = inst_name(rng, rng.choice(MID_PREFIX)) + inst_name(rng, rng.choice(LEAF_PREFIX))
        name, tys = rng.choice(LEAF_PORTS)
    pname = inst_name(rng, name)
    mode = rng.random()
    big = False
    if tys is None:
        types = rtypes(rng, 3)
    elif mode < 0.6:
        types = rng.choice(tys)
        kind = "matching"
    elif mode < 0.8:
        types = rtypes(rng, 4)         # mostly a type mismatch: the port must not match
    elif mode < 0.9:
        types = rng.choice([t for t in tys if t] or [""]) + rng.choice(["s", "b"])  # trailing oversized argument: no match
        big = True
    else:
        types = rng.choice(tys)
        pname = pname + rng.choice(["x", "", "/", "0"]) if rng.random() < 0.7 else pname[:-1]
    vals = rvals(rng, types, big=big)
    if name in OPTION_SYMS and types == "S" and rng.random() < 0.8:
        vals = [rng.choice(OPTION_SYMS[name])]
    if name in ("name", "str") and types == "s" and rng.random() < 0.3:
        vals = [rstr(rng, 9000, 20000)]
        big = True
    stats["sugar_level_" + level] = stats.get("sugar_level_" + level, 0) + 1
    if big:
        stats["oversized_messages"] = stats.get("oversized_messages", 0) + 1
    return (path + pname).encode(), types, vals


# ---------------------------------------------------------------------------------------
# generated trees
# ---------------------------------------------------------------------------------------
class GT:
    def __init__(self):
        self.ports = []      # (name bytes, kind, sub GT or None)
        self.default = None

    def spec(self):
        s = ("*" + self.default) if self.default else ""
        s += "(" + ",".join(n.hex() + "." + k + (sub.spec() if sub else "") for n, k, sub in self.ports) + ")"
        return s


NAME_ALPH = b"abcdxyz01_"
ARGSPECS = [b"", b"", b"", b":i", b"::f", b":s:i", b"::T:F", b":", b":b"]


def gen_tree(rng, depth, stats, kind=None):
    t = GT()
    kind = kind or rng.choice(["hashed", "hashed", "longnames", "enum", "dupl", "default", "single", "options"])
    stats["tree_" + kind] = stats.get("tree_" + kind, 0) + 1
    n = 1 if kind == "single" else rng.randint(2, 10)
    names = set()
    # port names beyond std::string's small-string buffer (>= 16 characters): every port of a `longnames` table, and
    # now and then one port of any other table
    long_p = 1.0 if kind == "longnames" else rng.choice([0.0, 0.0, 0.15, 0.5])
    for _ in range(n):
        for _try in range(20):
            if rng.random() < long_p:
                base = rstr(rng, 16, 40, NAME_ALPH)
                stats["long_port_names"] = stats.get("long_port_names", 0) + 1
            else:
                base = rstr(rng, 1, 6, NAME_ALPH)
            if base[0:1].isdigit():
                continue
            if base not in names or kind == "dupl":
                break
        names.add(base)
        sub = None
        nm = base
        if kind == "enum" and rng.random() < 0.5:
            nm += b"#" + str(rng.choice([1, 2, 4, 10, 16])).encode()
        if kind == "options" and rng.random() < 0.4:
            nm = b"{" + base + b"," + rstr(rng, 1, 3, NAME_ALPH) + b"}" + rstr(rng, 0, 2, NAME_ALPH)
        if depth < 3 and rng.random() < 0.3:
            sub = gen_tree(rng, depth + 1, stats)
            nm += b"/"
            k = "r"
        else:
            k = rng.choice("pqce")
            nm += rng.choice(ARGSPECS)
        t.ports.append((nm, k, sub))
    if kind == "dupl" and len(t.ports) >= 2:
        t.ports[1] = (t.ports[0][0], t.ports[1][1], t.ports[1][2]) if not t.ports[1][2] and not t.ports[0][2] else t.ports[1]
    if kind == "default" or rng.random() < 0.15 or (kind == "longnames" and rng.random() < 0.4):
        t.default = rng.choice("pqce")
    return t


def tree_message(rng, t, stats):
    """An address that walks the tree (matching) or a perturbed one, plus arguments."""
    parts = []
    cur = t
    types_hint = None
    while cur is not None and cur.ports:
        nm, k, sub = rng.choice(cur.ports)
        colon = nm.find(b":")
        spec = nm[colon:] if colon >= 0 else b""
        nm2 = nm[:colon] if colon >= 0 else nm
        s = nm2.decode()
        m = re.search(r"#(\d+)", s)
        if m:
            s = s[:m.start()] + str(rng.randrange(int(m.group(1)) + (1 if rng.random() < 0.1 else 0))) + s[m.end():]
        m = re.search(r"\{([^}]*)\}", s)
        if m:
            s = s[:m.start()] + rng.choice(m.group(1).split(",")) + s[m.end():]
        parts.append(s)
        if sub is None:
            alts = [a for a in spec.decode().split(":")[1:]] if spec else None
            types_hint = rng.choice(alts) if alts else None
            break
        cur = sub
    addr = "".join(parts)
    r = rng.random()
    kind = "matching"
    if r < 0.25 and addr:
        kind = "nonmatching"
        i = rng.randrange(len(addr))
        c = rng.random()
        if c < 0.4:
            addr = addr[:i] + chr(rng.choice(NAME_ALPH)) + addr[i + 1:]
        elif c < 0.6:
            addr = addr[:i]
        elif c < 0.7:
            addr = addr + chr(rng.choice(NAME_ALPH))
        elif c < 0.8:
            addr = rstr(rng, 1, 12, NAME_ALPH + b"/").decode()
        else:
            # long unknown address: its hash lies beyond the remap table (default handler or plain return)
            addr = rstr(rng, 50, 120, NAME_ALPH).decode()
            if rng.random() < 0.3:
                addr += "/" + rstr(rng, 1, 30, NAME_ALPH).decode()
            stats["long_unknown_addresses"] = stats.get("long_unknown_addresses", 0) + 1
    if not addr:
        addr = "q"
    stats["tree_msg_" + kind] = stats.get("tree_msg_" + kind, 0) + 1
    big = rng.random() < 0.05
    if types_hint is not None and rng.random() < 0.7:
        types = types_hint
    else:
        types = rtypes(rng, 5)
    if big:
        types += rng.choice("sb")
        stats["oversized_messages"] = stats.get("oversized_messages", 0) + 1
    return addr.encode(), types, rvals(rng, types, big=big)


# ---------------------------------------------------------------------------------------
# op generators
# ---------------------------------------------------------------------------------------
def count_tags(stats, types):
    d = stats.setdefault("type_tags", {})
    for t in types:
        d[t] = d.get(t, 0) + 1


def op_build(rng, stats):
    addr = raddr(rng)
    sig = -1
    big = rng.random() < 0.08
    if rng.random() < 0.45:
        sig = rng.randrange(len(LIT_SIGS))
        types = LIT_SIGS[sig]
    else:
        types = rtypes(rng, 10)
        if rng.random() < 0.12:
            # long argument lists (the varargs front end unpacks them into a stack array sized by the argument count)
            types = "".join(rng.choice(ALL_TAGS if rng.random() < 0.3 else PAYLOAD) for _ in range(rng.choice([15, 16, 17, 18, 24, 33, 40, 64])))
            stats["build_long_argument_lists"] = stats.get("build_long_argument_lists", 0) + 1
        if types in LIT_SIGS:
            sig = LIT_SIGS.index(types)
    vals = rvals(rng, types, big=big)
    need = len(osc(addr, types, vals))
    r = rng.random()
    if r < 0.6:
        cap = 65536
    elif r < 0.75:
        cap = need
    elif r < 0.9:
        cap = max(0, need - rng.choice([1, 2, 4, 8]))
        stats["build_too_small"] = stats.get("build_too_small", 0) + 1
    else:
        cap = rng.choice([0, 1, 4, 8, 12])
    if big:
        stats["oversized_messages"] = stats.get("oversized_messages", 0) + 1
    count_tags(stats, types)
    return "build %d %s %s %s %d" % (cap, hx(addr), types or "-", args_token(types, vals), sig)


def op_msg(rng, stats):
    types = rtypes(rng, 12)
    vals = rvals(rng, types, big=rng.random() < 0.05)
    m = osc(raddr(rng), types, vals)
    count_tags(stats, types)
    return "msg %s %d" % (hx(m), rng.choice([0, 1, 3, 4, len(m) // 2, len(m) - 1, len(m), rng.randrange(len(m) + 1)]))


def rand_msg(rng, stats, big=False):
    types = rtypes(rng, 6)
    count_tags(stats, types)
    return osc(raddr(rng), types, rvals(rng, types, big=big))


def op_bundle(rng, stats, depth=0):
    n = rng.choice([0, 1, 1, 2, 3, 4, 6])
    elems = []
    for _ in range(n):
        if depth < 3 and rng.random() < 0.25:
            k = rng.randint(0, 3)
            inner = [rand_msg(rng, stats) for _ in range(k)]
            if rng.random() < 0.3:
                inner.append(bundle(rng.getrandbits(64), [rand_msg(rng, stats)]))
            elems.append(bundle(rng.getrandbits(64), inner))
            stats["nested_bundles"] = stats.get("nested_bundles", 0) + 1
        else:
            elems.append(rand_msg(rng, stats, big=rng.random() < 0.03))
    return "bundle %d %d %s" % (rng.choice([0, 1, 2 ** 64 - 1, rng.getrandbits(64)]), rng.choice([0, 0, 4, 100]),
                               ";".join(e.hex() for e in elems) if elems else "-")


PATTERNS = [b"abc", b"abc/", b"ab#4", b"ab#16/", b"ab#4/cd", b"{ab,cd}e", b"{ab,cd}e/", b"a*", b"ab*/", b"abc:i", b"abc::f",
            b"abc:s:i", b"abc::T:F", b"a#2b#3", b"abc:", b"ab/cd/e", b"*", b"x#10::i:c:S", b"{a,ab}c", b"a:i"]


def op_match(rng, stats):
    pat = rng.choice(PATTERNS) if rng.random() < 0.7 else rstr(rng, 1, 8, b"ab#{},*/:1c") or b"a"
    s = pat.decode()
    colon = s.find(":")
    path = s[:colon] if colon >= 0 else s
    path = re.sub(r"#(\d+)", lambda m: str(rng.randrange(int(m.group(1)) + 1)) if m.group(1) else "", path)
    path = re.sub(r"\{([^}]*)\}", lambda m: rng.choice(m.group(1).split(",")), path)
    path = path.replace("*", rstr(rng, 0, 3, NAME_ALPH).decode())
    if rng.random() < 0.3:
        i = rng.randrange(len(path) + 1)
        path = path[:i] + rstr(rng, 0, 2, NAME_ALPH).decode() + path[i + 1:]
    if not path:
        path = "a"
    types = rtypes(rng, 3)
    if colon >= 0 and rng.random() < 0.6:
        alts = s[colon:].split(":")[1:]
        types = rng.choice(alts) if alts else ""
        types = "".join(c for c in types if c in ALL_TAGS)
    count_tags(stats, types)
    return "match %s %s" % (hx(pat), hx(osc(path.encode(), types, rvals(rng, types))))


def op_disp_sugar(rng, stats):
    addr, types, vals = sugar_message(rng, stats)
    base = rng.random() < 0.7
    a = (b"/" + addr) if base else addr
    count_tags(stats, types)
    tree = "sugarnull" if rng.random() < 0.1 else "sugar"
    return "disp %s %s 1 %d %s" % (tree, "cap" if rng.random() < 0.7 else "base", 1 if base else 0, hx(osc(a, types, vals)))


def op_disp_tree(rng, stats, trees):
    t = rng.choice(trees)
    addr, types, vals = tree_message(rng, t, stats)
    base = rng.random() < 0.6
    a = (b"/" + addr) if base else addr
    loc = 1 if rng.random() < 0.7 else 0
    stats["disp_loc" if loc else "disp_noloc"] = stats.get("disp_loc" if loc else "disp_noloc", 0) + 1
    count_tags(stats, types)
    return "disp %s %s %d %d %s" % (t.spec(), "cap" if rng.random() < 0.7 else "base", loc, 1 if base else 0, hx(osc(a, types, vals)))


def op_reply(rng, stats):
    sig = rng.randrange(len(LIT_SIGS))
    types = LIT_SIGS[sig]
    vals = rvals(rng, types, big=rng.random() < 0.05)
    count_tags(stats, types)
    return "reply %s %s %d %s %s" % ("cap" if rng.random() < 0.5 else "base", hx(raddr(rng)), sig, types or "-", args_token(types, vals))


def op_tlink(rng, stats):
    maxmsg = rng.choice([16, 32, 64, 64, 256, 1024])
    nmsgs = rng.choice([1, 2, 2, 3, 4, 8])
    ops = []
    if rng.random() < 0.4:
        # the first operation on the fresh link is a lookahead query / read (R = read without asking hasNext first)
        ops.append(rng.choice(["h1", "h3", "r1", "r3", "R1", "R3", "R0", "p"]))
        stats["tlink_first_op_lookahead"] = stats.get("tlink_first_op_lookahead", 0) + 1
    faulty = rng.random() < 0.25     # histories with operations interrupted in the middle (see harness/rt.cpp)
    if faulty:
        stats["tlink_histories_with_interrupted_ops"] = stats.get("tlink_histories_with_interrupted_ops", 0) + 1
    for _ in range(rng.randint(4, 40)):
        r = rng.random()
        if faulty and rng.random() < 0.15:
            ops.append("f" + rng.choice("law") + rng.choice("lawhr"))
            stats["tlink_interrupted_ops"] = stats.get("tlink_interrupted_ops", 0) + 1
        elif r < 0.02:
            ops.append("R%d" % rng.randrange(4))
        elif r < 0.25:
            types = rtypes(rng, 4)
            vals = rvals(rng, types, big=rng.random() < 0.03)
            ops.append("a:%s:%s:%s" % (hx(raddr(rng)), types or "-", args_token(types, vals)))
        elif r < 0.4:
            sig = rng.randrange(len(LIT_SIGS))
            ops.append("l:%s:%d:%s" % (hx(raddr(rng)), sig, args_token(LIT_SIGS[sig], rvals(rng, LIT_SIGS[sig]))))
        elif r < 0.5:
            types = rtypes(rng, 3)
            m = osc(raddr(rng), types, rvals(rng, types))
            if len(m) <= maxmsg:
                ops.append("w:" + m.hex())
        elif r < 0.7:
            ops.append("h%d" % rng.randrange(4))
        elif r < 0.95:
            ops.append("r%d" % rng.randrange(4))
        else:
            ops.append("p")
    stats["tlink_ring_ops"] = stats.get("tlink_ring_ops", 0) + len(ops)
    return "tlink %d %d %s" % (maxmsg, nmsgs, ";".join(ops) if ops else "p")


META_KEYS = [b"min", b"max", b"documentation", b"parameter", b"map 1", b"map 0", b"enumerated", b"default", b"scale", b"nope", b"class"]


def op_meta(rng, stats):
    lvl, ports = rng.choice([("leaf", LEAF_PORTS), ("mid", MID_PORTS), ("root", ROOT_PORTS)])
    name = rng.choice(ports)[0]
    val = rng.choice(sum(OPTION_SYMS.values(), []) + [b"zzz"])
    return "meta %s %s %s %s" % (lvl, hx(name.encode()), hx(rng.choice(META_KEYS)), hx(val))


KINDS = ["build", "msg", "bundle", "match", "disp_sugar", "disp_tree", "reply", "tlink", "meta"]
WEIGHTS = {"build": 14, "msg": 6, "bundle": 6, "match": 8, "disp_sugar": 28, "disp_tree": 22, "reply": 5, "tlink": 8, "meta": 3}


def generate(rng, tier, stats, kinds=None, n=None):
    if n is None:
        n = 9000 if tier == "quick" else 400000
    kinds = kinds or KINDS
    ntrees = 40 if tier == "quick" else 400
    trees = [gen_tree(rng, 0, stats) for _ in range(ntrees)]
    # one of each kind for sure
    for k in ["hashed", "longnames", "longnames", "enum", "dupl", "default", "single", "options"]:
        trees.append(gen_tree(rng, 0, stats, kind=k))
    stats["generated_trees"] = len(trees)
    w = [WEIGHTS[k] for k in kinds]
    for _ in range(n):
        k = rng.choices(kinds, w)[0]
        stats["op_" + k] = stats.get("op_" + k, 0) + 1
        if k == "build":
            yield op_build(rng, stats)
        elif k == "msg":
            yield op_msg(rng, stats)
        elif k == "bundle":
            yield op_bundle(rng, stats)
        elif k == "match":
            yield op_match(rng, stats)
        elif k == "disp_sugar":
            yield op_disp_sugar(rng, stats)
        elif k == "disp_tree":
            yield op_disp_tree(rng, stats, trees)
        elif k == "reply":
            yield op_reply(rng, stats)
        elif k == "tlink":
            yield op_tlink(rng, stats)
        else:
            yield op_meta(rng, stats)


def nontrivial(op, out=""):
    w = op.split()
    if not w:
        return False
    if w[0] == "build":
        return w[3] != "-" and w[4] != "-"
    if w[0] == "msg":
        return len(w[1]) > 24
    if w[0] == "bundle":
        return w[3] != "-"
    if w[0] == "match":
        return len(w[1]) >= 4
    if w[0] == "disp":
        return len(w[5]) > 16
    if w[0] == "reply":
        return w[3] != "0"
    if w[0] == "tlink":
        return ("a:" in w[3] or "l:" in w[3] or "w:" in w[3] or "f" in w[3]) and (";r" in w[3] or ";R" in w[3])
    if w[0] == "meta":
        return True
    return False


HITS = re.compile(r"^hits=(\d+)\b")


def oracle(op, out):
    """The property on the implementation's output: no allocator / lock hit inside the realtime section, no exception
    leaving it, no operation blocked on a lock, no empty callback in a table built with the library's own macros; and
    the process survives the realtime section."""
    m = HITS.match(out)
    if m:
        if op.startswith("selftest"):
            if int(m.group(1)) < 5 or " catches=1" not in out:
                return "the interposition self-test counted only %s hits / missed the exception: %s" % (m.group(1), out[:200])
            if " emptycb=" in out:
                return ("a table built with the library's own port macros holds an empty std::function callback (dispatching to it "
                        "throws std::bad_function_call, which allocates): " + out[out.index(" emptycb="):][:200])
            return None
        if m.group(1) != "0":
            return "allocator/lock calls inside the realtime section: " + out[:300]
        if " threw=1" in out:
            return "an exception left the realtime section: " + out[:300]
        if " blocked=1" in out:
            return ("a ThreadLink operation started while another operation on the same link was suspended never returned "
                    "(it waits for a lock): " + out[:300])
        if " emptycb=" in out:
            return ("a table built with the library's own port macros holds an empty std::function callback: " + out[:300])
        return None
    if out.startswith("skip") or out in ("no-port",):
        return None
    if out.startswith("crash:"):
        # the unchanged tree survives every generated op (baseline: 0 crashes); a realtime section that kills the process
        # (std::terminate after an exception, a fault) or does not return cannot be counted as "did not allocate"
        return "the process died / hung inside the realtime section (%s): nothing can be certified for this input" % out
    return "engine rejected the op line: " + out[:100]


# which op kinds exercise a function named in an offending call path
def kinds_for_path(names):
    txt = " ".join(names)
    ks = []
    if "ThreadLink" in txt or "ring_" in txt or "tl_" in txt:
        ks.append("tlink")
    if "dispatch" in txt or "_M_invoke" in txt or "Port" in txt or "Meta" in txt or "enum_key" in txt:
        ks += ["disp_sugar", "disp_tree", "meta"]
    if "RtData" in txt or "CapData" in txt or "reply" in txt or "broadcast" in txt:
        ks += ["reply", "disp_sugar", "disp_tree"]
    if "bundle" in txt:
        ks.append("bundle")
    if "match" in txt:
        ks += ["match", "disp_tree", "disp_sugar"]
    if re.search(r"rtosc_(v|a)?message|rtosc_arg|rtosc_itr|rtosc_type|rtosc_narg|rtosc_valid|build_|measure|read_all|v2args|vsosc", txt):
        ks += ["build", "msg"]
    out = []
    for k in ks:
        if k not in out:
            out.append(k)
    return out or list(KINDS)


# ---------------------------------------------------------------------------------------
# proofs
# ---------------------------------------------------------------------------------------
def scratch_audit(theorems, tag):
    """Used when Props/C03.lean no longer builds: elaborate a copy of it (errors do not stop the
    elaborator) with `#print axioms` appended, to find out which obligations still check."""
    src_path = os.path.join(vlib.LEAN, "RtoscModel", "Props", "C03.lean")
    src = open(src_path).read()
    f = os.path.join(vlib.BUILD, "Scratch_%s.lean" % tag)
    with open(f, "w") as fh:
        fh.write(src)
        fh.write("\n")
        for t in theorems:
            fh.write("#print axioms %s\n" % t)
    r = vlib.sh(["lake", "env", "lean", f], cwd=vlib.LEAN)
    txt = r.stdout
    lines = src.split("\n")
    decl_at = []
    for i, l in enumerate(lines, 1):
        m = re.match(r"\s*theorem\s+([\w.']+)", l)
        if m:
            decl_at.append((i, m.group(1)))
    bad = set()
    for m in re.finditer(r":(\d+):\d+: error", txt):
        ln = int(m.group(1))
        owner = None
        for i, nme in decl_at:
            if i <= ln:
                owner = nme
        if owner:
            bad.add(owner)
    res = {}
    for t in theorems:
        short = t.split(".")[-1]
        m = re.search(r"'%s' depends on axioms: \[([^\]]*)\]" % re.escape(t), txt, re.S)
        if m:
            ax = set(x.strip() for x in m.group(1).replace("\n", " ").split(",") if x.strip())
        elif re.search(r"'%s' does not depend on any axioms" % re.escape(t), txt):
            ax = set()
        else:
            ax = None
        if short in bad:
            ax = None
        res[t] = ax
    return res, txt


def check_proofs(tier, cov):
    theorems = list(THEOREMS)
    ok, out, dt = vlib.lake_build(LEAN_MODULES)
    if not ok and re.search(r"file changed while building|olean|resource busy", out) and "error: RtoscModel/" not in out:
        ok, out, dt = vlib.lake_build(LEAN_MODULES)
    cov["lake_build_s"] = round(dt, 1)
    m = re.search(r"Built RtoscModel\.Props\.C03 \(([\d.]+)(m?s)\)", out)
    if m:
        cov["kernel_check_s"] = float(m.group(1)) / (1000.0 if m.group(2) == "ms" else 1.0)
    elif ok:
        # lake had nothing to rebuild (same generated graphs as the last run): re-elaborate the file anyway, so that
        # the kernel evaluation over the generated data happens, and is timed, on every run
        t1 = time.time()
        r = vlib.sh(["lake", "env", "lean", os.path.join("RtoscModel", "Props", "C03.lean")], cwd=vlib.LEAN)
        cov["kernel_check_s"] = round(time.time() - t1, 1)
        if r.returncode != 0:
            ok = False
            out = r.stdout
    broken = []
    tail = ""
    axioms_seen = set()
    discharged = 0
    if ok:
        ax, _ = vlib.axiom_audit(LEAN_MODULES, theorems, PROP)
    else:
        tail = out[-3000:]
        # make sure the imports of the scratch copy exist
        vlib.lake_build(["RtoscModel.CallGraph.Reach", "RtoscModel.CallGraph.Generated", "RtoscModel.CallGraph.Generated17"])
        ax, txt = scratch_audit(theorems, PROP)
        tail += "\n--- scratch elaboration ---\n" + txt[-2000:]
    for t in theorems:
        if ax[t] is None:
            broken.append("theorem %s does not check on the regenerated call graph" % t)
        elif "sorryAx" in ax[t] or not ax[t] <= vlib.ALLOWED_AXIOMS:
            broken.append("theorem %s depends on %s" % (t, sorted(ax[t] - vlib.ALLOWED_AXIOMS)))
        else:
            discharged += 1
            axioms_seen |= ax[t]
    bad_text = vlib.textual_audit(LEAN_MODULES)
    broken += ["textual-audit " + b for b in bad_text]
    if tier == "thorough" and ok:
        r = vlib.sh(["lake", "env", "leanchecker", LEAN_MODULES[0]], cwd=vlib.LEAN)
        if r.returncode != 0:
            broken.append("leanchecker rejects %s: %s" % (LEAN_MODULES[0], r.stdout[-300:]))
        cov["leanchecker"] = "replayed " + LEAN_MODULES[0]
    cov["obligations"] = len(theorems)
    cov["discharged"] = discharged
    cov["obligation_names"] = theorems
    cov["checker_cmd"] = ("python3 tools/callgraph.py && cd lean && lake build RtoscModel.Props.C03 && "
                          "lake env lean build/Audit_C03.lean (#print axioms)" +
                          (" && lake env leanchecker RtoscModel.Props.C03" if tier == "thorough" else ""))
    return broken, tail, axioms_seen


# ---------------------------------------------------------------------------------------
# dynamic engines
# ---------------------------------------------------------------------------------------
def _compile_all(jobs):
    """jobs: [(tag, cmd)] run side by side; raises BuildError with the log of what failed"""
    import subprocess
    procs = [(t, subprocess.Popen(c, stdout=subprocess.PIPE, stderr=subprocess.STDOUT, text=True)) for t, c in jobs]
    bad = ""
    for t, p in procs:
        o, _ = p.communicate()
        if p.returncode != 0:
            bad += "== %s\n%s\n" % (t, o[-3000:])
    if bad:
        raise vlib.BuildError(bad)


def _build_engine(name, cxx, c_core, c_other, opt, core, with_cmake_build=False):
    """Library sources + harness units compiled by gcc/g++ with the given flags and linked into an engine.
    Returns [(name, exe, description)] (plus the engine linked with <tree>/_build/*.a when asked for and present)."""
    import shutil
    hdir = os.path.join(vlib.VERIF, "harness")
    hsrc = [os.path.join(hdir, x) for x in HARNESS["src"]]
    hdeps = hsrc + [os.path.join(hdir, d) for d in HARNESS["deps"]]
    key = vlib.sha_files(vlib.repo_files() + hdeps, " ".join(cxx + c_core + c_other + opt) + "rt-3" + name)
    exe = os.path.join(vlib.BUILD, "h-rt%s-%s" % (name, key))
    inc = ["-I", os.path.join(vlib.REPO, "include"), "-I", os.path.join(vlib.REPO, "src/cpp"),
           "-I", os.path.join(vlib.REPO, "src"), "-I", hdir]
    desc = "library + harness compiled by gcc/g++ with %s / %s, %s" % (" ".join(cxx), " ".join(c_core) or "default C", " ".join(opt))
    out = []
    with vlib.Lock("h-rt" + name):
        objdir = os.path.join(vlib.BUILD, "lib-rt%s-%s" % (name, key))
        hobjs = [os.path.join(objdir, "h_" + os.path.basename(x) + ".o") for x in hsrc]
        if not os.path.exists(exe):
            for f in os.listdir(vlib.BUILD):
                if f.startswith("h-rt%s-" % name) and not f.endswith(".lock"):
                    try:
                        os.remove(os.path.join(vlib.BUILD, f))
                    except OSError:
                        pass
                if f.startswith("lib-rt%s-" % name):
                    shutil.rmtree(os.path.join(vlib.BUILD, f), ignore_errors=True)
            os.makedirs(objdir, exist_ok=True)
            vlib.version_c(os.path.join(objdir, "version.c"))
            jobs = []
            objs = []
            for x in vlib.LIB_C + ["version.c"]:
                src = os.path.join(objdir, x) if x == "version.c" else os.path.join(vlib.REPO, x)
                o = os.path.join(objdir, x.replace("/", "_") + ".o")
                objs.append(o)
                jobs.append((x, ["gcc"] + (c_core if x in core else c_other) + ["-c", src, "-o", o] + opt + inc))
            for x in vlib.LIB_CXX:
                o = os.path.join(objdir, x.replace("/", "_") + ".o")
                objs.append(o)
                jobs.append((x, ["g++"] + cxx + ["-c", os.path.join(vlib.REPO, x), "-o", o] + opt + inc))
            for x, o in zip(hsrc, hobjs):
                jobs.append((x, ["g++"] + cxx + ["-c", x, "-o", o] + opt + inc))
            _compile_all(jobs)
            r = vlib.sh(["g++"] + hobjs + objs + ["-o", exe + ".tmp", "-lpthread"] + HARNESS.get("libs", []))
            if r.returncode != 0:
                raise vlib.BuildError("engine rt%s does not link:\n%s" % (name, r.stdout[-4000:]))
            os.rename(exe + ".tmp", exe)
        out.append((name, exe, desc))
        # ---- the tree's own CMake build, when there is one and it is not older than the sources
        libs = [os.path.join(vlib.REPO, "_build", x) for x in ("librtosc-cpp.a", "librtosc.a")]
        if with_cmake_build and all(os.path.exists(x) for x in libs):
            newest = max(os.path.getmtime(f) for f in vlib.repo_files() if os.path.exists(f))
            if min(os.path.getmtime(x) for x in libs) >= newest:
                k2 = vlib.sha_files(libs + hdeps, key + "cm")
                exe2 = os.path.join(vlib.BUILD, "h-rtcm-" + k2)
                if not os.path.exists(exe2):
                    for f in os.listdir(vlib.BUILD):
                        if f.startswith("h-rtcm-"):
                            try:
                                os.remove(os.path.join(vlib.BUILD, f))
                            except OSError:
                                pass
                    if not all(os.path.exists(o) for o in hobjs):
                        os.makedirs(objdir, exist_ok=True)
                        _compile_all([(x, ["g++"] + cxx + ["-c", x, "-o", o] + opt + inc) for x, o in zip(hsrc, hobjs)])
                    r = vlib.sh(["g++"] + hobjs + libs + ["-o", exe2 + ".tmp", "-lpthread"] + HARNESS.get("libs", []))
                    if r.returncode == 0:
                        os.rename(exe2 + ".tmp", exe2)
                    else:
                        vlib.log("C03: cannot link against %s (ignored): %s" % (libs[0], r.stdout[-300:]))
                        exe2 = None
                if exe2:
                    out.append(("cmake-build", exe2, "harness linked with the tree's own CMake build " + ", ".join(libs)))
    return out


def build_engines():
    """One engine per configuration of tools/callgraph.py (same language levels / optimisation), compiled by gcc."""
    import concurrent.futures
    cfgs = callgraph.configs()
    with concurrent.futures.ThreadPoolExecutor(max_workers=len(cfgs)) as ex:
        futs = []
        for c in cfgs:
            cxx_opts = [c["cxx"]] + ([[x] for x in callgraph.MIN_FALLBACK_CXX] if c["name"] == "min" else [])

            def job(c=c, cxx_opts=cxx_opts):
                last = None
                for cxx in cxx_opts:
                    try:
                        return _build_engine(c["name"], cxx, c["c_core"], c["c_other"], c["opt"] + ["-g", "-DRTOSC_VERIF"], c["core"],
                                             with_cmake_build=(c["name"] == "shipped"))
                    except vlib.BuildError as e:
                        last = e
                raise last
            futs.append(ex.submit(job))
        out = []
        for f in futs:
            out += f.result()
    return out


# ---------------------------------------------------------------------------------------
# main
# ---------------------------------------------------------------------------------------
def run_ops(exe, ops, workdir, tag):
    outs = []
    step = 20000
    for i in range(0, len(ops), step):
        outs += vlib.run_harness(exe, ops[i:i + step], workdir, "%s%d" % (tag, i))
    return outs


def run_all(engines, ops, workdir, tag):
    """Runs the op lines on every engine side by side; returns {engine name: outputs}"""
    import concurrent.futures
    with concurrent.futures.ThreadPoolExecutor(max_workers=len(engines)) as ex:
        futs = {n: ex.submit(run_ops, exe, ops, workdir, "%s-%s" % (tag, n)) for n, exe, _ in engines}
        return {n: f.result() for n, f in futs.items()}


def main(argv):
    import argparse
    import shutil
    ap = argparse.ArgumentParser()
    ap.add_argument("--tier", default=os.environ.get("VERIF_TIER", "quick"), choices=["quick", "thorough"])
    ap.add_argument("--replay")
    ap.add_argument("--seed", type=int, default=int(os.environ.get("VERIF_SEED", "1")))
    ap.add_argument("--keep", action="store_true")
    args = ap.parse_args(argv)
    t0 = time.time()
    os.makedirs(vlib.BUILD, exist_ok=True)
    os.makedirs(vlib.EVID, exist_ok=True)
    workdir = os.path.join(vlib.BUILD, "run-%s-%d" % (PROP, os.getpid()))
    os.makedirs(workdir, exist_ok=True)
    try:
        return _run(args, workdir, t0)
    finally:
        if not args.keep:
            shutil.rmtree(workdir, ignore_errors=True)


def _run(args, workdir, t0):
    import threading
    tier, seed = args.tier, args.seed
    cov = {}

    # ---- harness first (a tree that does not compile is not a verdict) ---------------------
    try:
        engines = build_engines()
    except vlib.BuildError as e:
        vlib.log(str(e))
        print("ERROR: cannot build implementation harness for %s (the tree does not compile)" % PROP)
        return 2
    cov["engines"] = {n: d for n, _, d in engines}

    # ---- replay mode ----------------------------------------------------------------------
    if args.replay:
        payload = json.load(open(args.replay))
        for o in payload.get("offending_paths", []):
            print("[%s] call path to %s (%s):" % (o.get("config", "?"), o["demangled"], o["why"]))
            for s in o["steps"]:
                print("    " + s)
        ops = payload.get("ops", [])
        if ops:
            res = run_all(engines, ops, workdir, "replay")
            for i, o in enumerate(ops):
                print("op   :", o[:2000])
                for n, _, _ in engines:
                    print("impl[%s] :" % n, res[n][i])
                    print("oracle[%s]:" % n, oracle(o, res[n][i]) or "ok")
        return 0

    # ---- 0. translator --------------------------------------------------------------------
    try:
        graphs = callgraph.translate(write=True)
    except vlib.BuildError as e:
        vlib.log(str(e))
        print("ERROR: cannot compile the working tree to LLVM IR for %s" % PROP)
        return 2
    cov["translator"] = [info for _, info in graphs]
    offending = []
    pre_broken = []
    for g, info in graphs:
        for o in callgraph.offending(g):
            o["config"] = info["config"]
            offending.append(o)
        dm = callgraph.demangle(g.names)
        reach_names = [g.names[x] for x in sorted(g.reach)]
        cov.setdefault("whitelist_reached", {}).update({n: g.cls[n][1] for n in reach_names if n in g.cls and g.cls[n][0] == "whitelist"})
        cov.setdefault("excluded_edges_from_reachable_code", {})[info["config"]] = sorted(set(
            "%s -> %s (%s)" % (dm[a][:100], dm[b][:100], why[:80]) for a, b, why in g.excluded if g.idx[a] in g.reach))[:60]
        cov.setdefault("entries", {})[info["config"]] = [dm[n][:120] for n in g.entries]
        cov.setdefault("reachable_indirect_call_sites", {})[info["config"]] = len([1 for s, t, c in g.indirect_sites if g.idx[s] in g.reach])
        # obligations of the translator itself: the public realtime API must be in the module and therefore an entry;
        # every instruction must have been understood
        if info["missing_api_entries"]:
            pre_broken.append("[%s] public realtime API functions are not defined in the analysed module, so they are not entries: %s"
                              % (info["config"], ", ".join(info["missing_api_entries"])))
        if info["parse_problems"]:
            pre_broken.append("[%s] the extractor could not parse: %s" % (info["config"], "; ".join(info["parse_problems"][:3])))
    offending.sort(key=lambda o: len(o["path"]))

    # ---- 1. proofs (in the background, while the dynamic engines run) -----------------------
    pres = {}

    def proofs():
        try:
            pres["r"] = check_proofs(tier, cov)
        except Exception as e:  # noqa: BLE001
            pres["r"] = (["internal error while checking the proofs: %r" % (e,)], "", set())
    th = threading.Thread(target=proofs)
    th.start()

    # ---- 2. dynamic engines -----------------------------------------------------------------
    rng = random.Random(seed * 1000003 + 17)
    ops = ["selftest"]
    corpus = os.path.join(vlib.VERIF, "corpus", PROP + ".ops")
    ncorpus = 0
    if os.path.exists(corpus):
        for l in open(corpus):
            l = l.strip()
            if l and not l.startswith("#"):
                ops.append(l)
                ncorpus += 1
    stats = {}
    ops += list(generate(rng, tier, stats))
    res = run_all(engines, ops, workdir, "main")
    fails = []          # (op, out, failure, engine)
    distinct = set()
    crashes = 0
    rejected = 0
    for n, _, _ in engines:
        for op, out in zip(ops, res[n]):
            if out.startswith("crash:"):
                crashes += 1
            f = oracle(op, out)
            if f is not None:
                if f.startswith("engine rejected"):
                    rejected += 1
                fails.append((op, out, f, n))
            if nontrivial(op, out) and HITS.match(out):
                distinct.add(hashlib.md5(op.encode()).digest())
    outs = res[engines[-1][0] if len(engines) == 1 else "shipped"]
    functional = {"dispatch_matched": sum(1 for op, o in zip(ops, outs) if op.startswith("disp") and re.search(r"matches=[1-9]", o)),
                  "dispatch_unmatched": sum(1 for op, o in zip(ops, outs) if op.startswith("disp") and " matches=0" in o),
                  "callbacks_replied": sum(1 for op, o in zip(ops, outs) if op.startswith("disp") and re.search(r"replies=[1-9]", o)),
                  "builds_rejected_too_small": sum(1 for op, o in zip(ops, outs) if op.startswith("build") and " len=0 " in o),
                  "ring_reads": sum(int(m.group(1)) for o in outs for m in [re.search(r" r=(\d+) has=", o)] if m),
                  "interrupted_ring_operations_completed": sum(int(m.group(1)) for o in outs for m in [re.search(r" nested=(\d+) ", o)] if m),
                  "library_macro_ports_checked_for_empty_callback": next((int(m.group(1)) for m in [re.search(r"ports_checked=(\d+)", outs[0])] if m), 0),
                  "crashes": crashes, "crash_baseline_unchanged_tree": 0}
    sugar_ports = set()
    for op, o in zip(ops, outs):
        if op.startswith("disp sugar"):
            m = re.search(r" port=([0-9a-f]+)", o)
            if m:
                sugar_ports.add(bytes.fromhex(m.group(1)).decode("latin1"))
    functional["sugar_ports_last_matched"] = sorted(sugar_ports)

    th.join()
    broken, tail, axioms_seen = pres["r"]
    broken = pre_broken + broken
    # the translator's own verdict and the kernel's must agree; either one failing is a failed obligation
    if offending and not [b for b in broken if b.startswith("theorem")]:
        broken.append("translator reports an offending call path but every theorem checked (internal inconsistency)")
    cov["trusted_base"] = (["Lean 4.33.0 kernel"] + TRUSTED + ["g++ 12 / glibc of this image (dynamic engines, no sanitizer)"] +
                           ["axioms reported by #print axioms: " + (", ".join(sorted(axioms_seen)) or "none")])

    # ---- 3. search towards the offending path ----------------------------------------------
    searched = 0
    if broken and not [f for f in fails if not f[2].startswith("engine rejected")]:
        kinds = kinds_for_path(sum([o["path_demangled"] for o in offending[:3]], [])) if offending else list(KINDS)
        rng2 = random.Random(seed * 7919 + 3)
        st2 = {}
        sops = list(generate(rng2, "thorough", st2, kinds=kinds, n=60000 if tier == "quick" else 400000))
        sres = run_all(engines, sops, workdir, "search")
        searched = len(sops)
        for n, _, _ in engines:
            hit = False
            for op, out in zip(sops, sres[n]):
                f = oracle(op, out)
                if f is not None and not f.startswith("engine rejected"):
                    fails.append((op, out, f, n))
                    hit = True
                    break
            if hit:
                break
        cov["search_kinds"] = kinds
    cov["search_evaluations"] = searched

    # ---- 4. verdict -----------------------------------------------------------------------
    violations = 0
    off_payload = [{k: o[k] for k in ("config", "function", "demangled", "why", "entry_demangled", "path", "path_demangled", "steps")}
                   for o in offending[:8]]
    real_fails = [f for f in fails if not f[2].startswith("engine rejected")]
    # prefer a failing input that reports counted hits over one that only crashed
    real_fails.sort(key=lambda f: (1 if f[1].startswith("crash:") else 0, 1 if f[0].startswith("selftest") else 0,
                                   1 if f[1].startswith("hits=0") else 0))
    if real_fails:
        op, out, f, eng = real_fails[0]
        path = vlib.write_replay(PROP, "input", {
            "property": PROP, "kind": "failing-input", "ops": [op], "impl": out, "engine": eng, "failure": f, "seed": seed, "tier": tier,
            "broken_obligations": broken, "offending_paths": off_payload, "n_failing_inputs": len(real_fails),
            "failing_engines": sorted(set(x[3] for x in real_fails)),
            "note": ("the proof obligations fail as well: see offending_paths" if broken else
                     "the theorems check on the generated graphs but an execution allocates/locks/throws/blocks/dies: the call-graph "
                     "model (or one of its stated preconditions) does not hold for this input")})
        print("VIOLATION property=%s replay=%s" % (PROP, path))
        violations = len(real_fails)
    elif broken:
        path = vlib.write_replay(PROP, "nofail", {
            "property": PROP, "kind": "no-failing-input-found", "seed": seed, "tier": tier, "broken_obligations": broken,
            "offending_paths": off_payload, "lake_log_tail": tail, "search_evaluations": searched, "ops": []})
        print("VIOLATION property=%s replay=%s no-failing-input-found" % (PROP, path))
        violations = 1
    elif fails:
        # only generator/engine protocol errors: an internal error of the check, not a verdict about the code
        vlib.log("internal: engine rejected %d op lines, e.g. %s -> %s" % (len(fails), fails[0][0][:200], fails[0][1]))
        print("ERROR: %s engine rejected %d generated op lines" % (PROP, len(fails)))
        return 2

    # ---- 5. evidence ----------------------------------------------------------------------
    idxs = sorted(set([0, 1, len(ops) // 3, len(ops) // 2, (2 * len(ops)) // 3, len(ops) - 1]))
    cov.update({
        "evaluations": len(ops) * len(engines),
        "evaluations_per_engine": len(ops),
        "distinct_nontrivial": len(distinct),
        "rule": RULE,
        "samples": [{"op": ops[j][:600], "impl": outs[j][:300]} for j in idxs if j < len(ops)],
        "traces_validated_against_impl": len(ops) * len(engines) - len(real_fails),
        "oracle_failures": len(real_fails),
        "corpus_cases": ncorpus,
        "input_distribution": stats,
        "observed": functional,
        "broken_obligations": broken,
        "offending_paths": off_payload,
    })
    ev = {"property_id": PROP, "tier": tier, "seed": seed, "level": "proof",
          "level_note": LEVEL_NOTE, "coverage": cov,
          "assumptions": ASSUMPTIONS, "wall_s": round(time.time() - t0, 2), "violations": violations}
    with open(os.path.join(vlib.EVID, PROP + ".json"), "w") as f:
        json.dump(ev, f, indent=1)
    vlib.log("%s %s: graphs %s, %d/%d obligations, %d dynamic cases x %d engines (%d distinct non-trivial), "
             "%d failing, %d crashes, %.1fs" % (
                 PROP, tier, "; ".join("%s %d nodes/%d edges/%d reachable" % (i["config"], i["nodes"], i["edges"], i["reachable"])
                                       for _, i in graphs), cov["discharged"], cov["obligations"] + len(pre_broken), len(ops),
                 len(engines), len(distinct), len(real_fails), crashes, time.time() - t0))
    return 1 if violations else 0
