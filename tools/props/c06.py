"""C06 — ThreadLink is a lossless FIFO between two threads under every interleaving."""
import os
import struct
import subprocess
import sys

sys.path.insert(0, os.path.dirname(os.path.dirname(os.path.abspath(__file__))))
import vlib  # noqa: E402

PROP = "C06"
ENGINE = "tlink"
LEAN_MODULES = ["RtoscModel.Props.C06"]
THEOREMS = [
    "Rtosc.Ring.seq_refines_queue", "Rtosc.Ring.drop_whole", "Rtosc.Ring.lookahead_replays",
    "Rtosc.Ring.read_resyncs_lookahead",
    "Rtosc.Ring.conc_inv", "Rtosc.Ring.conc_drf", "Rtosc.Ring.conc_fifo", "Rtosc.Ring.conc_lossless",
    "Rtosc.Ring.hasNext_exact", "Rtosc.Ring.bundle_not_self_delimiting_counterexample",
]
HARNESS = {"src": ["tlink.cpp"], "exclude": ["src/cpp/thread-link.cpp"], "deps": ["common.h", "tl_sched.h"]}
STATELESS = True
RULE = ("three streams. seq (quick 6000 / thorough 60000): random operation histories of 5..40 ops "
        "(write/writeArray/raw_write of valid OSC messages of 8..44 bytes with all argument types, ~12% longer than "
        "MaxMsg, read, read_lookahead, hasNext, hasNextLookahead; 1 in 40 histories also raw_writes bundles, finding "
        "C06-K5) on rings of 16..128 bytes including sizes that are not multiples of 4 (18, 26, 30, 33, 63). "
        "conc (quick 25000 / thorough 150000): writer history (1..5 ops) x reader history (1..8 ops) x memcpy chunk size "
        "(whole, 1, 2, 3, 4, 5, 8 bytes) x random schedule (thread choice at every shared access, biased and bursty); "
        "thorough additionally *every* schedule, enumerated by the model, of ~550 histories with <= 2 writer and <= 2 "
        "reader operations behind a sequential warm-up write+read that rotates the ring (16..26-byte rings, whole memcpy "
        "and 4-byte chunks; ~10^5 schedules), so that full, empty and wrap-around states occur under all interleavings. "
        "soak: two free-running threads, 2*10^4 messages (quick) / 8*10^5 messages on three rings (thorough, also run in "
        "a separate -fsanitize=thread build). non-trivial = something is written and something is read; distinct = "
        "distinct op line")
ASSUMPTIONS = [
    "one writer thread and one reader thread (the documented use); index variables are seq_cst atomics, so an "
    "interleaving of shared accesses is a faithful execution model once data-race freedom of the plain ring bytes is "
    "proved (C++11 DRF-SC, trusted)",
    "everything written is an OSC *message* (IsMsg): its length is recovered by rtosc_message_ring_length from its own "
    "bytes whatever follows it (C01: ringLength_encode); bundles sent through raw_write are outside (finding C06-K5)",
    "ring size >= 1 byte (max_messages >= 1, MaxMsg >= 1); build with NDEBUG (default build type): the asserts are no code",
    "raw_write drops messages longer than MaxMsg (fixes/C06-rawwrite-maxmsg.patch, F6)",
]
TRUSTED = [
    "hand-written models RtoscModel/Ring/{Seq,Conc}.lean of ring_read_size, ring_write_size, ring_write, ring_read, "
    "ring_read_vector, ThreadLink::{write,writeArray,raw_write,hasNext,read}; RtoscModel/Ring/Frame.lean (executable copy of "
    "rtosc_message_ring_length, used by the driver only; the theorems take the framing function as a parameter)",
    "harness/tl_sched.h: redefinition of std::atomic / memcpy / rtosc_message_ring_length while compiling the unmodified "
    "thread-link.cpp into the harness; loads of a thread's own index and accesses to read_lookahead are treated as "
    "thread-local (no scheduling point)",
    "C++11 DRF-SC theorem; hardware memory model (supporting evidence only: TSan soak)",
]
TECHNIQUE = "Lean 4 proofs over a two-thread transition system + scheduled correspondence with the real code"
LEVEL_TEXT = ("Lean theorems: the sequential model refines a bounded FIFO with lookahead cursor for every operation history; "
              "the two-thread model (one step per shared access, any memcpy chunking) keeps the ring invariant, is free of "
              "data races on ring bytes, returns exactly the published messages in order and answers hasNext exactly, for "
              "every interleaving of every history (induction over steps, no bound). The models are compared with the "
              "compiled thread-link.cpp under a deterministic scheduler (same schedule on both sides, access traces and "
              "outputs equal) and an independent FIFO reference is evaluated on the implementation's outputs")
LEVEL_NOTE = "memory-model effects below seq_cst/DRF-SC are outside the model (TSan soak as supporting evidence)"


# ---------------------------------------------------------------------------------------
# OSC messages
# ---------------------------------------------------------------------------------------
def pad(b):
    return b + b"\0" * (4 - len(b) % 4)


def hx(b):
    return b.hex() if b else "-"


def unhx(s):
    return b"" if s == "-" else bytes.fromhex(s)


LETTERS = b"abcxyz/0"


def rand_msg(rng, target=None):
    """A valid OSC message; `target`: aim at this many bytes (multiple of 4, >= 8)."""
    for _ in range(50):
        plen = rng.choice([1, 1, 2, 3, 4, 5, 7, 8, 11])
        if target is not None and target <= 12:
            plen = rng.randint(1, 3) if target == 8 else rng.choice([1, 2, 3, 4, 5, 6, 7])
        path = b"/" + bytes(rng.choice(LETTERS[:6]) for _ in range(plen - 1))
        ntags = rng.choice([0, 1, 1, 1, 2, 2, 3])
        tags = b""
        args = b""
        for _ in range(ntags):
            t = rng.choice(b"iiifsbhTFcSdNmtrI")
            tags += bytes([t])
            if t in b"ifcrm":
                args += struct.pack(">I", rng.choice([0, 1, 42, 0x2c000000, 0x2f610000, 0xffffffff, rng.getrandbits(32)]))
            elif t in b"htd":
                args += struct.pack(">Q", rng.choice([0, 7, rng.getrandbits(64)]))
            elif t in b"sS":
                args += pad(bytes(rng.choice(b"ab,/#") for _ in range(rng.randint(0, 6))))
            elif t == ord("b"):
                n = rng.randint(0, 9)
                blob = bytes(rng.choice([0, 0x2c, 0x2f, 1, 255]) for _ in range(n))
                args += struct.pack(">I", n) + blob + b"\0" * ((4 - n % 4) % 4)
        m = pad(path) + pad(b"," + tags) + args
        if target is None or len(m) == target:
            return m
    # fall back: path-only message of the wanted size
    n = max(8, target or 8)
    return pad(b"/" + b"a" * (n - 8)) + b",\0\0\0"


def bundle_block(rng):
    """#bundle, timetag, one or two elements; 4 trailing zero bytes so that
    rtosc_message_length(msg,-1) stays inside the block."""
    out = b"#bundle\0" + b"\0" * 8
    for _ in range(rng.randint(1, 2)):
        m = rand_msg(rng, rng.choice([8, 12]))
        out += struct.pack(">I", len(m)) + m
    return out + b"\0" * 4


def is_bundle(b):
    return b.startswith(b"#bundle\0")


def wmsg(tok):
    """the message a writer token stands for (bundle blocks carry 4 extra zero bytes)"""
    m = unhx(tok[1:])
    if tok[0] == "x" and is_bundle(m):
        return m[:-4]
    return m


# ---------------------------------------------------------------------------------------
# generators
# ---------------------------------------------------------------------------------------
RINGS = [(8, 2), (16, 1), (8, 3), (12, 2), (13, 2), (16, 2), (10, 3), (20, 2), (16, 3), (32, 2), (21, 3), (16, 4),
         (32, 4), (9, 2), (24, 1), (11, 3)]


def msg_for_ring(rng, maxMsg, oversize_p=0.12):
    sizes = [s for s in range(8, maxMsg + 1, 4)] or [8]
    if rng.random() < oversize_p:
        return rand_msg(rng, (maxMsg // 4 + 1) * 4 + rng.choice([0, 0, 4, 8]))
    # favour small messages on small rings, but hit MaxMsg exactly now and then
    if maxMsg % 4 == 0 and rng.random() < 0.15:
        return rand_msg(rng, maxMsg)
    return rand_msg(rng, rng.choice(sizes[:4]))


def wtoken(rng, m):
    return rng.choice("wwaxx") + hx(m)


def gen_seq(rng, stats, bundles=False):
    maxMsg, nmsgs = rng.choice(RINGS)
    n = rng.randint(5, 40)
    ops = []
    pw = rng.choice([0.3, 0.45, 0.6])
    for _ in range(n):
        r = rng.random()
        if r < pw:
            if bundles and rng.random() < 0.3:
                ops.append("x" + hx(bundle_block(rng)))
            else:
                m = msg_for_ring(rng, maxMsg)
                stats["msg_sizes"][str(len(m))] = stats["msg_sizes"].get(str(len(m)), 0) + 1
                ops.append(wtoken(rng, m))
        else:
            ops.append(rng.choice("rrrllhhk"))
    stats["ring_sizes"][str(maxMsg * nmsgs)] = stats["ring_sizes"].get(str(maxMsg * nmsgs), 0) + 1
    return "seq %d %d %s" % (maxMsg, nmsgs, " ".join(ops))


SMALL_RINGS = [(8, 2), (16, 1), (12, 2), (13, 2), (8, 3), (10, 2), (9, 2), (20, 1), (16, 2), (11, 2)]


def gen_conc_random(rng, stats):
    maxMsg, nmsgs = rng.choice(SMALL_RINGS if rng.random() < 0.7 else RINGS)
    chunk = rng.choice([0, 0, 1, 2, 3, 4, 5, 8])
    nw = rng.randint(1, 5)
    nr = rng.randint(1, 8)
    wops = [wtoken(rng, msg_for_ring(rng, maxMsg, 0.08)) for _ in range(nw)]
    rops = "".join(rng.choice("rrrrlhhk") for _ in range(nr))
    # schedule: random walk with a random bias and random burst lengths
    bias = rng.choice([0.5, 0.5, 0.3, 0.7, 0.15, 0.85])
    sched = []
    total = rng.randint(0, 30 + 14 * (nw + nr))
    while len(sched) < total:
        t = "w" if rng.random() < bias else "r"
        sched.extend(t * rng.choice([1, 1, 1, 2, 3, 6]))
    stats["chunk"][str(chunk)] = stats["chunk"].get(str(chunk), 0) + 1
    stats["ring_sizes"][str(maxMsg * nmsgs)] = stats["ring_sizes"].get(str(maxMsg * nmsgs), 0) + 1
    return "conc %d %d %d %s %s %s" % (maxMsg, nmsgs, chunk, ",".join(wops), rops, "".join(sched) or "-")


def driver_lines(lines):
    exe = vlib.driver_path(ENGINE)
    if not os.path.exists(exe):
        return None
    p = subprocess.run([exe], input="\n".join(lines) + "\n", stdout=subprocess.PIPE, stderr=subprocess.PIPE, text=True)
    if p.returncode != 0:
        return None
    out = p.stdout.split("\n")
    if out and out[-1] == "":
        out.pop()
    return out if len(out) == len(lines) else None


def gen_conc_exhaustive(rng, stats, budget):
    """Histories of <= 2 writer and <= 2 reader operations behind a sequential warm-up
    (one write + one read, executed in order) that moves the indices to offset 8 or 12;
    all schedules, enumerated by the model (`enum` line of the driver)."""
    hist = []
    for (maxMsg, nmsgs) in [(8, 2), (16, 1), (12, 2), (20, 1), (13, 2)]:
        sizes = [s for s in (8, 12, 16) if s <= maxMsg]
        for warm in ([None] + sizes[:2]):
            for nw in (1, 2):
                for nr in (1, 2):
                    for rep in range(10):
                        chunk = 4 if rep % 3 == 2 else 0
                        ws = [rand_msg(rng, rng.choice(sizes)) for _ in range(nw)]
                        rops = "".join(rng.choice("rrlhk") for _ in range(nr))
                        if "r" not in rops and "l" not in rops and rng.random() < 0.7:
                            rops = rops[:-1] + "r"
                        wtok = [rng.choice("wax") + hx(m) for m in ws]
                        pre = 0
                        if warm is not None:
                            wtok = ["w" + hx(rand_msg(rng, warm))] + wtok
                            rops = "r" + rops
                            pre = 1
                        hist.append((maxMsg, nmsgs, wtok, rops, pre, chunk))
    rng.shuffle(hist)
    enum_lines = []
    for (maxMsg, nmsgs, wtok, rops, pre, chunk) in hist:
        enum_lines.append("enum %d %d %d %s %s 8000 %d" % (maxMsg, nmsgs, chunk, ",".join(wtok), rops, pre))
    res = driver_lines(enum_lines)
    if res is None:
        stats["exhaustive"] = "driver not available: no exhaustive schedules"
        return
    n = 0
    nh = 0
    for h, r in zip(hist, res):
        if r in ("toomany", "bad-op") or not r:
            stats["exhaustive_skipped"] = stats.get("exhaustive_skipped", 0) + 1
            continue
        scheds = r.split(",")
        if n + len(scheds) > budget:
            stats["exhaustive_skipped"] = stats.get("exhaustive_skipped", 0) + 1
            continue
        nh += 1
        for s in scheds:
            n += 1
            yield "conc %d %d %d %s %s %s" % (h[0], h[1], h[5], ",".join(h[2]), h[3], s if s else "-")
    stats["exhaustive_histories"] = nh
    stats["exhaustive_schedules"] = n


TSAN_FLAGS = ["-O1", "-g", "-fsanitize=thread", "-DNDEBUG", "-DRTOSC_VERIF"]


def tsan_soak(lines, stats):
    """Separate -fsanitize=thread build of the harness (+ rtosc.c), run on the soak lines.
    Returns a verdict token per line."""
    repo = vlib.REPO
    build = vlib.BUILD
    os.makedirs(build, exist_ok=True)
    srcs = [os.path.join(vlib.VERIF, "harness", f) for f in ("tlink.cpp", "tl_sched.h", "common.h")]
    key = vlib.sha_files(srcs + vlib.repo_files(), "tsan")
    exe = os.path.join(build, "tsan-tlink-" + key)
    inc = ["-I", os.path.join(repo, "include"), "-I", os.path.join(repo, "src/cpp"), "-I", os.path.join(repo, "src"),
           "-I", os.path.join(vlib.VERIF, "harness")]
    if not os.path.exists(exe):
        for f in os.listdir(build):
            if f.startswith("tsan-tlink-"):
                try:
                    os.remove(os.path.join(build, f))
                except OSError:
                    pass
        obj = os.path.join(build, "tsan-rtosc.o")
        r1 = vlib.sh(["gcc", "-std=gnu99", "-c", os.path.join(repo, "src/rtosc.c"), "-o", obj] + TSAN_FLAGS + inc)
        r2 = vlib.sh(["g++", "-std=c++11"] + TSAN_FLAGS + inc + [srcs[0], obj, "-o", exe + ".tmp", "-lpthread"]) if r1.returncode == 0 else r1
        if r2.returncode != 0:
            stats["tsan"] = "build failed: " + r2.stdout[-300:]
            return ["tsan=unavailable"] * len(lines)
        os.rename(exe + ".tmp", exe)
    verdicts = []
    for ln in lines:
        opf = os.path.join(build, "tsan-%d.ops" % os.getpid())
        with open(opf, "w") as f:
            f.write(ln + "\n")
        env = dict(os.environ, TSAN_OPTIONS="halt_on_error=0:exitcode=66:report_signal_unsafe=0")
        p = subprocess.run(["setarch", "-R", exe, opf], stdout=subprocess.PIPE, stderr=subprocess.PIPE, text=True, env=env)
        if "unexpected memory mapping" in p.stderr or p.returncode == 127:
            p = subprocess.run([exe, opf], stdout=subprocess.PIPE, stderr=subprocess.PIPE, text=True, env=env)
        os.remove(opf)
        if "WARNING: ThreadSanitizer" in p.stderr:
            verdicts.append("tsan=race")
            stats["tsan_report"] = p.stderr[:1500]
        elif p.stdout.strip() == "soak ok" and p.returncode == 0:
            verdicts.append("tsan=clean")
        elif p.stdout.strip().startswith("soak FAIL"):
            verdicts.append("tsan=fifo-failure")
        else:
            verdicts.append("tsan=unavailable")
            stats["tsan"] = "run failed rc=%d: %s" % (p.returncode, p.stderr[-300:])
    return verdicts


def generate(rng, tier, stats):
    stats.update({"seq": 0, "seq_bundle": 0, "conc_random": 0, "soak": 0, "msg_sizes": {}, "ring_sizes": {}, "chunk": {}})
    nseq, nconc = (6000, 25000) if tier == "quick" else (60000, 150000)
    for i in range(nseq):
        b = i % 40 == 7
        stats["seq_bundle" if b else "seq"] += 1
        yield gen_seq(rng, stats, bundles=b)
    for _ in range(nconc):
        stats["conc_random"] += 1
        yield gen_conc_random(rng, stats)
    if tier == "thorough":
        for op in gen_conc_exhaustive(rng, stats, 300000):
            yield op
    soaks = ["soak 32 4 20000 %d" % rng.randint(1, 1000)] if tier == "quick" else \
            ["soak 32 4 400000 %d" % rng.randint(1, 1000), "soak 12 2 200000 %d" % rng.randint(1, 1000),
             "soak 21 3 200000 %d" % rng.randint(1, 1000)]
    verdicts = tsan_soak(soaks, stats) if tier == "thorough" else ["tsan=notrun"] * len(soaks)
    stats["tsan_verdicts"] = verdicts
    for s, v in zip(soaks, verdicts):
        stats["soak"] += 1
        yield s + " " + v


def nontrivial(op):
    """a case says something about the FIFO when something is written *and* something is read"""
    w = op.split()
    if w[0] == "seq":
        ops = w[3:]
        return any(o[0] in "wax" for o in ops) and any(o in ("r", "l") for o in ops)
    if w[0] == "conc":
        return w[4] != "-" and ("r" in w[5] or "l" in w[5])
    return True


# ---------------------------------------------------------------------------------------
# oracle: the property evaluated on the implementation's output by an independent FIFO
# ---------------------------------------------------------------------------------------
def oracle_seq(w, out):
    maxMsg, nmsgs = int(w[1]), int(w[2])
    cap = maxMsg * nmsgs - 1
    q = []
    used = 0
    la = 0
    toks = out.split()
    ops = w[3:]
    if len(toks) != len(ops):
        return "expected %d result tokens, got `%s`" % (len(ops), out[:200])
    for i, (op, t) in enumerate(zip(ops, toks)):
        if op[0] in "wax":
            m = wmsg(op)
            fits = len(m) <= maxMsg and used + len(m) <= cap
            if fits:
                q.append(m)
                used += len(m)
            exp = "a" if fits else "d"
        elif op == "r":
            if q:
                m = q.pop(0)
                used -= len(m)
                exp = "m" + hx(m)
            else:
                exp = "m-"
            la = 0
        elif op == "l":
            if la < len(q):
                exp = "m" + hx(q[la])
                la += 1
            else:
                exp = "m-"
        elif op == "h":
            exp = "1" if q else "0"
        elif op == "k":
            exp = "1" if la < len(q) else "0"
        else:
            return None
        if t != exp:
            return "op %d (%s): a FIFO returns `%s`, implementation `%s`" % (i, op[:40], exp, t)
    return None


def oracle_conc(w, out):
    """Reference FIFO driven by the linearisation points in the implementation's access trace:
    a write is decided where the writer loads `read`, published where it stores `write`; a
    hasNext/read is decided where the reader loads `write`; space is released where the reader
    stores `read`."""
    maxMsg, nmsgs = int(w[1]), int(w[2])
    cap = maxMsg * nmsgs - 1
    parts = out.split()
    if len(parts) != 9 or parts[0] != "T" or parts[2] != "W" or parts[4] != "R" or parts[6] != "D":
        return "malformed output `%s`" % out[:200]
    trace = [] if parts[1] == "-" else parts[1].split(",")
    flags = "" if parts[3] == "-" else parts[3]
    routs = [] if parts[5] == "-" else parts[5].split(",")
    drained = [] if parts[7] == "-" else [unhx(x) for x in parts[7].split(",")]
    wops = [] if w[4] == "-" else w[4].split(",")
    rops = "" if w[5] == "-" else w[5]
    if len(flags) != len(wops):
        return "writer reported %d results for %d operations" % (len(flags), len(wops))
    if len(routs) != len(rops):
        return "reader reported %d results for %d operations" % (len(routs), len(rops))
    # writer operations that touch shared state at all (raw_write of an oversized message does not)
    loud = []
    for i, t in enumerate(wops):
        m = wmsg(t)
        if t[0] == "x" and len(m) > maxMsg:
            if flags[i] != "d":
                return "raw_write %d of a message longer than MaxMsg was accepted" % i
        else:
            loud.append(i)
    wi = -1           # index into loud: current writer op
    ri = -1           # current reader op
    published = []
    acc_bytes = 0     # bytes the writer has accepted
    rel_bytes = 0     # bytes the reader has released
    consumed = 0
    la = 0
    pending_pub = None
    pending_rel = None
    for ev in trace:
        k = ev[:2]
        if k == "lr":
            wi += 1
            if wi >= len(loud) or pending_pub is not None:
                return "unexpected writer access " + ev
            i = loud[wi]
            m = wmsg(wops[i])
            eff = m if len(m) <= maxMsg else b""          # write() encodes into MaxMsg bytes: too long -> nothing
            free = cap - (acc_bytes - rel_bytes)
            fits = len(eff) <= free
            acc = fits and len(eff) > 0
            if (flags[i] == "a") != acc:
                return "write %d (%d bytes, %d bytes free when it looked): %s" % (
                    i, len(m), free, "dropped although it fits" if acc else "accepted although it cannot be")
            if fits:
                pending_pub = eff
                acc_bytes += len(eff)
        elif k == "sw":
            if pending_pub is None:
                return "write index stored outside an accepted write: " + ev
            if pending_pub:
                published.append(pending_pub)
            pending_pub = None
        elif k == "ci":
            pass                           # where the bytes are copied is the implementation's business
        elif k == "lw":
            ri += 1
            if pending_rel is not None:
                return "read %d never stored the read index" % (ri - 1)
            if ri >= len(rops):
                return "unexpected reader access " + ev
            c = rops[ri]
            if c == "h":
                exp = "h1" if len(published) > consumed else "h0"
            elif c == "k":
                exp = "k1" if len(published) > la else "k0"
            elif c == "r":
                if len(published) > consumed:
                    exp = "r" + hx(published[consumed])
                    pending_rel = len(published[consumed])
                    consumed += 1
                else:
                    exp = "r-"
                    pending_rel = 0
                la = consumed
            else:
                if len(published) > la:
                    exp = "l" + hx(published[la])
                    la += 1
                else:
                    exp = "l-"
            if routs[ri] != exp:
                return "reader op %d (%s) with %d messages published when it looked: a FIFO gives %s, implementation %s" % (
                    ri, c, len(published), exp, routs[ri])
        elif k == "sr":
            if ri < 0 or rops[ri] != "r":
                return "read index stored outside a read: " + ev
            if pending_rel is not None:    # the first store of the read index releases the space
                rel_bytes += pending_rel
                pending_rel = None
        elif k in ("fr", "co"):
            pass
        else:
            return "unknown trace event " + ev
    if pending_pub is not None or pending_rel is not None:
        return "an operation did not complete"
    if wi != len(loud) - 1 or ri != len(rops) - 1:
        return "operations without shared accesses: writer %d/%d reader %d/%d" % (wi + 1, len(loud), ri + 1, len(rops))
    if drained != published[consumed:]:
        return "after the run the queue holds %s, a FIFO holds %s" % (
            [hx(x) for x in drained], [hx(x) for x in published[consumed:]])
    return None


def oracle(op, out):
    w = op.split()
    if out.startswith("crash"):
        return "implementation crashed: " + out
    if w[0] == "seq":
        return oracle_seq(w, out)
    if w[0] == "conc":
        return oracle_conc(w, out)
    if w[0] == "soak":
        if out != "soak ok":
            return "two free-running threads: " + out
        if any(t.startswith("tsan=race") or t.startswith("tsan=fifo") for t in w[5:]):
            return "ThreadSanitizer build of the soak: " + " ".join(w[5:])
        return None
    return None


# ---------------------------------------------------------------------------------------
# known finding C06-K5: bundles are not self-delimiting inside the ring
# ---------------------------------------------------------------------------------------
def has_bundle(op):
    """trigger predicate (Lean: Rtosc.Ring.HasBundle): some raw_write block starts with `#bundle\\0`"""
    w = op.split()
    toks = w[3:] if w[0] == "seq" else (w[4].split(",") if w[0] == "conc" and w[4] != "-" else [])
    return any(t[0] == "x" and is_bundle(unhx(t[1:])) for t in toks)


def known(op, impl_out, model_out, defs):
    if not has_bundle(op) or impl_out.startswith("crash"):
        return None
    if model_out is None:                     # search phase of the runner: ask the (defect-mirroring) model here
        r = driver_lines([op])
        model_out = r[0] if r else None
    for d in defs:
        if d.get("id") == "C06-K5" and has_bundle(op) and model_out is not None and impl_out == model_out \
                and not impl_out.startswith("crash"):
            return "C06-K5"
    return None


def neighbours(op, rng):
    w = op.split()
    if w[0] != "conc":
        return
    # same history, other schedules
    for _ in range(300):
        n = rng.randint(0, 80)
        yield " ".join(w[:6] + ["".join(rng.choice("wr") for _ in range(n)) or "-"])
