"""C06 — ThreadLink is a lossless FIFO between two threads under every interleaving."""
import os
import struct
import subprocess
import sys

sys.path.insert(0, os.path.dirname(os.path.dirname(os.path.abspath(__file__))))
import vlib  # noqa: E402

PROP = "C06"
ENGINE = "tlink"
LEAN_MODULES = ["RtoscModel.Props.C06"]
THEOREMS = [
    "Rtosc.Ring.seq_refines_queue", "Rtosc.Ring.drop_whole", "Rtosc.Ring.lookahead_replays",
    "Rtosc.Ring.read_resyncs_lookahead",
    "Rtosc.Ring.conc_inv", "Rtosc.Ring.conc_drf", "Rtosc.Ring.conc_fifo", "Rtosc.Ring.conc_lossless",
    "Rtosc.Ring.hasNext_exact", "Rtosc.Ring.conc_accept_exact", "Rtosc.Ring.conc_publish",
    # lookahead reads / hasNextLookahead under every interleaving (review A3)
    "Rtosc.Ring.conc_cursor_is_queue", "Rtosc.Ring.conc_lookahead_fifo", "Rtosc.Ring.hasNext_exact_cursor",
    "Rtosc.Ring.hasNextLookahead_exact", "Rtosc.Ring.conc_read_exact", "Rtosc.Ring.conc_quiescent_queue",
    # the same, instantiated with the model of rtosc_message_ring_length (C01) on encoded OSC messages
    "Rtosc.Ring.framing_osc", "Rtosc.Ring.rawLen_msg", "Rtosc.Ring.seq_refines_queue_osc", "Rtosc.Ring.drop_whole_osc",
    "Rtosc.Ring.conc_inv_osc", "Rtosc.Ring.conc_drf_osc", "Rtosc.Ring.conc_fifo_osc", "Rtosc.Ring.conc_lossless_osc",
    "Rtosc.Ring.hasNext_exact_osc", "Rtosc.Ring.conc_accept_exact_osc",
    "Rtosc.Ring.conc_cursor_is_queue_osc", "Rtosc.Ring.conc_lookahead_fifo_osc", "Rtosc.Ring.hasNext_exact_cursor_osc",
    "Rtosc.Ring.hasNextLookahead_exact_osc", "Rtosc.Ring.conc_read_exact_osc", "Rtosc.Ring.conc_quiescent_queue_osc",
    "Rtosc.Ring.bundle_not_self_delimiting_counterexample",
    # raw_write's rtosc_message_length(msg,-1) returns on every block (former finding C06-K6,
    # fixes/C06-bundle-length-wrap.patch)
    "Rtosc.Ring.rawLen_terminates", "Rtosc.Ring.rawLen_bundle_terminates", "Rtosc.Ring.rawLen_bundle_inside",
    "Rtosc.Ring.raw_write_returns", "Rtosc.Ring.raw_write_wrapping_bundle_dropped",
]
HARNESS = {"src": ["tlink.cpp"], "exclude": ["src/cpp/thread-link.cpp"], "deps": ["common.h", "tl_sched.h"]}
STATELESS = True
RULE = ("four streams. seq (quick 5500 / thorough 55000): random operation histories of 5..40 ops (write / writeArray / "
        "raw_write of a caller-owned block / the in-place idiom rtosc_amessage(buffer(), buffer_size(), ..) + "
        "raw_write(buffer()), of valid OSC messages of 8 bytes up to MaxMsg with all argument types, ~12% longer than "
        "MaxMsg; read, read_lookahead, hasNext, hasNextLookahead; 1 in 40 histories also raw_writes bundles, finding "
        "C06-K5) on rings of 16..128 bytes including sizes that are not multiples of 4 (18, 26, 30, 33, 63) and, 6%, "
        "rings of 256..3072 bytes (64x8, 100x7, 256x5, 1024x3, 48x11, 128x2, 255x3). fill (quick 500 / thorough 5000): "
        "directed histories that steer the number of queued bytes to a boundary - every multiple of 256 the ring can "
        "hold, 65536 on a 71680-byte ring (1024x70; quick 1 / thorough 3 lines), the capacity, one word short of it - "
        "after rotating the ring, and ask hasNext / hasNextLookahead / lookahead reads / one more write there. wrap "
        "(quick 6 / thorough 24): raw_write of a bundle whose element sizes would lead the 32-bit position round in a "
        "circle (one size 0xfffffffc; sizes adding up to 2^32-8): length 0 since fixes/C06-bundle-length-wrap.patch, "
        "the block is dropped and the line must finish (former finding C06-K6). conc (quick 25000 / thorough 150000): writer history (1..5 ops, all four kinds) x reader "
        "history (1..8 ops) x memcpy chunk size (whole, 1, 2, 3, 4, 5, 8 bytes; 7, 16, 64 on the bigger rings) x random "
        "schedule (thread choice at every shared access, biased and bursty); thorough additionally *every* schedule, "
        "enumerated by the model, of ~550 histories with <= 2 writer and <= 2 reader operations behind a sequential "
        "warm-up write+read that rotates the ring (16..26-byte rings, whole memcpy and 4-byte chunks; ~10^5 schedules), "
        "so that full, empty and wrap-around states occur under all interleavings. In every line each side also "
        "operates a second, live ThreadLink (write + read, result checked) at every ring copy and framing step of the "
        "link under test. soak: two free-running threads (plus their decoy links), quick 2*10^4 messages on a 128-byte "
        "ring and 4*10^3 on a 71680-byte ring, thorough 10^5..4*10^5 messages on five rings; every soak line is also run "
        "in a separate -fsanitize=thread build, in both tiers. The memory order of every index access made inside an "
        "operation is recorded and anything weaker than release (stores) / acquire (loads of the other side's index) "
        "fails the line. non-trivial = something is written and something is read; distinct = distinct op line")
ASSUMPTIONS = [
    "one writer thread and one reader thread (the documented use); the index variables are atomics accessed with seq_cst "
    "(as in the unchanged source; the harness fails any line on which a store of write/read is weaker than release or a "
    "load of the other thread's index weaker than acquire), so an interleaving of shared accesses is a faithful "
    "execution model once data-race freedom of the plain ring bytes is proved (C++11 DRF-SC, trusted)",
    "everything written is an OSC *message*: the encoding (C01 Spec.encode) of a well-formed message whose address does "
    "not start with '#' (IsOscMsg). For these, Framing is proved of the model of rtosc_message_ring_length "
    "(framing_osc, from C01 ringLength_encode) and raw_write's rtosc_message_length(msg,-1) is proved to return the "
    "same length (rawLen_msg); bundles sent through raw_write are outside the FIFO theorems (finding C06-K5); that "
    "raw_write returns is proved for every block shorter than 2^32 bytes and every bundle, whatever it holds "
    "(rawLen_terminates, rawLen_bundle_terminates, raw_write_returns; fixes/C06-bundle-length-wrap.patch, former "
    "finding C06-K6)",
    "ring size >= 1 byte (max_messages >= 1, MaxMsg >= 1); build with NDEBUG (default build type): the asserts are no code",
    "raw_write drops messages longer than MaxMsg (fixes/C06-rawwrite-maxmsg.patch, F6); buffer_size() is the size of "
    "buffer() (fixes/C06-buffer-size.patch, F7)",
]
TRUSTED = [
    "hand-written models RtoscModel/Ring/{Seq,Conc}.lean of ring_read_size, ring_write_size, ring_write, ring_read, "
    "ring_read_vector, ThreadLink::{write,writeArray,raw_write,hasNext,read}; the framing functions are C01's/C08's "
    "models RtoscModel/Osc/{Length,Bundle}.lean of rtosc_message_ring_length and rtosc_message_length(msg,-1) "
    "(Ring/Frame.lean only names them); the two-thread model uses one function for both, which the driver checks to "
    "agree on every raw_write block it runs",
    "harness/tl_sched.h: redefinition of std::atomic / memcpy / memmove / std::copy / rtosc_message_ring_length while "
    "compiling the unmodified thread-link.cpp into the harness; loads of a thread's own index and accesses to "
    "read_lookahead are treated as thread-local (no scheduling point); a ring copy written as a plain byte loop is not "
    "seen (the access trace then differs from the model's: reported as a correspondence break, the FIFO oracle still "
    "judges the outputs); the harness reads the private ring indices to tell accepted from dropped writes and the "
    "length of a returned message, and identifies write/read/read_lookahead by their construction order",
    "the in-place idiom (`b` tokens) hands raw_write the write_buffer, i.e. the message followed by stale bytes; the "
    "model runs raw_write on the message alone, which is the same for OSC messages by Framing.msg / rawLen_msg",
    "C++11 DRF-SC theorem; hardware memory model (supporting evidence only: TSan soak in both tiers). For a tree that "
    "uses release/acquire instead of seq_cst the interleaving model is an approximation the proofs do not cover",
]
TECHNIQUE = "Lean 4 proofs over a two-thread transition system + scheduled correspondence with the real code"
LEVEL_TEXT = ("Lean theorems, stated for an abstract framing function and instantiated with the model of "
              "rtosc_message_ring_length on encoded OSC messages (framing_osc, *_osc): the sequential model refines a "
              "bounded FIFO with lookahead cursor for every operation history (acceptance iff the message fits, dropped "
              "whole, lookahead replays without consuming, a read resynchronises it); the two-thread model (one step per "
              "shared access, any memcpy chunking) keeps the ring invariant, is free of data races on ring bytes, returns "
              "exactly the published messages in order, accepts a write iff it fits at the moment the writer loads the "
              "read index (conc_accept_exact) and publishes exactly the accepted bytes, and answers hasNext exactly, for "
              "every interleaving of every history (induction over steps, no bound). Lookahead under concurrency: the "
              "lookahead offset of every reachable state is the ring offset of the FIFO's lookahead cursor computed from "
              "the reader's own results (the cursor arithmetic of the abstract queue, conc_cursor_is_queue); every "
              "completed read or read_lookahead that returned a message returned the published message at its cursor "
              "(conc_lookahead_fifo); read and read_lookahead return, whatever both threads do until they complete, the "
              "message that was published at their cursor when they loaded the write index, and nothing exactly when the "
              "cursor was at the end of the published messages at that load (conc_read_exact); hasNext and "
              "hasNextLookahead answer exactly 'a published message lies at the cursor' at their load "
              "(hasNext_exact_cursor, hasNextLookahead_exact); a state with both threads between operations is a "
              "sequential ThreadLink that refines the bounded FIFO holding the unconsumed published messages with that "
              "lookahead cursor, for any further history (conc_quiescent_queue). For arbitrary payloads (any block "
              "shorter than 2^32 bytes, any bundle): raw_write's rtosc_message_length(msg,-1) returns, so every "
              "operation of the sequential model returns unless the length walk reads behind the block it was handed "
              "(rawLen_terminates, rawLen_bundle_terminates, raw_write_returns; fixes/C06-bundle-length-wrap.patch). "
              "The models are compared with the "
              "compiled thread-link.cpp under a deterministic scheduler (same schedule on both sides, access traces and "
              "outputs equal) and an independent FIFO reference, keyed on explicit operation begin/end markers, is "
              "evaluated on the implementation's outputs")
LEVEL_NOTE = ("memory-model effects below seq_cst/DRF-SC are outside the model (orders are checked by the harness, TSan soak "
              "as supporting evidence). The concurrent read/lookahead theorems are safety statements: they say what a "
              "read, read_lookahead, hasNext or hasNextLookahead returns when it completes (determined at its load of the "
              "write index), not that it completes (no progress theorem is stated). The concurrent theorems are per linearisation point; a single "
              "refinement theorem 'every interleaved run is a run of the bounded FIFO under some linearisation order of "
              "all operations' is not stated as such. A pure difference in the access trace with identical "
              "results (e.g. an extra load of an index) is reported as a correspondence break "
              "(no-failing-input-found), not as a failing input")


# ---------------------------------------------------------------------------------------
# OSC messages
# ---------------------------------------------------------------------------------------
def pad(b):
    return b + b"\0" * (4 - len(b) % 4)


def hx(b):
    return b.hex() if b else "-"


def unhx(s):
    return b"" if s == "-" else bytes.fromhex(s)


LETTERS = b"abcxyz/0"


def rand_args(rng, tags_pool=b"iiifsbhTFcSdNmtrI", ntags=None):
    ntags = rng.choice([0, 1, 1, 1, 2, 2, 3]) if ntags is None else ntags
    tags = b""
    args = b""
    for _ in range(ntags):
        t = rng.choice(tags_pool)
        tags += bytes([t])
        if t in b"ifcrm":
            args += struct.pack(">I", rng.choice([0, 1, 42, 0x2c000000, 0x2f610000, 0xffffffff, rng.getrandbits(32)]))
        elif t in b"htd":
            args += struct.pack(">Q", rng.choice([0, 7, rng.getrandbits(64)]))
        elif t in b"sS":
            args += pad(bytes(rng.choice(b"ab,/#") for _ in range(rng.randint(0, 6))))
        elif t == ord("b"):
            n = rng.randint(0, 9)
            blob = bytes(rng.choice([0, 0x2c, 0x2f, 1, 255]) for _ in range(n))
            args += struct.pack(">I", n) + blob + b"\0" * ((4 - n % 4) % 4)
    return tags, args


def rand_msg(rng, target=None):
    """A valid OSC message; `target`: aim at this many bytes (multiple of 4, >= 8)."""
    if target is not None and target > 44:
        # path, a few random arguments, and one filler argument (blob or string) that makes up the size
        for _ in range(20):
            plen = rng.choice([1, 2, 3, 4, 5, 7, 8, 11, 12, 30])
            path = b"/" + bytes(rng.choice(LETTERS[:6]) for _ in range(plen - 1))
            tags, args = rand_args(rng, ntags=rng.choice([0, 0, 1, 2]))
            fill = rng.choice(b"bbs")
            front = rng.random() < 0.5
            tags2 = (bytes([fill]) + tags) if front else (tags + bytes([fill]))
            rest = target - len(pad(path)) - len(pad(b"," + tags2)) - len(args)
            if fill == ord("b"):
                if rest < 4:
                    continue
                n = rest - 4 - rng.randint(0, 3)
                if n < 0:
                    n = rest - 4
                body = bytes(rng.choice([0, 0x2c, 0x2f, 0x23, 1, 255, rng.randrange(256)]) for _ in range(n))
                f = struct.pack(">I", n) + body + b"\0" * ((4 - n % 4) % 4)
            else:
                if rest < 4:
                    continue
                n = rest - rng.randint(1, 4)
                f = pad(bytes(rng.choice(b"ab,/#xyz") for _ in range(n)))
            m = pad(path) + pad(b"," + tags2) + (f + args if front else args + f)
            if len(m) == target:
                return m
    for _ in range(50):
        plen = rng.choice([1, 1, 2, 3, 4, 5, 7, 8, 11])
        if target is not None and target <= 12:
            plen = rng.randint(1, 3) if target == 8 else rng.choice([1, 2, 3, 4, 5, 6, 7])
        path = b"/" + bytes(rng.choice(LETTERS[:6]) for _ in range(plen - 1))
        tags, args = rand_args(rng)
        m = pad(path) + pad(b"," + tags) + args
        if target is None or len(m) == target:
            return m
    # fall back: path-only message of the wanted size
    n = max(8, target or 8)
    return pad(b"/" + b"a" * (n - 8)) + b",\0\0\0"


def bundle_block(rng):
    """#bundle, timetag, one or two elements; 4 trailing zero bytes so that
    rtosc_message_length(msg,-1) stays inside the block."""
    out = b"#bundle\0" + b"\0" * 8
    for _ in range(rng.randint(1, 2)):
        m = rand_msg(rng, rng.choice([8, 12]))
        out += struct.pack(">I", len(m)) + m
    return out + b"\0" * 4


def is_bundle(b):
    return b.startswith(b"#bundle\0")


def no_packet(b):
    """a block that starts with `#bundle\\0` but is no OSC bundle: following the element sizes (plain integers, no
    32-bit arithmetic) some element does not end inside the block, or no terminating zero word is reached.  Such a
    block holds no message; `rtosc_message_length` reports 0 for it ("no full message present") and raw_write must
    return without queueing anything (former finding C06-K6: it did not return)."""
    if not is_bundle(b):
        return False
    pos = 16
    while True:
        if pos + 4 > len(b):
            return True
        adv = struct.unpack(">I", b[pos:pos + 4])[0]
        if adv == 0:
            return False
        if pos + 4 + adv > len(b):
            return True
        pos += 4 + adv


def wmsg(tok):
    """the message a writer token stands for (bundle blocks carry 4 extra zero bytes)"""
    m = unhx(tok[1:])
    if tok[0] == "x" and is_bundle(m):
        return m[:-4]
    return m


# ---------------------------------------------------------------------------------------
# generators
# ---------------------------------------------------------------------------------------
RINGS = [(8, 2), (16, 1), (8, 3), (12, 2), (13, 2), (16, 2), (10, 3), (20, 2), (16, 3), (32, 2), (21, 3), (16, 4),
         (32, 4), (9, 2), (24, 1), (11, 3)]
# rings beyond 255 / 65535 bytes: byte counts that do not fit a narrower integer type
BIG_RINGS = [(64, 8), (100, 7), (256, 5), (1024, 3), (48, 11), (128, 2), (255, 3)]
HUGE_RING = (1024, 70)


def msg_for_ring(rng, maxMsg, oversize_p=0.12):
    sizes = [s for s in range(8, maxMsg + 1, 4)] or [8]
    if rng.random() < oversize_p:
        return rand_msg(rng, (maxMsg // 4 + 1) * 4 + rng.choice([0, 0, 4, 8]))
    # favour small messages on small rings, but hit MaxMsg exactly now and then
    if rng.random() < 0.15:
        return rand_msg(rng, maxMsg - maxMsg % 4)
    if maxMsg > 48 and rng.random() < 0.5:
        return rand_msg(rng, rng.choice(sizes))
    return rand_msg(rng, rng.choice(sizes[:4]))


def wtoken(rng, m):
    # w write(), a writeArray(), x raw_write(block), b compose in buffer() + raw_write(buffer())
    return rng.choice("wwaxxb") + hx(m)


def gen_seq(rng, stats, bundles=False):
    maxMsg, nmsgs = rng.choice(BIG_RINGS) if (not bundles and rng.random() < 0.06) else rng.choice(RINGS)
    n = rng.randint(5, 40)
    ops = []
    pw = rng.choice([0.3, 0.45, 0.6])
    for _ in range(n):
        r = rng.random()
        if r < pw:
            if bundles and rng.random() < 0.3:
                ops.append("x" + hx(bundle_block(rng)))
            else:
                m = msg_for_ring(rng, maxMsg)
                stats["msg_sizes"][str(len(m))] = stats["msg_sizes"].get(str(len(m)), 0) + 1
                ops.append(wtoken(rng, m))
        else:
            ops.append(rng.choice("rrrllhhk"))
    stats["ring_sizes"][str(maxMsg * nmsgs)] = stats["ring_sizes"].get(str(maxMsg * nmsgs), 0) + 1
    return "seq %d %d %s" % (maxMsg, nmsgs, " ".join(ops))


def split_sizes(rng, total, maxMsg):
    """message sizes (multiples of 4, 8..maxMsg) that add up to `total`, or None"""
    top = maxMsg - maxMsg % 4
    if total % 4 or total < 8 or top < 8:
        return None
    out = []
    left = total
    while left > 0:
        if left <= top and (left >= 8):
            if left >= 16 and rng.random() < 0.6:
                k = rng.randrange(8, min(top, left - 8) + 1, 4)
            else:
                k = left
        else:
            k = rng.randrange(8, top + 1, 4) if rng.random() < 0.5 else top
            if left - k < 8 and left - k != 0:
                k = left - 8
                if k < 8 or k > top:
                    return None
        out.append(k)
        left -= k
    return out


def gen_seq_fill(rng, stats, ring=None):
    """Directed history: the number of queued bytes is steered to a boundary value - a multiple of
    256 or of 65536 (a byte count that a narrower integer type would truncate to 0), the capacity
    of the ring, one message short of it - with hasNext/hasNextLookahead/lookahead reads asked
    there; the ring is rotated first so that the boundary is also met in the wrapped state."""
    maxMsg, nmsgs = ring or rng.choice(BIG_RINGS + [(32, 8), (64, 4), (16, 16), (128, 4)])
    N = maxMsg * nmsgs
    cap = N - 1
    targets = [t for t in range(256, cap + 1, 256)]
    if cap >= 65536:
        targets = [65536] * 3 + targets[:4]
    targets += [cap - cap % 4, cap - cap % 4 - 4]
    ops = []
    # rotate
    for _ in range(rng.choice([0, 1, 1, 2, 3])):
        ops.append(wtoken(rng, rand_msg(rng, rng.randrange(8, maxMsg - maxMsg % 4 + 1, 4))))
        ops.append("r")
    used = 0
    for _ in range(rng.choice([1, 1, 2, 3])):
        t = rng.choice(targets)
        if t <= used:
            # read down to below the target first
            ops.extend(["r"] * rng.randint(1, 6))
            break
        sizes = split_sizes(rng, t - used, maxMsg)
        if not sizes:
            break
        for k in sizes:
            ops.append(wtoken(rng, rand_msg(rng, k)))
        used = t
        ops.extend(rng.choice([["h", "k"], ["h", "k", "l", "k"], ["k", "h", "l"], ["h"]]))
        if rng.random() < 0.5:
            ops.append(wtoken(rng, rand_msg(rng, rng.choice([8, 12, 16]))))    # one more: fits / does not fit
            ops.extend(["h", "k"])
        if rng.random() < 0.4:
            ops.extend(["r", "h", "k"])
            used = -1      # unknown from here on (the extra write may or may not have been accepted)
            break
    ops.extend(rng.choice([["r", "h"], ["l", "l", "r", "k", "h"], []]))
    stats["fill"] = stats.get("fill", 0) + 1
    stats["ring_sizes"][str(N)] = stats["ring_sizes"].get(str(N), 0) + 1
    return "seq %d %d %s" % (maxMsg, nmsgs, " ".join(ops))


def wrap_block(rng):
    """former finding C06-K6 (fixes/C06-bundle-length-wrap.patch): a bundle whose chain of element sizes led
    `unsigned pos` back to a position it had already visited (one element of size 0xfffffffc, or two elements whose
    sizes add up to 2^32 - 8): raw_write never returned.  Repaired: length 0, the block is dropped."""
    head = b"#bundle\0" + b"\0" * 8
    if rng.random() < 0.5:
        # 0xffffffec is the smallest size whose end 16 + 4 + size is no 32-bit position
        size = rng.choice([0xfffffffc, 0xfffffffc, 0xffffffec, 0xffffffff, rng.randint(0xffffffec, 0xffffffff)])
        body = struct.pack(">I", size) + rand_msg(rng, rng.choice([8, 12]))
    else:
        m = rand_msg(rng, rng.choice([8, 12]))
        body = struct.pack(">I", len(m)) + m + struct.pack(">I", (1 << 32) - 8 - len(m)) + rand_msg(rng, 8)
    return head + body + b"\0" * 4


def gen_seq_wrap(rng, stats):
    maxMsg, nmsgs = rng.choice([(32, 2), (48, 2), (64, 4)])
    ops = []
    for _ in range(rng.randint(0, 3)):
        ops.append(wtoken(rng, msg_for_ring(rng, maxMsg, 0)))
        ops.append(rng.choice("rlh"))
    ops.append("x" + hx(wrap_block(rng)))
    ops.extend(["h", "r"])
    stats["seq_wrap"] = stats.get("seq_wrap", 0) + 1
    return "seq %d %d %s" % (maxMsg, nmsgs, " ".join(ops))


SMALL_RINGS = [(8, 2), (16, 1), (12, 2), (13, 2), (8, 3), (10, 2), (9, 2), (20, 1), (16, 2), (11, 2)]


def gen_conc_random(rng, stats):
    x = rng.random()
    maxMsg, nmsgs = rng.choice(SMALL_RINGS if x < 0.68 else (RINGS if x < 0.97 else BIG_RINGS))
    chunk = rng.choice([0, 0, 1, 2, 3, 4, 5, 8]) if maxMsg <= 32 else rng.choice([0, 0, 7, 16, 64])
    nw = rng.randint(1, 5)
    nr = rng.randint(1, 8)
    wops = [wtoken(rng, msg_for_ring(rng, maxMsg, 0.08)) for _ in range(nw)]
    rops = "".join(rng.choice("rrrrlhhk") for _ in range(nr))
    # schedule: random walk with a random bias and random burst lengths
    bias = rng.choice([0.5, 0.5, 0.3, 0.7, 0.15, 0.85])
    sched = []
    total = rng.randint(0, 30 + 14 * (nw + nr))
    while len(sched) < total:
        t = "w" if rng.random() < bias else "r"
        sched.extend(t * rng.choice([1, 1, 1, 2, 3, 6]))
    stats["chunk"][str(chunk)] = stats["chunk"].get(str(chunk), 0) + 1
    stats["ring_sizes"][str(maxMsg * nmsgs)] = stats["ring_sizes"].get(str(maxMsg * nmsgs), 0) + 1
    return "conc %d %d %d %s %s %s" % (maxMsg, nmsgs, chunk, ",".join(wops), rops, "".join(sched) or "-")


def driver_lines(lines):
    exe = vlib.driver_path(ENGINE)
    if not os.path.exists(exe):
        return None
    p = subprocess.run([exe], input="\n".join(lines) + "\n", stdout=subprocess.PIPE, stderr=subprocess.PIPE, text=True)
    if p.returncode != 0:
        return None
    out = p.stdout.split("\n")
    if out and out[-1] == "":
        out.pop()
    return out if len(out) == len(lines) else None


def gen_conc_exhaustive(rng, stats, budget):
    """Histories of <= 2 writer and <= 2 reader operations behind a sequential warm-up
    (one write + one read, executed in order) that moves the indices to offset 8 or 12;
    all schedules, enumerated by the model (`enum` line of the driver)."""
    hist = []
    for (maxMsg, nmsgs) in [(8, 2), (16, 1), (12, 2), (20, 1), (13, 2)]:
        sizes = [s for s in (8, 12, 16) if s <= maxMsg]
        for warm in ([None] + sizes[:2]):
            for nw in (1, 2):
                for nr in (1, 2):
                    for rep in range(10):
                        chunk = 4 if rep % 3 == 2 else 0
                        ws = [rand_msg(rng, rng.choice(sizes)) for _ in range(nw)]
                        rops = "".join(rng.choice("rrlhk") for _ in range(nr))
                        if "r" not in rops and "l" not in rops and rng.random() < 0.7:
                            rops = rops[:-1] + "r"
                        wtok = [rng.choice("waxb") + hx(m) for m in ws]
                        pre = 0
                        if warm is not None:
                            wtok = ["w" + hx(rand_msg(rng, warm))] + wtok
                            rops = "r" + rops
                            pre = 1
                        hist.append((maxMsg, nmsgs, wtok, rops, pre, chunk))
    rng.shuffle(hist)
    enum_lines = []
    for (maxMsg, nmsgs, wtok, rops, pre, chunk) in hist:
        enum_lines.append("enum %d %d %d %s %s 8000 %d" % (maxMsg, nmsgs, chunk, ",".join(wtok), rops, pre))
    res = driver_lines(enum_lines)
    if res is None:
        stats["exhaustive"] = "driver not available: no exhaustive schedules"
        return
    n = 0
    nh = 0
    for h, r in zip(hist, res):
        if r in ("toomany", "bad-op") or not r:
            stats["exhaustive_skipped"] = stats.get("exhaustive_skipped", 0) + 1
            continue
        scheds = r.split(",")
        if n + len(scheds) > budget:
            stats["exhaustive_skipped"] = stats.get("exhaustive_skipped", 0) + 1
            continue
        nh += 1
        for s in scheds:
            n += 1
            yield "conc %d %d %d %s %s %s" % (h[0], h[1], h[5], ",".join(h[2]), h[3], s if s else "-")
    stats["exhaustive_histories"] = nh
    stats["exhaustive_schedules"] = n


TSAN_FLAGS = ["-O1", "-g", "-fsanitize=thread", "-DNDEBUG", "-DRTOSC_VERIF"]


def tsan_soak(lines, stats):
    """Separate -fsanitize=thread build of the harness (+ rtosc.c), run on the soak lines.
    Returns a verdict token per line."""
    repo = vlib.REPO
    build = vlib.BUILD
    os.makedirs(build, exist_ok=True)
    srcs = [os.path.join(vlib.VERIF, "harness", f) for f in ("tlink.cpp", "tl_sched.h", "common.h")]
    key = vlib.sha_files(srcs + vlib.repo_files(), "tsan")
    exe = os.path.join(build, "tsan-tlink-" + key)
    inc = ["-I", os.path.join(repo, "include"), "-I", os.path.join(repo, "src/cpp"), "-I", os.path.join(repo, "src"),
           "-I", os.path.join(vlib.VERIF, "harness")]
    if not os.path.exists(exe):
        for f in os.listdir(build):
            if f.startswith("tsan-tlink-"):
                try:
                    os.remove(os.path.join(build, f))
                except OSError:
                    pass
        obj = os.path.join(build, "tsan-rtosc.o")
        r1 = vlib.sh(["gcc", "-std=gnu99", "-c", os.path.join(repo, "src/rtosc.c"), "-o", obj] + TSAN_FLAGS + inc)
        r2 = vlib.sh(["g++", "-std=c++11"] + TSAN_FLAGS + inc + [srcs[0], obj, "-o", exe + ".tmp", "-lpthread"]) if r1.returncode == 0 else r1
        if r2.returncode != 0:
            stats["tsan"] = "build failed: " + r2.stdout[-300:]
            return ["tsan=unavailable"] * len(lines)
        os.rename(exe + ".tmp", exe)
    verdicts = []
    for ln in lines:
        opf = os.path.join(build, "tsan-%d.ops" % os.getpid())
        with open(opf, "w") as f:
            f.write(ln + "\n")
        env = dict(os.environ, TSAN_OPTIONS="halt_on_error=0:exitcode=66:report_signal_unsafe=0")
        p = subprocess.run(["setarch", "-R", exe, opf], stdout=subprocess.PIPE, stderr=subprocess.PIPE, text=True, env=env)
        if "unexpected memory mapping" in p.stderr or p.returncode == 127:
            p = subprocess.run([exe, opf], stdout=subprocess.PIPE, stderr=subprocess.PIPE, text=True, env=env)
        os.remove(opf)
        if "WARNING: ThreadSanitizer" in p.stderr:
            verdicts.append("tsan=race")
            stats["tsan_report"] = p.stderr[:1500]
        elif p.stdout.strip().startswith("soak ok") and p.returncode == 0:
            verdicts.append("tsan=clean")
        elif p.stdout.strip().startswith("soak FAIL"):
            verdicts.append("tsan=fifo-failure")
        else:
            verdicts.append("tsan=unavailable")
            stats["tsan"] = "run failed rc=%d: %s" % (p.returncode, p.stderr[-300:])
    return verdicts


_GEN_CALLS = 0


def generate(rng, tier, stats):
    stats.update({"seq": 0, "seq_bundle": 0, "conc_random": 0, "soak": 0, "msg_sizes": {}, "ring_sizes": {}, "chunk": {}})
    nseq, nconc = (6000, 25000) if tier == "quick" else (60000, 150000)
    for i in range(nseq):
        b = i % 40 == 7
        if i % 12 == 5:
            yield gen_seq_fill(rng, stats)
            continue
        stats["seq_bundle" if b else "seq"] += 1
        yield gen_seq(rng, stats, bundles=b)
    for _ in range(1 if tier == "quick" else 3):
        yield gen_seq_fill(rng, stats, ring=HUGE_RING)
    for _ in range(6 if tier == "quick" else 24):
        yield gen_seq_wrap(rng, stats)
    for _ in range(nconc):
        stats["conc_random"] += 1
        yield gen_conc_random(rng, stats)
    if tier == "thorough":
        for op in gen_conc_exhaustive(rng, stats, 300000):
            yield op
    # two free-running threads; every soak line is also run in the -fsanitize=thread build (both tiers)
    soaks = ["soak 32 4 20000 %d" % rng.randint(1, 1000), "soak 1024 70 4000 %d" % rng.randint(1, 1000)] \
        if tier == "quick" else \
            ["soak 32 4 400000 %d" % rng.randint(1, 1000), "soak 12 2 200000 %d" % rng.randint(1, 1000),
             "soak 21 3 200000 %d" % rng.randint(1, 1000), "soak 1024 70 100000 %d" % rng.randint(1, 1000),
             "soak 100 7 100000 %d" % rng.randint(1, 1000)]
    global _GEN_CALLS
    _GEN_CALLS += 1
    if _GEN_CALLS > 1:          # the runner's search phase: the race detector has had its say in the main phase
        verdicts = ["tsan=notrun"] * len(soaks)
    else:
        verdicts = tsan_soak(soaks, stats)
    stats["tsan_verdicts"] = verdicts
    for s, v in zip(soaks, verdicts):
        stats["soak"] += 1
        yield s + " " + v


def nontrivial(op):
    """a case says something about the FIFO when something is written *and* something is read"""
    w = op.split()
    if w[0] == "seq":
        ops = w[3:]
        return any(o[0] in "wax" for o in ops) and any(o in ("r", "l") for o in ops)
    if w[0] == "conc":
        return w[4] != "-" and ("r" in w[5] or "l" in w[5])
    return True


# ---------------------------------------------------------------------------------------
# oracle: the property evaluated on the implementation's output by an independent FIFO
# ---------------------------------------------------------------------------------------
def oracle_seq(w, out):
    maxMsg, nmsgs = int(w[1]), int(w[2])
    cap = maxMsg * nmsgs - 1
    q = []
    used = 0
    la = 0
    toks = out.split()
    ops = w[3:]
    if len(toks) != len(ops):
        return "expected %d result tokens, got `%s`" % (len(ops), out[:200])
    for i, (op, t) in enumerate(zip(ops, toks)):
        if op[0] in "wax":
            m = wmsg(op)
            fits = len(m) <= maxMsg and used + len(m) <= cap
            if op[0] == "x" and no_packet(unhx(op[1:])):
                fits = False                  # not a message: nothing may be queued (and the call has to return)
            if fits:
                q.append(m)
                used += len(m)
            exp = "a" if fits else "d"
        elif op == "r":
            if q:
                m = q.pop(0)
                used -= len(m)
                exp = "m" + hx(m)
            else:
                exp = "m-"
            la = 0
        elif op == "l":
            if la < len(q):
                exp = "m" + hx(q[la])
                la += 1
            else:
                exp = "m-"
        elif op == "h":
            exp = "1" if q else "0"
        elif op == "k":
            exp = "1" if la < len(q) else "0"
        else:
            return None
        if t != exp:
            return "op %d (%s): a FIFO returns `%s`, implementation `%s`" % (i, op[:40], exp, t)
    return None


def oracle_conc(w, out):
    """Reference FIFO evaluated on the implementation's own trace.  Shared accesses are attributed
    to operations by the begin/end markers the harness puts around every call (`bw<i>`/`ew<i>`,
    `br<i>`/`er<i>`), never by counting loads, so an implementation that looks at an index more
    often, less often or not at all for an operation that needs no look is judged by what it returns:

    * a write is *accepted* only if the message fitted into the free space when it last looked at the
      read index before copying (if it never looked: when it began to copy), and *dropped* only if it
      did not fit when it first looked (never looked: when the operation began); free space = capacity
      minus bytes accepted plus bytes the reader has released by advancing the read index;
    * a message is published where the write index advances; advancing it twice in one write, or
      copying into the ring after it, exposes a half-written message to the reader;
    * hasNext/read are judged against the messages published when the reader last (for "there is
      one") / first (for "there is none") loaded the write index inside the operation, or at the
      end / begin of the operation if it did not load it at all;
    * a consuming read must advance the read index, after its last copy out of the ring; nothing else
      may advance it."""
    maxMsg, nmsgs = int(w[1]), int(w[2])
    cap = maxMsg * nmsgs - 1
    parts = out.split()
    if len(parts) != 9 or parts[0] != "T" or parts[2] != "W" or parts[4] != "R" or parts[6] != "D":
        return "malformed output `%s`" % out[:200]
    trace = [] if parts[1] == "-" else parts[1].split(",")
    flags = "" if parts[3] == "-" else parts[3]
    routs = [] if parts[5] == "-" else parts[5].split(",")
    drained = [] if parts[7] == "-" else [unhx(x) for x in parts[7].split(",")]
    wops = [] if w[4] == "-" else w[4].split(",")
    rops = "" if w[5] == "-" else w[5]
    if len(flags) != len(wops):
        return "writer reported %d results for %d operations" % (len(flags), len(wops))
    if len(routs) != len(rops):
        return "reader reported %d results for %d operations" % (len(routs), len(rops))
    published = []
    acc_bytes = 0     # bytes of accepted messages
    rel_bytes = 0     # bytes the reader has released
    consumed = 0
    la = 0
    windex = 0
    rindex = 0
    W = None          # writer operation in progress
    R = None
    nw = nr = 0

    def free():
        return cap - (acc_bytes - rel_bytes)

    for ev in trace:
        k = ev[:2]
        if k == "bw":
            if W is not None or int(ev[2:]) != nw:
                return "writer operations out of order at " + ev
            m = wmsg(wops[nw])
            W = {"i": nw, "m": m, "eff": m if len(m) <= maxMsg else b"", "flag": flags[nw], "free0": free(),
                 "lr_first": None, "lr_last": None, "copy_free": None, "pub": False}
        elif k == "ew":
            if W is None or int(ev[2:]) != W["i"]:
                return "writer operations out of order at " + ev
            need = len(W["eff"])
            if W["flag"] == "a":
                if need == 0:
                    return "write %d of a message longer than MaxMsg (%d bytes) was accepted" % (W["i"], len(W["m"]))
                if not W["pub"]:
                    return "write %d reports accepted but the write index never advanced in the trace" % W["i"]
                seen = W["lr_last"] if W["lr_last"] is not None else (W["copy_free"] if W["copy_free"] is not None else free())
                if need > seen:
                    return "write %d (%d bytes, %d bytes free when it looked): accepted although it cannot be" % (
                        W["i"], need, seen)
                acc_bytes += need
            else:
                if W["pub"]:
                    return "write %d advanced the write index but reports dropped" % W["i"]
                seen = W["lr_first"] if W["lr_first"] is not None else W["free0"]
                if need > 0 and need <= seen:
                    return "write %d (%d bytes, %d bytes free when it looked): dropped although it fits" % (
                        W["i"], need, seen)
            W = None
            nw += 1
        elif k == "lr":
            if W is None:
                return "writer access outside an operation: " + ev
            if W["copy_free"] is None and not W["pub"]:
                W["lr_last"] = free()
            if W["lr_first"] is None:
                W["lr_first"] = free()
        elif k == "ci":
            if W is None:
                return "writer access outside an operation: " + ev
            if W["pub"]:
                return "write %d copies into the ring after it has advanced the write index (%s): a reader can see " \
                       "a half-written message" % (W["i"], ev)
            if W["copy_free"] is None:
                W["copy_free"] = free()
        elif k == "sw":
            if W is None:
                return "writer access outside an operation: " + ev
            v = int(ev[2:])
            if v != windex:
                if W["pub"]:
                    return "write %d advances the write index twice (%s): a reader can see a half-written message" % (
                        W["i"], ev)
                W["pub"] = True
                windex = v
                published.append(W["eff"])
        elif k == "br":
            if R is not None or int(ev[2:]) != nr:
                return "reader operations out of order at " + ev
            R = {"i": nr, "c": rops[nr], "out": routs[nr], "pub0": len(published), "lw_first": None, "lw_last": None,
                 "rel": False}
        elif k == "er":
            if R is None or int(ev[2:]) != R["i"]:
                return "reader operations out of order at " + ev
            hi = R["lw_last"] if R["lw_last"] is not None else len(published)
            lo = R["lw_first"] if R["lw_first"] is not None else R["pub0"]
            c, o = R["c"], R["out"]
            cur = consumed if c in "hr" else la
            some = o not in ("h0", "k0", "r-", "l-")
            if some and hi <= cur:
                return "reader op %d (%s) returned %s with %d messages published when it looked and %d already %s" % (
                    R["i"], c, o, hi, cur, "consumed" if c in "hr" else "seen by the lookahead")
            if not some and lo > cur:
                return "reader op %d (%s) found nothing although %d messages were published when it looked and only " \
                       "%d %s" % (R["i"], c, lo, cur, "consumed" if c in "hr" else "seen by the lookahead")
            if c in "hk":
                if o not in (c + "0", c + "1"):
                    return "reader op %d: malformed result %s" % (R["i"], o)
            elif some:
                exp = c + hx(published[cur])
                if o != exp:
                    return "reader op %d (%s) with %d messages published when it looked: a FIFO gives %s, " \
                           "implementation %s" % (R["i"], c, hi, exp, o)
            if c == "r":
                if some and not R["rel"]:
                    return "read %d returned a message but never advanced the read index" % R["i"]
                if some:
                    consumed += 1
                la = consumed
            elif c == "l" and some:
                la += 1
            R = None
            nr += 1
        elif k == "lw":
            if R is None:
                return "reader access outside an operation: " + ev
            R["lw_last"] = len(published)
            if R["lw_first"] is None:
                R["lw_first"] = len(published)
        elif k in ("fr", "co"):
            if R is None:
                return "reader access outside an operation: " + ev
            if k == "co" and R["rel"]:
                return "read %d copies out of the ring after it has advanced the read index (%s): the writer may " \
                       "already overwrite those bytes" % (R["i"], ev)
        elif k == "sr":
            if R is None:
                return "reader access outside an operation: " + ev
            v = int(ev[2:])
            if v != rindex:
                if R["c"] != "r":
                    return "read index advanced by operation %d (%s), which consumes nothing" % (R["i"], R["c"])
                if R["rel"]:
                    return "read %d advances the read index twice (%s)" % (R["i"], ev)
                if consumed >= len(published):
                    return "read %d advances the read index although nothing is queued" % R["i"]
                R["rel"] = True
                rindex = v
                rel_bytes += len(published[consumed])
        else:
            return "unknown trace event " + ev
    if W is not None or R is not None:
        return "an operation did not complete"
    if nw != len(wops) or nr != len(rops):
        return "operations missing from the trace: writer %d/%d reader %d/%d" % (nw, len(wops), nr, len(rops))
    if drained != published[consumed:]:
        return "after the run the queue holds %s, a FIFO holds %s" % (
            [hx(x) for x in drained], [hx(x) for x in published[consumed:]])
    return None


def oracle(op, out):
    w = op.split()
    if out.startswith("crash"):
        return "implementation crashed: " + out
    # findings of the harness about the code it compiled, independent of the case
    if " MO:" in out:
        return "memory order weaker than the proofs assume (stores of the write/read index must be release or " \
               "stronger, loads of the other thread's index acquire or stronger; C++11 DRF-SC does not apply): " + \
               out[out.index(" MO:") + 4:].split()[0]
    if out.endswith(" DECOY-BROKEN") or " DECOY-BROKEN " in out:
        return "a second ThreadLink operated in between lost or corrupted a message (state shared between links)"
    if w[0] == "seq":
        return oracle_seq(w, out)
    if w[0] == "conc":
        return oracle_conc(w, out)
    if w[0] == "soak":
        if out != "soak ok":
            return "two free-running threads: " + out
        if any(t.startswith("tsan=race") or t.startswith("tsan=fifo") for t in w[5:]):
            return "ThreadSanitizer build of the soak: " + " ".join(w[5:])
        return None
    return None


# ---------------------------------------------------------------------------------------
# known findings
#   C06-K5: bundles are not self-delimiting inside the ring
#   (C06-K6, raw_write never returning on a bundle whose element sizes lead `pos` round in a circle, is fixed:
#    fixes/C06-bundle-length-wrap.patch; a line that does not finish is a VIOLATION again)
# ---------------------------------------------------------------------------------------
def wtokens(op):
    w = op.split()
    return w[3:] if w[0] == "seq" else (w[4].split(",") if w[0] == "conc" and w[4] != "-" else [])


def has_bundle(op):
    """trigger predicate (Lean: Rtosc.Ring.HasBundle): some raw_write block starts with `#bundle\\0`"""
    return any(t[0] == "x" and is_bundle(unhx(t[1:])) for t in wtokens(op))


def known(op, impl_out, model_out, defs):
    if not has_bundle(op):
        return None
    if model_out is None:                     # search phase of the runner: ask the (defect-mirroring) model here
        r = driver_lines([op])
        model_out = r[0] if r else None
    if model_out is None:
        return None
    ids = set(d.get("id") for d in defs)
    if impl_out.startswith("crash"):
        return None
    if "C06-K5" in ids and impl_out == model_out:
        return "C06-K5"
    return None


def neighbours(op, rng):
    w = op.split()
    if w[0] != "conc":
        return
    # same history, other schedules
    for _ in range(300):
        n = rng.randint(0, 80)
        yield " ".join(w[:6] + ["".join(rng.choice("wr") for _ in range(n)) or "-"])
