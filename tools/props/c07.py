"""C07 — validation of untrusted bytes is sound."""
import os
import struct
import subprocess

PROP = "C07"
ENGINE = "valid"
LEAN_MODULES = ["RtoscModel.Props.C07"]
THEOREMS = [
    "Rtosc.Osc.V.length_terminates",
    "Rtosc.Osc.V.length_reads_in_bounds",
    "Rtosc.Osc.V.valid_reads_in_bounds",
    "Rtosc.Osc.V.length_zero_or_le",
    "Rtosc.Osc.V.valid_accessors_in_bounds",
    "Rtosc.Osc.V.valid_accessors_eq_decodeLax",
    "Rtosc.Osc.V.valid_accessors_eq_decode_partial",
    "Rtosc.Osc.V.valid_accessors_eq_decode_counterexample",
]
HARNESS = {"src": ["valid.cpp"], "deps": ["common.h"]}
RULE = ("one case = one byte buffer of 0..512 bytes handed to rtosc_message_length / rtosc_valid_message_p in an "
        "exact-size heap block (for n=0: the end of a block) under ASan, and, when the validator accepts, to every "
        "reader. Streams: all buffers up to 4 bytes over an 8-symbol alphabet (exhaustive: 4681) and all tails of 3 "
        "and 7 bytes behind the prefix '/a\\0\\0,' over a 6-symbol alphabet (3 bytes exhaustive; 7 bytes exhaustive "
        "in the thorough tier, sampled in the quick tier; 11 bytes sampled); canonical messages over all 17 tags, "
        "unknown tags and brackets (every single tag, every pair), every address length 1..40; their structure-aware "
        "mutations (truncation at every offset, blob lengths 0x7fffffff..0xffffffff and off-by-k around the "
        "remaining bytes, non-zero padding at every padding byte, NUL first byte of strings, terminators removed, "
        "tags swapped, bytes flipped/inserted/deleted, trailing bytes, path mutations); random bytes over a biased "
        "alphabet up to 512; bundles and malformed bundles (element sizes that wrap the position, truncation at "
        "every offset); a coverage-guided stream (libFuzzer on the working tree's rtosc.c from a seed corpus of "
        "canonical messages: every input that added coverage, every crash/timeout artifact). Non-trivial = at least "
        "8 bytes starting with '/' or '#bundle'; distinct = distinct buffer")
ASSUMPTIONS = ["buffer length n < 2^31 (positions are `unsigned`, sizes `int`); generated buffers have n <= 512",
               "the block handed to the functions has exactly n bytes (len argument = block size)",
               "the readers are only required to be safe on buffers the validator accepted"]
TRUSTED = ["hand-written models RtoscModel/Osc/Valid.lean (length, validator) and RtoscModel/Osc/Read.lean (readers, "
           "shared with C01) of src/rtosc.c",
           "Python reference decoders (strict and padding-blind) in tools/props/c07.py; libFuzzer/clang-14 only as an "
           "input generator"]
LEVEL_TEXT = ("Lean theorems over all byte strings shorter than 2^31: rtosc_message_length and rtosc_valid_message_p "
              "terminate, read no byte outside the block, report 0 or a length <= n; whenever the validator accepts, "
              "argument string, count, type and argument by index and the iterator read only inside the block "
              "(string terminators and blob extents included) and return exactly what the padding-blind reference "
              "decoder returns, and what the strict OSC 1.0 decoder returns unless the buffer is non-canonical "
              "(known finding C07-K1). The model is compared with the compiled implementation (ASan/UBSan) on tens "
              "of thousands of generated buffers per run and the property is evaluated directly on the "
              "implementation's output by independent Python decoders")

VERIF = os.path.dirname(os.path.dirname(os.path.dirname(os.path.abspath(__file__))))
TAGS = b"ifsbhtdScrmTFNI[]"
W32 = b"icrf"
W64 = b"htd"
PAYLOAD = b"isbfhtdSrmc"
BUNDLE = b"#bundle\0"


def hx(b):
    return bytes(b).hex() if b else "-"


def unhx(s):
    return b"" if s == "-" else bytes.fromhex(s)


# ---------------------------------------------------------------------------------------
# independent reference decoder (the specification, in Python)
# ---------------------------------------------------------------------------------------
def take_str(bs, pos, strict):
    """OSC-string at pos: (content, next position) or None."""
    e = bs.find(b"\0", pos)
    if e < 0:
        return None
    n = e - pos
    nxt = pos + n + (4 - n % 4)
    if nxt > len(bs):
        return None
    if strict and any(bs[e:nxt]):
        return None
    return bs[pos:e], nxt


def decode(bs, strict=True):
    """-> (addr, tags, [(tag, value, offset)]) for every tag that is not a bracket, or None.
    value: int (32/64 bit, midi), bytes (strings), bytes (blob data), True/False, None."""
    r = take_str(bs, 0, True)
    if r is None:
        return None
    addr, pos = r
    if addr[:1] != b"/" or any(c < 32 or c > 126 for c in addr):
        return None
    r = take_str(bs, pos, strict)
    if r is None:
        return None
    ts, pos = r
    if ts[:1] != b",":
        return None
    tags = ts[1:]
    if strict and any(t not in TAGS for t in tags):
        return None
    vals = []
    for t in tags:
        c = bytes([t])
        if c in b"[]":
            continue
        if c in W32 or c == b"m":
            if pos + 4 > len(bs):
                return None
            vals.append((t, struct.unpack(">I", bs[pos:pos + 4])[0], pos))
            pos += 4
        elif c in W64:
            if pos + 8 > len(bs):
                return None
            vals.append((t, struct.unpack(">Q", bs[pos:pos + 8])[0], pos))
            pos += 8
        elif c in b"sS":
            r = take_str(bs, pos, strict)
            if r is None:
                return None
            vals.append((t, r[0], pos))
            pos = r[1]
        elif c == b"b":
            if pos + 4 > len(bs):
                return None
            n = struct.unpack(">I", bs[pos:pos + 4])[0]
            tot = n + (-n) % 4
            if n >= 2 ** 31 or pos + 4 + tot > len(bs):
                return None
            if strict and any(bs[pos + 4 + n:pos + 4 + tot]):
                return None
            vals.append((t, bs[pos + 4:pos + 4 + n], pos + 4))
            pos += 4 + tot
        elif c == b"T":
            vals.append((t, True, pos))
        elif c == b"F":
            vals.append((t, False, pos))
        else:
            vals.append((t, None, pos))
    if pos != len(bs):
        return None
    return addr, tags, vals


def show(t, v, off):
    c = bytes([t])
    p = "%02x:" % t
    if c in W32 or c == b"m":
        return p + "%08x" % v
    if c in W64:
        return p + "%016x" % v
    if c in b"sS":
        return p + "@%d:%s" % (off, hx(v))
    if c == b"b":
        return p + "%d@%d:%s" % (len(v), off, hx(v))
    if c in b"TF":
        return p + ("1" if v else "0")
    return p + "-"


def expected_readers(bs, d):
    addr, tags, vals = d
    comma = len(addr) + (4 - len(addr) % 4)
    tys = bytes(t for t, _, _ in vals)
    lst = ",".join(show(t, v, o) for t, v, o in vals) or "-"
    return "as=%d:%s n=%d ty=%s av=%s it=%s" % (comma + 1, hx(tags), len(vals), hx(tys), lst, lst)


# ---------------------------------------------------------------------------------------
# oracle: the property evaluated on the implementation's output
# ---------------------------------------------------------------------------------------
def parse_out(out):
    w = out.split(" ", 2)
    if len(w) < 2 or not w[0].startswith("len=") or not w[1].startswith("valid="):
        return None
    try:
        return int(w[0][4:]), int(w[1][6:]), (w[2] if len(w) > 2 else "")
    except ValueError:
        return None


def oracle(op, out):
    w = op.split()
    if w[0] != "V":
        return None
    bs = unhx(w[1])
    n = len(bs)
    if out.startswith("crash:signal:27"):
        return "does not terminate (killed by the CPU-time watchdog)"
    if out.startswith("crash"):
        return "read outside the %d-byte block or crash: %s" % (n, out)
    p = parse_out(out)
    if p is None:
        return "unparsable output"
    ln, valid, rd = p
    if ln != 0 and ln > n:
        return "rtosc_message_length returned %d for %d bytes" % (ln, n)
    if valid:
        d = decode(bs, True)
        if d is None:
            return "validator accepts a buffer that the strict OSC 1.0 decoder rejects"
        exp = expected_readers(bs, d)
        if rd != exp:
            fo = dict(x.split("=", 1) for x in rd.split() if "=" in x)
            fe = dict(x.split("=", 1) for x in exp.split() if "=" in x)
            bad = [k for k in fe if fo.get(k) != fe[k]]
            names = {"as": "rtosc_argument_string", "n": "rtosc_narguments", "ty": "rtosc_type", "av": "rtosc_argument",
                     "it": "rtosc_itr_*"}
            return "readers disagree with the decoder on: " + ", ".join("%s (expected %s, got %s)" % (
                names.get(k, k), fe[k][:80], str(fo.get(k))[:80]) for k in bad[:3])
    return None


# ---------------------------------------------------------------------------------------
# known finding C07-K1: non-canonical encodings are accepted
# ---------------------------------------------------------------------------------------
_trigger_cache = {}


def lean_trigger(token):
    """NonCanonical evaluated by the compiled Lean definitions (driver op T)."""
    if token in _trigger_cache:
        return _trigger_cache[token]
    import vlib
    try:
        r = subprocess.run([vlib.driver_path(ENGINE)], input="T %s\n" % token, stdout=subprocess.PIPE,
                           stderr=subprocess.PIPE, text=True, timeout=30)
        res = r.stdout.split()[:1] == ["nc=1"]
    except Exception:
        res = False
    _trigger_cache[token] = res
    return res


def known(op, impl_out, model_out, defs):
    """C07-K1 only: the validator accepts, the strict decoder rejects, the padding-blind decoder
    accepts (trigger NonCanonical, evaluated here and by the Lean definition), the readers return
    exactly what the padding-blind decoder returns, and the model predicts this very output."""
    if not any(d.get("id") == "C07-K1" for d in defs):
        return None
    w = op.split()
    if w[0] != "V":
        return None
    if model_out is not None and impl_out != model_out:
        return None
    p = parse_out(impl_out)
    if p is None or not p[1]:
        return None
    bs = unhx(w[1])
    if p[0] != len(bs):
        return None
    if decode(bs, True) is not None:
        return None
    d = decode(bs, False)
    if d is None or p[2] != expected_readers(bs, d):
        return None
    if not lean_trigger(w[1]):
        return None
    return "C07-K1"


# ---------------------------------------------------------------------------------------
# generator
# ---------------------------------------------------------------------------------------
def pad_str(s):
    return s + b"\0" * (4 - len(s) % 4)


def rand_addr(rng, n=None):
    n = n if n is not None else rng.choice([1, 2, 3, 4, 5, 6, 7, 8, 11, 12, 13, rng.randint(1, 40)])
    return b"/" + bytes(rng.choice(b"abcxyz019/_-#*,{}[]? ") for _ in range(n - 1))


def rand_tags(rng, lo, hi):
    k = rng.randint(lo, hi)
    return bytes(rng.choice(TAGS) for _ in range(k))


def rand_bytes(rng, n, nul=True):
    return bytes(rng.choice([0, 1, 0x7f, 0x80, 0xff, 0x2c, 0x2f, 0x61]) if rng.random() < 0.3 else rng.getrandbits(8)
                 for _ in range(n)) if nul else bytes(rng.randint(1, 255) for _ in range(n))


def enc_args(rng, tags, marks):
    """canonical argument bytes; `marks` collects (kind, start, end) regions relative to the
    start of the arguments: 'pad' padding bytes, 'len' blob length fields, 'nul' terminators."""
    out = bytearray()
    for t in tags:
        c = bytes([t])
        if c in W32 or c == b"m":
            out += struct.pack(">I", rng.choice([0, 1, 0x7fffffff, 0x80000000, 0xffffffff, rng.getrandbits(32)]))
        elif c in W64:
            out += struct.pack(">Q", rng.choice([0, 1, 2 ** 63, 2 ** 64 - 1, rng.getrandbits(64)]))
        elif c in b"sS":
            s = rand_bytes(rng, rng.choice([0, 0, 1, 2, 3, 4, 5, 7, 8, rng.randint(0, 20)]), nul=False)
            marks.append(("nul", len(out) + len(s), len(out) + len(s) + 1))
            marks.append(("str0", len(out), len(out) + 1))
            e = pad_str(s)
            marks.append(("pad", len(out) + len(s) + 1, len(out) + len(e)))
            out += e
        elif c == b"b":
            d = rand_bytes(rng, rng.choice([0, 0, 1, 2, 3, 4, 5, 8, rng.randint(0, 24)]))
            marks.append(("len", len(out), len(out) + 4))
            out += struct.pack(">I", len(d)) + d
            pl = (-len(d)) % 4
            marks.append(("pad", len(out), len(out) + pl))
            out += b"\0" * pl
    return bytes(out)


def make_msg(rng, tags=None, addr=None):
    """-> (bytes, marks) with marks in absolute offsets; plus ('tags', a, b), ('tnul', ..), ('apad', ..)."""
    addr = addr if addr is not None else rand_addr(rng)
    tags = tags if tags is not None else (rand_tags(rng, 0, 6) if rng.random() < 0.8 else rand_tags(rng, 0, 24))
    marks = []
    a = pad_str(addr)
    ts = pad_str(b"," + tags)
    rel = []
    args = enc_args(rng, tags, rel)
    base = len(a) + len(ts)
    marks.append(("apad", len(addr), len(a)))
    marks.append(("comma", len(a), len(a) + 1))
    marks.append(("tags", len(a) + 1, len(a) + 1 + len(tags)))
    marks.append(("nul", len(a) + 1 + len(tags), len(a) + 2 + len(tags)))
    marks.append(("pad", len(a) + 2 + len(tags), base))
    for k, s, e in rel:
        marks.append((k, base + s, base + e))
    return a + ts + args, marks


BLOB_LENS = [0x7fffffff, 0x80000000, 0xfffffff0, 0xfffffff4, 0xfffffff8, 0xfffffffc, 0xffffffff, 0x7ffffffc,
             0x00000100, 0x01000000, 0xfffffffb, 0xfffffff9]


def mutate(rng, m, marks, stats):
    """yields (kind, bytes) mutations of the canonical message m"""
    n = len(m)
    pads = [i for k, s, e in marks if k == "pad" for i in range(s, e)]
    lens = [s for k, s, e in marks if k == "len"]
    nuls = [s for k, s, e in marks if k == "nul"]
    tagpos = [i for k, s, e in marks if k == "tags" for i in range(s, e)]
    str0 = [s for k, s, e in marks if k == "str0"]
    # non-zero padding: every padding byte once, and all of them together
    for i in pads:
        b = bytearray(m)
        b[i] = rng.choice([1, 0x61, 0xff, 0x2c, 0x80])
        yield "pad1", bytes(b)
    if pads:
        b = bytearray(m)
        for i in pads:
            b[i] = rng.choice([1, 0x61, 0xff])
        yield "padall", bytes(b)
    # K3 shape: string whose first byte is NUL but is followed by other bytes
    for s in str0:
        b = bytearray(m)
        b[s] = 0
        yield "str0", bytes(b)
        if s + 4 <= n:
            b[s + 1:s + 4] = b"abc"
            yield "str0abc", bytes(b)
    # blob lengths
    for s in lens:
        for v in BLOB_LENS + [n - s, n - s - 4, n - s - 3, n - s - 5, n, 2 ** 32 - (s + 4) + 8, 2 ** 32 - 4 - s,
                              2 ** 32 - s, 2 ** 32 - s + 4]:
            b = bytearray(m)
            b[s:s + 4] = struct.pack(">I", v % 2 ** 32)
            yield "bloblen", bytes(b)
    # terminators removed
    for s in nuls:
        b = bytearray(m)
        b[s] = rng.choice([0x61, 0x2c, 0xff])
        yield "nonul", bytes(b)
    # tags swapped / removed
    for i in tagpos:
        b = bytearray(m)
        b[i] = rng.choice(b"ifsbhtdScrmTFNI[]xZ\x00\x01\xff,")
        yield "tag", bytes(b)
    # truncation at every offset (quick: a sample), extension
    cuts = range(n) if n <= 48 else sorted(rng.sample(range(n), 48))
    for c in cuts:
        yield "trunc", m[:c]
    for k in (1, 2, 3, 4, 8):
        yield "ext0", m + b"\0" * k
        yield "extr", m + rand_bytes(rng, k)
    # bytes flipped / inserted / deleted
    for _ in range(6):
        b = bytearray(m)
        c = rng.randint(0, 3)
        i = rng.randrange(n)
        if c == 0:
            b[i] = rng.getrandbits(8)
        elif c == 1:
            b[i] = rng.choice([0, 0x2c, 0x2f, 0x62, 0x73, 0xff, 0x80, 0x7f, 0x1f, 0x20])
        elif c == 2:
            b[i:i] = rand_bytes(rng, rng.randint(1, 4))
        else:
            del b[i:i + rng.randint(1, 4)]
        yield "flip", bytes(b)
    # path mutations
    apad = [(s, e) for k, s, e in marks if k == "apad"][0]
    for v in (0x1f, 0x7f, 0x80, 0xff, 0x0a, 0x20, 0x7e, 0x2c):
        if apad[0] > 1:
            b = bytearray(m)
            b[rng.randrange(1, apad[0])] = v
            yield "path", bytes(b)
    b = bytearray(m)
    b[0] = rng.choice([0x61, 0x23, 0x00, 0x2c, 0x5c])
    yield "path", bytes(b)
    for i in range(apad[0], apad[1]):
        b = bytearray(m)
        b[i] = rng.choice([1, 0x2c, 0x61])
        yield "apad", bytes(b)
    yield "apad4", m[:apad[1]] + b"\0\0\0\0" + m[apad[1]:]
    yield "apad-", m[:apad[0]] + m[apad[1]:]


def make_bundle(rng, depth=0):
    out = bytearray(BUNDLE + struct.pack(">Q", rng.choice([0, 1, rng.getrandbits(64)])))
    for _ in range(rng.randint(0, 3)):
        if depth < 2 and rng.random() < 0.25:
            e = make_bundle(rng, depth + 1)
        else:
            e = make_msg(rng)[0]
        out += struct.pack(">I", len(e)) + e
    return bytes(out)


ADV = [0xfffffffc, 0xfffffff8, 0xffffffff, 0xfffffff0, 0x80000000, 0x7fffffff, 0xffffffec, 0xffffffe8, 1, 2, 3, 4, 5]


def bundle_mutations(rng, b):
    n = len(b)
    yield b
    for c in range(0, n + 1, 1 if n < 64 else 3):
        yield b[:c]
    # every element-size field: wrap-around values and off-by-k
    pos = 16
    fields = []
    while pos + 4 <= n:
        v = struct.unpack(">I", b[pos:pos + 4])[0]
        fields.append(pos)
        if v == 0 or pos + 4 + v > n:
            break
        pos += 4 + v
    for f in fields:
        for v in ADV + [n - f, n - f - 4, n - f - 3, 2 ** 32 - 4, 2 ** 32 - 4 - f, 2 ** 32 - f + 12]:
            x = bytearray(b)
            x[f:f + 4] = struct.pack(">I", v % 2 ** 32)
            yield bytes(x)
    for v in ADV:
        yield b + struct.pack(">I", v)
        yield b + struct.pack(">I", v) + b"\0" * rng.choice([0, 4, 8])
    for _ in range(4):
        x = bytearray(b)
        x[rng.randrange(n)] = rng.getrandbits(8)
        yield bytes(x)


def sized_msg(L):
    """a valid message of exactly L bytes (L a multiple of 4, L >= 8): "/aa…" + ","."""
    k = L - 6
    a = b"/" + b"a" * k
    m = a + b"\0" * (L - 4 - len(a)) + b",\0\0\0"
    assert len(m) == L, (L, len(m))
    return m


def bundle_cycles(rng):
    """Bundles whose last element-size field — complete, or cut after 1..3 bytes and completed with the zero bytes
    deref() supplies behind the block — would move the 32-bit position *backwards* onto an earlier size field
    (4 + V = -(bytes walked since that field) mod 2^32): the walk of bundle_ring_length then never ends unless the
    "element has to fit" test rejects V.  A cut field needs the walked distance to be 252 mod 256 (3 bytes present)
    or 65532 mod 65536 (2 bytes present)."""
    for dist, keep in ((252, 3), (252, 3), (252, 3), (508, 3), (65532, 2)):
        # elements in front of the target field (any), then elements whose 4+L sum to `dist`
        pre = [rng.choice([8, 12, 16, 40]) for _ in range(rng.randint(0, 2))]
        parts = []
        left = dist
        while left > 0:
            if left <= 256 and (rng.random() < 0.4 or left < 24):
                step = left
            else:
                step = min(left, 4 * rng.randint(3, 40)) if left < 4000 else left
            if left - step in (4, 8):            # the remainder must hold another 4+L with L >= 8
                step = left
            parts.append(step - 4)
            left -= step
        b = bytearray(BUNDLE + struct.pack(">Q", rng.choice([0, 1, rng.getrandbits(64)])))
        for L in pre + parts:
            b += struct.pack(">I", L) + sized_msg(L)
        v = struct.pack(">I", (2 ** 32 - 4 - dist) % 2 ** 32)
        assert v[keep:] == b"\0" * (4 - keep)
        for k in (1, 2, 3, 4):
            yield bytes(b) + v[:k]
        yield bytes(b) + v + b"\0" * 4
        yield bytes(b) + v + sized_msg(8)
        yield bytes(b) + b"\xff" * keep
        yield bytes(b) + b"\xff" * 4


ALPHA8 = [0x00, 0x2f, 0x2c, 0x69, 0x73, 0x62, 0x61, 0xff]
ALPHA6 = [0x00, 0x69, 0x73, 0x62, 0x01, 0xff]


def all_strings(alpha, n):
    if n == 0:
        yield b""
        return
    for s in all_strings(alpha, n - 1):
        for a in alpha:
            yield s + bytes([a])


def prefill_triggers(ops):
    """One batched driver run evaluates the Lean trigger for every generated buffer that the
    Python decoders classify as non-canonical (instead of one process per buffer in known())."""
    import vlib
    toks = []
    for op in ops:
        w = op.split()
        if w[0] == "V" and w[1] not in _trigger_cache:
            m = unhx(w[1])
            if m[:1] == b"/" and decode(m, True) is None and decode(m, False) is not None:
                toks.append(w[1])
    if not toks or not os.path.exists(vlib.driver_path(ENGINE)):
        return
    try:
        r = subprocess.run([vlib.driver_path(ENGINE)], input="".join("T %s\n" % t for t in toks),
                           stdout=subprocess.PIPE, stderr=subprocess.PIPE, text=True, timeout=600)
        outs = r.stdout.split("\n")
        if r.returncode == 0 and len(outs) >= len(toks):
            for t, o in zip(toks, outs):
                _trigger_cache[t] = o.split()[:1] == ["nc=1"]
    except Exception:
        pass


def fuzz_stream(rng, tier, stats):
    """Coverage-guided stream: a libFuzzer target (harness/valid_fuzz.c + the working tree's
    rtosc.c) is run from a seed corpus of canonical messages; every input it keeps (new coverage)
    and every crash/timeout artifact becomes an op line.  Input generator only; if clang or the
    fuzzer runtime is missing the stream is skipped and that is recorded."""
    import hashlib
    import shutil
    import vlib
    cc = shutil.which("clang-14") or shutil.which("clang")
    if not cc:
        stats["fuzzer"] = "skipped: no clang"
        return
    srcs = [os.path.join(VERIF, "harness", "valid_fuzz.c"), os.path.join(vlib.REPO, "src", "rtosc.c")]
    hdr = os.path.join(vlib.REPO, "include", "rtosc", "rtosc.h")
    h = hashlib.sha256()
    for f in srcs + [hdr]:
        try:
            h.update(open(f, "rb").read())
        except OSError:
            h.update(b"?")
    os.makedirs(vlib.BUILD, exist_ok=True)
    exe = os.path.join(vlib.BUILD, "fz-C07-" + h.hexdigest()[:16])
    if not os.path.exists(exe):
        for f in os.listdir(vlib.BUILD):
            if f.startswith("fz-C07-"):
                try:
                    os.remove(os.path.join(vlib.BUILD, f))
                except OSError:
                    pass
        r = subprocess.run([cc, "-g", "-O1", "-fsanitize=fuzzer,address", "-DNDEBUG", "-I", os.path.join(vlib.REPO, "include")]
                           + srcs + ["-o", exe + ".tmp%d" % os.getpid()], stdout=subprocess.PIPE, stderr=subprocess.STDOUT, text=True)
        if r.returncode != 0:
            stats["fuzzer"] = "skipped: target does not build: " + r.stdout[-200:]
            return
        os.rename(exe + ".tmp%d" % os.getpid(), exe)
    work = os.path.join(vlib.BUILD, "fz-run-%d" % os.getpid())
    shutil.rmtree(work, ignore_errors=True)
    os.makedirs(os.path.join(work, "corpus"))
    os.makedirs(os.path.join(work, "art"))
    try:
        for i in range(40):
            m, _ = make_msg(rng)
            open(os.path.join(work, "corpus", "seed%02d" % i), "wb").write(m)
        open(os.path.join(work, "corpus", "seedb"), "wb").write(make_bundle(rng))
        runs = 150000 if tier == "quick" else 12000000
        try:
            subprocess.run([exe, "-seed=%d" % rng.randint(1, 2 ** 31 - 1), "-runs=%d" % runs, "-max_len=512", "-timeout=5",
                            "-artifact_prefix=" + os.path.join(work, "art") + "/", os.path.join(work, "corpus")],
                           stdout=subprocess.DEVNULL, stderr=subprocess.DEVNULL, timeout=1500,
                           env=dict(os.environ, ASAN_OPTIONS="detect_leaks=0"))
        except subprocess.TimeoutExpired:
            pass
        n = 0
        for d in ("art", "corpus"):
            for f in sorted(os.listdir(os.path.join(work, d))):
                if f.startswith("seed"):
                    continue
                m = open(os.path.join(work, d, f), "rb").read()
                n += 1
                yield m
        stats["fuzzer"] = "libFuzzer, %d runs, %d inputs kept, %d artifacts" % (runs, n, len(os.listdir(os.path.join(work, "art"))))
    finally:
        shutil.rmtree(work, ignore_errors=True)


def generate(rng, tier, stats):
    ops = list(_generate(rng, tier, stats))
    prefill_triggers(ops)
    for op in ops:
        yield op


def _generate(rng, tier, stats):
    quick = tier == "quick"
    stats.update({"exhaustive_le4": 0, "tails": 0, "tails_exhaustive": not quick, "canonical": 0, "mutations": {},
                  "random": 0, "bundles": 0, "size_hist": {}, "tag_count": {}, "strict_ok": 0, "lax_only": 0})

    def emit(kind, m):
        m = bytes(m[:512])
        b = min(len(m) // 16, 32)
        stats["size_hist"][b] = stats["size_hist"].get(b, 0) + 1
        if m[:1] == b"/":
            if decode(m, True) is not None:
                stats["strict_ok"] += 1
            elif decode(m, False) is not None:
                stats["lax_only"] += 1
        return "V " + hx(m)

    # 1. exhaustive: every buffer up to 4 bytes over 8 symbols
    for n in range(0, 5):
        for s in all_strings(ALPHA8, n):
            stats["exhaustive_le4"] += 1
            yield emit("ex", s)
    # 2. tails behind "/a\0\0,": 3 (+4k) bytes over 6 symbols
    pre = b"/a\0\0,"
    for s in all_strings(ALPHA6, 3):
        stats["tails"] += 1
        yield emit("tail", pre + s)
    if quick:
        for _ in range(20000):
            stats["tails"] += 1
            yield emit("tail", pre + bytes(rng.choice(ALPHA6) for _ in range(rng.choice([7, 7, 11]))))
    else:
        for s in all_strings(ALPHA6, 7):
            stats["tails"] += 1
            yield emit("tail", pre + s)
        for _ in range(400000):
            stats["tails"] += 1
            yield emit("tail", pre + bytes(rng.choice(ALPHA6) for _ in range(11)))
    # 3. canonical messages and their mutations
    # every single tag, every pair
    singles = [bytes([t]) for t in TAGS + b"xZ"] + [bytes([a, b]) for a in TAGS for b in TAGS]
    for tags in singles:
        m, marks = make_msg(rng, tags=tags)
        stats["canonical"] += 1
        yield emit("canon", m)
        if len(tags) == 1 or not quick:
            for k, x in mutate(rng, m, marks, stats):
                stats["mutations"][k] = stats["mutations"].get(k, 0) + 1
                yield emit(k, x)
    for _ in range(2000 if quick else 30000):
        m, marks = make_msg(rng)
        for t in m[marks[2][1]:marks[2][2]]:
            stats["tag_count"][chr(t)] = stats["tag_count"].get(chr(t), 0) + 1
        stats["canonical"] += 1
        yield emit("canon", m)
        for k, x in mutate(rng, m, marks, stats):
            stats["mutations"][k] = stats["mutations"].get(k, 0) + 1
            yield emit(k, x)
    # every address length 1..40 (every residue mod 4)
    for n in range(1, 41):
        m, marks = make_msg(rng, addr=rand_addr(rng, n))
        stats["canonical"] += 1
        yield emit("canon", m)
    # 4. random bytes
    for _ in range(20000 if quick else 1500000):
        stats["random"] += 1
        r = rng.random()
        n = rng.randint(0, 24) if r < 0.5 else (rng.randint(0, 128) if r < 0.9 else rng.randint(0, 512))
        m = bytes(rng.choice(b"\0\0\0/,isbhS[]\xff\x01ab") if rng.random() < 0.8 else rng.getrandbits(8) for _ in range(n))
        if rng.random() < 0.5:
            m = b"/" + m[1:]
        yield emit("rand", m)
    # 5. bundles
    for _ in range(150 if quick else 10000):
        b = make_bundle(rng)
        for x in bundle_mutations(rng, b):
            stats["bundles"] += 1
            yield emit("bundle", x)
    for v in ADV:
        stats["bundles"] += 1
        yield emit("bundle", BUNDLE + b"\0" * 8 + struct.pack(">I", v))
    stats["bundle_cycles"] = 0
    for _ in range(3 if quick else 40):
        for x in bundle_cycles(rng):
            stats["bundle_cycles"] += 1
            yield emit("bundle", x)
    # 6. coverage-guided stream
    stats["fuzz_inputs"] = 0
    for m in fuzz_stream(rng, tier, stats):
        stats["fuzz_inputs"] += 1
        yield emit("fuzz", m)


def nontrivial(op):
    w = op.split()
    if w[0] != "V":
        return False
    m = unhx(w[1])
    return len(m) >= 8 and (m[:1] == b"/" or m[:8] == BUNDLE)


def neighbours(op, rng):
    """inputs near a disagreement: single-byte edits, truncations and extensions of the buffer"""
    w = op.split()
    if w[0] != "V":
        return
    m = unhx(w[1])
    for c in range(len(m) + 1):
        yield "V " + hx(m[:c])
    for i in range(len(m)):
        for v in (0, 1, 0x2c, 0x2f, 0x62, 0x69, 0x73, 0xff, m[i] ^ 0x80, (m[i] + 1) % 256):
            b = bytearray(m)
            b[i] = v
            yield "V " + hx(b)
    for k in (1, 2, 3, 4):
        yield "V " + hx(m + b"\0" * k)
