"""C07 — validation of untrusted bytes is sound."""
import os
import struct
import subprocess

PROP = "C07"
ENGINE = "valid"
LEAN_MODULES = ["RtoscModel.Props.C07"]
THEOREMS = [
    "Rtosc.Osc.V.length_terminates",
    "Rtosc.Osc.V.length_reads_in_bounds",
    "Rtosc.Osc.V.valid_reads_in_bounds",
    "Rtosc.Osc.V.length_zero_or_le",
    "Rtosc.Osc.V.valid_accessors_in_bounds",
    "Rtosc.Osc.V.valid_accessors_eq_decodeLax",
    "Rtosc.Osc.V.valid_accessors_eq_encoding",
    "Rtosc.Osc.V.valid_accessors_eq_decode_partial",
    "Rtosc.Osc.V.valid_accessors_eq_decode_counterexample",
    "Rtosc.Osc.V.decode_encode",
    "Rtosc.Osc.V.decode_eq_some_iff",
    "Rtosc.Osc.V.decode_wf",
    "Rtosc.Osc.V.nonCanonical_iff",
]
HARNESS = {"src": ["valid.cpp", "valid_rtosc_dbg.c"], "exclude": ["src/rtosc.c"], "deps": ["common.h"]}
RULE = ("one case = one byte buffer of 0..512 bytes handed to rtosc_message_length / rtosc_valid_message_p under ASan "
        "and, when the validator accepts, to every reader - in SEVEN placements whose answers must be the same text: "
        "a fresh exact-size heap block at pointer alignment 0, 1, 2 and 3 mod 4 (buffer right-aligned, red zone at "
        "msg+n; for n=0 the end of a block), and a long-lived arena in which the same pointer and length held, for the "
        "calls just before, a valid message / a rejected buffer / a valid one-string message (bytes in front poisoned). "
        "Compared with the model: the validator's verdict, every reader result on accepted buffers (string and blob "
        "payloads followed; the data pointer of an empty blob is not observed), crashes and hangs; the value of "
        "rtosc_message_length where it is defined by more than '0 or <= n': on accepted buffers, when it exceeds n, "
        "and when the first len bytes are themselves an accepted message (otherwise `len=ok`). "
        "Streams: all buffers up to 4 bytes over an 8-symbol alphabet (exhaustive: 4681) and all tails of 3 "
        "and 7 bytes behind the prefix '/a\\0\\0,' over a 6-symbol alphabet (3 bytes exhaustive; 7 bytes exhaustive "
        "in the thorough tier, sampled in the quick tier; 11 bytes sampled); canonical messages over all 17 tags, "
        "unknown tags and brackets (every single tag, every pair), every address length 1..40, and - inside the 512 "
        "bytes - one string/blob of 60..480 bytes or the largest that fits, type strings of 25..400 tags, addresses of "
        "41..470 bytes; size sweeps: an address, a type string, a string argument and a blob of EVERY length that fits "
        "(thorough; quick: every length around 2^6, 2^7, 2^8 and near the maximum, every third elsewhere), each also "
        "as a NUL-free run WITHOUT terminator that ends the buffer; structure-aware mutations (truncation at every "
        "offset, blob lengths 0x7fffffff..0xffffffff and off-by-k around the remaining bytes, non-zero padding at "
        "every padding byte, NUL first byte of strings, terminators removed, a payload or the whole argument area "
        "replaced by a NUL-free run of 63..264 / maximal length with and without terminator, tags swapped, bytes "
        "flipped/inserted/deleted, trailing bytes, path mutations); random bytes over a biased alphabet up to 512; "
        "bundles and malformed bundles (element sizes that wrap the position, truncation at every offset, size fields "
        "that send the walk back onto an earlier field); a coverage-guided stream (libFuzzer on the working tree's "
        "rtosc.c from a seed corpus of canonical messages incl. large ones: every input that added coverage, every "
        "crash/timeout artifact). Non-trivial = at least 8 bytes starting with '/' or '#bundle'; distinct = distinct "
        "buffer")
ASSUMPTIONS = ["buffer length n < 2^31 (positions are `unsigned`, sizes `int`); generated buffers have n <= 512",
               "the block handed to the functions has exactly n bytes (len argument = block size)",
               "the readers are only required to be safe on buffers the validator accepted",
               "the answer is a function of the n bytes: any pointer alignment, no state kept between calls (the Lean "
               "model has offsets only; tested by the seven placements of every case, not proved)",
               "C locale: isprint() in rtosc_valid_message_p (rtosc.c:687) is modelled as 32 <= c <= 126; the harness "
               "runs with LC_ALL=C and never calls setlocale",
               "src/rtosc.c is compiled into the harness with its assert()s enabled (harness/valid_rtosc_dbg.c), the rest of "
               "the library with -DNDEBUG as the runner does for every harness; an assertion failure counts as a crash",
               "the caller's buffer is not modified while the functions run (single thread)"]
TRUSTED = ["hand-written models RtoscModel/Osc/Valid.lean (length, validator) and RtoscModel/Osc/Read.lean (readers, "
           "shared with C01) of src/rtosc.c",
           "Python reference decoders (strict and padding-blind) in tools/props/c07.py (the Lean reference decoder is "
           "proved to be the inverse of the OSC 1.0 encoder Spec.encode; the Python one is a transcription of it, "
           "cross-checked against the compiled Lean decoder on every non-canonical buffer of a run); libFuzzer/clang-14 "
           "only as an input generator"]
LEVEL_TEXT = ("Lean theorems over all byte strings shorter than 2^31: rtosc_message_length and rtosc_valid_message_p "
              "terminate, read no byte outside the block, report 0 or a length <= n; whenever the validator accepts, "
              "argument string, count, type and argument by index and the iterator read only inside the block "
              "(string terminators and blob extents included), the buffer is the OSC 1.0 encoding (Spec.encode, the "
              "encoder C01 is stated against) of a message m up to the content of bytes that are NUL in that encoding, "
              "and the readers return exactly the tags and values of m - which is what the padding-blind reference "
              "decoder returns, and what the strict OSC 1.0 decoder returns unless the buffer is non-canonical (known "
              "finding C07-K1; proved equivalent to: some padding byte is not NUL or some tag is not one of the 17). "
              "The strict reference decoder is proved to be exactly the inverse of Spec.encode (decode bs = some m iff "
              "m canonical and encode m = bs). The model is compared with the compiled implementation (ASan/UBSan, "
              "seven placements per buffer) on some 250 000 generated buffers per quick run and the property is "
              "evaluated directly on the implementation's output by independent Python decoders")
LEVEL_NOTE = ("Trusted: Lean kernel; the hand-written model is tied to the code by differential execution only; see "
              "evidence trusted_base. Not proved: independence of pointer alignment and of earlier calls (tested on every case); the exact "
              "value of rtosc_message_length on rejected buffers that do not start with an accepted message is not "
              "compared (the property only asks 0 or <= n)")

VERIF = os.path.dirname(os.path.dirname(os.path.dirname(os.path.abspath(__file__))))
TAGS = b"ifsbhtdScrmTFNI[]"
W32 = b"icrf"
W64 = b"htd"
PAYLOAD = b"isbfhtdSrmc"
BUNDLE = b"#bundle\0"


def hx(b):
    return bytes(b).hex() if b else "-"


def unhx(s):
    return b"" if s == "-" else bytes.fromhex(s)


# ---------------------------------------------------------------------------------------
# independent reference decoder (the specification, in Python)
# ---------------------------------------------------------------------------------------
def take_str(bs, pos, strict):
    """OSC-string at pos: (content, next position) or None."""
    e = bs.find(b"\0", pos)
    if e < 0:
        return None
    n = e - pos
    nxt = pos + n + (4 - n % 4)
    if nxt > len(bs):
        return None
    if strict and any(bs[e:nxt]):
        return None
    return bs[pos:e], nxt


def decode(bs, strict=True):
    """-> (addr, tags, [(tag, value, offset)]) for every tag that is not a bracket, or None.
    value: int (32/64 bit, midi), bytes (strings), bytes (blob data), True/False, None."""
    r = take_str(bs, 0, True)
    if r is None:
        return None
    addr, pos = r
    if addr[:1] != b"/" or any(c < 32 or c > 126 for c in addr):
        return None
    r = take_str(bs, pos, strict)
    if r is None:
        return None
    ts, pos = r
    if ts[:1] != b",":
        return None
    tags = ts[1:]
    if strict and any(t not in TAGS for t in tags):
        return None
    vals = []
    for t in tags:
        c = bytes([t])
        if c in b"[]":
            continue
        if c in W32 or c == b"m":
            if pos + 4 > len(bs):
                return None
            vals.append((t, struct.unpack(">I", bs[pos:pos + 4])[0], pos))
            pos += 4
        elif c in W64:
            if pos + 8 > len(bs):
                return None
            vals.append((t, struct.unpack(">Q", bs[pos:pos + 8])[0], pos))
            pos += 8
        elif c in b"sS":
            r = take_str(bs, pos, strict)
            if r is None:
                return None
            vals.append((t, r[0], pos))
            pos = r[1]
        elif c == b"b":
            if pos + 4 > len(bs):
                return None
            n = struct.unpack(">I", bs[pos:pos + 4])[0]
            tot = n + (-n) % 4
            if n >= 2 ** 31 or pos + 4 + tot > len(bs):
                return None
            if strict and any(bs[pos + 4 + n:pos + 4 + tot]):
                return None
            vals.append((t, bs[pos + 4:pos + 4 + n], pos + 4))
            pos += 4 + tot
        elif c == b"T":
            vals.append((t, True, pos))
        elif c == b"F":
            vals.append((t, False, pos))
        else:
            vals.append((t, None, pos))
    if pos != len(bs):
        return None
    return addr, tags, vals


def show(t, v, off):
    c = bytes([t])
    p = "%02x:" % t
    if c in W32 or c == b"m":
        return p + "%08x" % v
    if c in W64:
        return p + "%016x" % v
    if c in b"sS":
        return p + "@%d:%s" % (off, hx(v))
    if c == b"b":
        return p + ("%d@%d:%s" % (len(v), off, hx(v)) if v else "0@-:-")   # empty blob: data pointer not observed
    if c in b"TF":
        return p + ("1" if v else "0")
    return p + "-"


def expected_readers(bs, d):
    addr, tags, vals = d
    comma = len(addr) + (4 - len(addr) % 4)
    tys = bytes(t for t, _, _ in vals)
    lst = ",".join(show(t, v, o) for t, v, o in vals) or "-"
    return "as=%d:%s n=%d ty=%s av=%s it=%s" % (comma + 1, hx(tags), len(vals), hx(tys), lst, lst)


# ---------------------------------------------------------------------------------------
# oracle: the property evaluated on the implementation's output
# ---------------------------------------------------------------------------------------
def parse_out(out):
    w = out.split(" ", 2)
    if len(w) < 2 or not w[0].startswith("len=") or not w[1].startswith("valid="):
        return None
    try:
        # `len=ok`: a rejected buffer whose reported length is 0 or <= n (all the property asks)
        return (None if w[0] == "len=ok" else int(w[0][4:])), int(w[1][6:]), (w[2] if len(w) > 2 else "")
    except ValueError:
        return None


PLACEMENTS = {"fresh0": "fresh block, pointer = 0 mod 4", "fresh1": "fresh block, pointer = 1 mod 4",
              "fresh2": "fresh block, pointer = 2 mod 4", "fresh3": "fresh block, pointer = 3 mod 4",
              "arena-v": "same pointer and length as a valid message seen by the previous calls",
              "arena-j": "same pointer and length as a rejected buffer seen by the previous calls",
              "arena-s": "same pointer and length as a valid one-string message seen by the previous calls"}


def oracle(op, out):
    """The property on what the implementation printed.  When the seven placements of the buffer (see
    harness/valid.cpp) do not give one answer, the property is evaluated on each answer: it speaks about the
    n bytes, wherever they are kept and whatever was validated before."""
    w = op.split()
    if w[0] != "V":
        return None
    bs = unhx(w[1])
    if out.startswith("unstable || "):
        for part in out.split(" || ")[1:]:
            name, _, o = part.partition(": ")
            f = oracle_one(bs, o)
            if f is not None:
                return "%s [placement %s: %s]" % (f, name, PLACEMENTS.get(name, "?"))
        return None
    return oracle_one(bs, out)


def oracle_one(bs, out):
    n = len(bs)
    if out.startswith("crash:signal:27"):
        return "does not terminate (killed by the CPU-time watchdog)"
    if out.startswith("crash:signal:6"):
        return "aborts on untrusted bytes (assertion failure / abort()): %s" % out
    if out.startswith("crash"):
        return "read outside the %d-byte block or crash: %s" % (n, out)
    p = parse_out(out)
    if p is None:
        return "unparsable output"
    ln, valid, rd = p
    if ln is not None and ln != 0 and ln > n:
        return "rtosc_message_length returned %d for %d bytes" % (ln, n)
    if valid:
        d = decode(bs, True)
        if d is None:
            return "validator accepts a buffer that the strict OSC 1.0 decoder rejects"
        exp = expected_readers(bs, d)
        if rd != exp:
            fo = dict(x.split("=", 1) for x in rd.split() if "=" in x)
            fe = dict(x.split("=", 1) for x in exp.split() if "=" in x)
            bad = [k for k in fe if fo.get(k) != fe[k]]
            names = {"as": "rtosc_argument_string", "n": "rtosc_narguments", "ty": "rtosc_type", "av": "rtosc_argument",
                     "it": "rtosc_itr_*"}
            return "readers disagree with the decoder on: " + ", ".join("%s (expected %s, got %s)" % (
                names.get(k, k), fe[k][:80], str(fo.get(k))[:80]) for k in bad[:3])
    return None


# ---------------------------------------------------------------------------------------
# known finding C07-K1: non-canonical encodings are accepted
# ---------------------------------------------------------------------------------------
_trigger_cache = {}


def lean_trigger(token):
    """NonCanonical evaluated by the compiled Lean definitions (driver op T)."""
    if token in _trigger_cache:
        return _trigger_cache[token]
    import vlib
    try:
        r = subprocess.run([vlib.driver_path(ENGINE)], input="T %s\n" % token, stdout=subprocess.PIPE,
                           stderr=subprocess.PIPE, text=True, timeout=30)
        res = r.stdout.split()[:1] == ["nc=1"]
    except Exception:
        res = False
    _trigger_cache[token] = res
    return res


def known(op, impl_out, model_out, defs):
    """C07-K1 only: the validator accepts, the strict decoder rejects, the padding-blind decoder
    accepts (trigger NonCanonical, evaluated here and by the Lean definition), the readers return
    exactly what the padding-blind decoder returns, and the model predicts this very output."""
    if not any(d.get("id") == "C07-K1" for d in defs):
        return None
    w = op.split()
    if w[0] != "V":
        return None
    if model_out is not None and impl_out != model_out:
        return None
    p = parse_out(impl_out)
    if p is None or not p[1]:
        return None
    bs = unhx(w[1])
    if p[0] != len(bs):
        return None
    if decode(bs, True) is not None:
        return None
    d = decode(bs, False)
    if d is None or p[2] != expected_readers(bs, d):
        return None
    if not lean_trigger(w[1]):
        return None
    return "C07-K1"


# ---------------------------------------------------------------------------------------
# generator
# ---------------------------------------------------------------------------------------
def pad_str(s):
    return s + b"\0" * (4 - len(s) % 4)


def rand_addr(rng, n=None):
    n = n if n is not None else rng.choice([1, 2, 3, 4, 5, 6, 7, 8, 11, 12, 13, rng.randint(1, 40)])
    return b"/" + bytes(rng.choice(b"abcxyz019/_-#*,{}[]? ") for _ in range(n - 1))


def rand_tags(rng, lo, hi):
    k = rng.randint(lo, hi)
    return bytes(rng.choice(TAGS) for _ in range(k))


def rand_bytes(rng, n, nul=True):
    return bytes(rng.choice([0, 1, 0x7f, 0x80, 0xff, 0x2c, 0x2f, 0x61]) if rng.random() < 0.3 else rng.getrandbits(8)
                 for _ in range(n)) if nul else bytes(rng.randint(1, 255) for _ in range(n))


MAXLEN = 512
# payload sizes that drive every scan / copy loop of the code past 2^6, 2^7, 2^8 rounds inside the 512-byte domain
BIG = [60, 63, 64, 65, 100, 124, 127, 128, 129, 200, 250, 252, 253, 254, 255, 256, 257, 258, 259, 260, 261, 264,
       300, 384, 400, 448, 480]


def small_size(rng, kind):
    if kind == "s":
        return rng.choice([0, 0, 1, 2, 3, 4, 5, 7, 8, rng.randint(0, 20)])
    return rng.choice([0, 0, 1, 2, 3, 4, 5, 8, rng.randint(0, 24)])


def enc_size(t, k):
    """encoded size of one argument of tag t with a k-byte payload"""
    c = bytes([t])
    if c in W32 or c == b"m":
        return 4
    if c in W64:
        return 8
    if c in b"sS":
        return k + 4 - k % 4
    if c == b"b":
        return 4 + k + (-k) % 4
    return 0


def enc_args(rng, tags, marks, sizes=None):
    """canonical argument bytes; `marks` collects (kind, start, end) regions relative to the
    start of the arguments: 'pad' padding bytes, 'len' blob length fields, 'nul' terminators.
    `sizes`: payload size per tag index (strings, blobs); default: small sizes."""
    out = bytearray()
    for i, t in enumerate(tags):
        c = bytes([t])
        if c in W32 or c == b"m":
            out += struct.pack(">I", rng.choice([0, 1, 0x7fffffff, 0x80000000, 0xffffffff, rng.getrandbits(32)]))
        elif c in W64:
            out += struct.pack(">Q", rng.choice([0, 1, 2 ** 63, 2 ** 64 - 1, rng.getrandbits(64)]))
        elif c in b"sS":
            k = sizes[i] if sizes and i in sizes else small_size(rng, "s")
            s = rand_bytes(rng, k, nul=False)
            marks.append(("nul", len(out) + len(s), len(out) + len(s) + 1))
            marks.append(("str0", len(out), len(out) + 1))
            e = pad_str(s)
            marks.append(("pad", len(out) + len(s) + 1, len(out) + len(e)))
            out += e
        elif c == b"b":
            k = sizes[i] if sizes and i in sizes else small_size(rng, "b")
            d = rand_bytes(rng, k)
            marks.append(("len", len(out), len(out) + 4))
            out += struct.pack(">I", len(d)) + d
            pl = (-len(d)) % 4
            marks.append(("pad", len(out), len(out) + pl))
            out += b"\0" * pl
    return bytes(out)


def make_msg(rng, tags=None, addr=None, big=None):
    """-> (bytes, marks) with marks in absolute offsets; plus ('tags', a, b), ('tnul', ..), ('apad', ..).
    `big`: one string/blob argument (chosen at random) gets a payload of `big` bytes — or, for big='max'
    or when `big` bytes do not fit, the largest payload that keeps the message inside MAXLEN bytes."""
    addr = addr if addr is not None else rand_addr(rng)
    tags = tags if tags is not None else (rand_tags(rng, 0, 6) if rng.random() < 0.8 else rand_tags(rng, 0, 24))
    marks = []
    a = pad_str(addr)
    ts = pad_str(b"," + tags)
    sizes = {}
    for i, t in enumerate(tags):
        if bytes([t]) in b"sS":
            sizes[i] = small_size(rng, "s")
        elif t == 0x62:
            sizes[i] = small_size(rng, "b")
    if big is not None and sizes:
        i = rng.choice(sorted(sizes))
        others = len(a) + len(ts) + sum(enc_size(t, sizes.get(j, 0)) for j, t in enumerate(tags) if j != i)
        room = MAXLEN - others - (4 if tags[i] == 0x62 else 1)       # largest payload that still fits
        room -= (room + (0 if tags[i] == 0x62 else 1)) % 4 if room > 0 else 0
        if room >= 0:
            sizes[i] = room if big == "max" or big > room else big
    rel = []
    args = enc_args(rng, tags, rel, sizes)
    base = len(a) + len(ts)
    marks.append(("apad", len(addr), len(a)))
    marks.append(("comma", len(a), len(a) + 1))
    marks.append(("tags", len(a) + 1, len(a) + 1 + len(tags)))
    marks.append(("nul", len(a) + 1 + len(tags), len(a) + 2 + len(tags)))
    marks.append(("pad", len(a) + 2 + len(tags), base))
    for k, s, e in rel:
        marks.append((k, base + s, base + e))
    return a + ts + args, marks


def fit_tags(rng, lo, hi):
    """a long type string (lo..hi tags) whose canonical message still fits MAXLEN bytes with a short
    address: mostly tags without payload, some 4/8-byte ones, a few small strings/blobs"""
    k = rng.randint(lo, hi)
    room = MAXLEN - 16 - (k + 5)
    out = bytearray()
    for _ in range(k):
        t = rng.choice(b"TFNI[]TFNI[]TFNI[]xZ" if room < 40 else TAGS + b"TFNI[]iifhm")
        if bytes([t]) in b"sSb":
            room -= 32
        else:
            room -= enc_size(t, 0)
        out.append(t)
    return bytes(out)


def nonul(rng, k):
    c = rng.random()
    if c < 0.4:
        return bytes([rng.choice(b"Aaz/,s\xff\x01\x80")]) * k
    return bytes(rng.randint(1, 255) for _ in range(k))


def size_sweeps(rng, quick, stats):
    """Every size of every variable-length part inside the 512-byte domain.
    (kind, buffer): canonical messages with an address of every length, a type string with every number of
    tags, a string argument and a blob of every length (so every scan loop of validator and readers runs 0, 1, 2,
    ... up to ~500 rounds); and the same NUL-free runs WITHOUT a terminator inside the buffer (the buffer ends
    inside the path / the type string / the string argument), which the validator has to reject however long the
    run is.  Quick tier: every length in the windows around 2^6, 2^7, 2^8 and near the maximum, every third length
    elsewhere (random phase)."""
    ph = rng.randrange(3)

    def pick(k, top):
        if not quick:
            return True
        return k < 12 or k % 3 == ph or k > top - 10 or any(abs(k - c) <= 6 for c in (64, 128, 256))

    heads = [b",s", b",S", b",si", b",ss", b",is", b",bs", b",sb", b",Ts", b",[s]"]
    for k in range(0, MAXLEN):
        # address of k+1 bytes
        if pick(k, MAXLEN - 8) and k + 1 <= MAXLEN - 8:
            addr = b"/" + bytes(rng.choice(b"abcxyz019/_-#*,{}[]? ~!") for _ in range(k))
            m = pad_str(addr) + pad_str(b"," + rng.choice([b"", b"i", b"s", b"T"]))
            tail = {0x69: struct.pack(">I", rng.getrandbits(32)), 0x73: pad_str(nonul(rng, rng.randint(0, 5)))}
            m += tail.get(m[len(pad_str(addr)) + 1], b"")
            if len(m) <= MAXLEN:
                yield "addr", m
        if pick(k, MAXLEN - 1) and k >= 1:
            yield "addr-noterm", b"/" + (bytes(rng.randint(33, 126) for _ in range(k - 1)) if rng.random() < 0.5 else b"a" * (k - 1))
        # k tags
        if pick(k, MAXLEN - 12) and k <= MAXLEN - 12:
            tg = bytes(rng.choice(b"TFNI[]") for _ in range(k))
            yield "tags", b"/a\0\0" + pad_str(b"," + tg)
            ni = min(k, (MAXLEN - 12 - k) // 4)
            tg2 = bytearray(tg)
            for j in rng.sample(range(k), ni) if ni and rng.random() < 0.7 else []:
                tg2[j] = rng.choice(b"ifcrm")
            m = b"/a\0\0" + pad_str(b"," + bytes(tg2)) + bytes(rng.getrandbits(8) for _ in range(4 * sum(t in b"ifcrm" for t in tg2)))
            if len(m) <= MAXLEN:
                yield "tags", m
            yield "tags-noterm", b"/a\0\0," + bytes(rng.choice(b"TFNI[]i") for _ in range(k))
        # string / blob of k bytes behind one of several heads
        hd = rng.choice(heads)
        pre = b"/a\0\0" if rng.random() < 0.7 else pad_str(rand_addr(rng))
        for tag, kind in ((0x73, "str"), (0x62, "blob")):
            tags = hd[1:] if tag == 0x73 else hd[1:].replace(b"s", b"b").replace(b"S", b"b")
            if tag == 0x62 and rng.random() < 0.3:
                tags = rng.choice([b"b", b"bi", b"bb", b"sb", b"bs"])
            idx = [j for j, t in enumerate(tags) if t == tag or (tag == 0x73 and t == 0x53)]
            j = rng.choice(idx)
            sizes = {x: rng.choice([0, 1, 3, 4]) for x, t in enumerate(tags) if bytes([t]) in b"sSb"}
            sizes[j] = k
            head = pre + pad_str(b"," + tags)
            if len(head) + sum(enc_size(t, sizes.get(x, 0)) for x, t in enumerate(tags)) > MAXLEN or not pick(k, MAXLEN - 20):
                continue
            m = head + enc_args(rng, tags, [], sizes)
            yield kind, m
        # an unterminated NUL-free run of k bytes as the last thing in the buffer
        if k >= 1 and pick(k, MAXLEN - 8):
            for hd2 in ([b",s", rng.choice(heads)] if quick else heads):
                tags = hd2[1:]
                j = [x for x, t in enumerate(tags) if bytes([t]) in b"sS"][-1]
                head = b"/a\0\0" + pad_str(b"," + tags)
                sizes = {x: rng.choice([0, 1, 3, 4]) for x, t in enumerate(tags[:j]) if bytes([t]) in b"sSb"}
                front = enc_args(rng, tags[:j], [], sizes)
                if len(head) + len(front) + k <= MAXLEN:
                    yield "str-noterm", head + front + nonul(rng, k)


def long_run_mutations(rng, m, marks):
    """replace a string / blob payload, or everything behind the type string, by k NUL-free bytes, k around
    2^6, 2^7, 2^8 and the largest that fits, with and without terminator"""
    n = len(m)
    starts = [s for k, s, e in marks if k == "str0"] + [s + 4 for k, s, e in marks if k == "len"]
    base = [e for k, s, e in marks if k == "pad"][0]
    for s in sorted(set(starts + [base]))[:3]:
        room = MAXLEN - s
        for k in sorted(set([63, 64, 65, 127, 128, 129, 252, 255, 256, 257, 260, 261, 264, room, room - 1, room - 4])):
            if k < 1 or k > room:
                continue
            run = nonul(rng, k)
            yield "run", m[:s] + run
            if k + 1 <= room:
                t = pad_str(run)[:room - 0]
                yield "runz", (m[:s] + t)[:MAXLEN]
            # the rest of the message behind the run (aligned): later arguments are taken from behind it
            rest = m[s + 4:][:max(0, room - k - 4)]
            if rest:
                yield "runrest", (m[:s] + pad_str(run) + rest)[:MAXLEN]


BLOB_LENS = [0x7fffffff, 0x80000000, 0xfffffff0, 0xfffffff4, 0xfffffff8, 0xfffffffc, 0xffffffff, 0x7ffffffc,
             0x00000100, 0x01000000, 0xfffffffb, 0xfffffff9]


def mutate(rng, m, marks, stats):
    """yields (kind, bytes) mutations of the canonical message m"""
    n = len(m)
    pads = [i for k, s, e in marks if k == "pad" for i in range(s, e)]
    lens = [s for k, s, e in marks if k == "len"]
    nuls = [s for k, s, e in marks if k == "nul"]
    tagpos = [i for k, s, e in marks if k == "tags" for i in range(s, e)]
    str0 = [s for k, s, e in marks if k == "str0"]
    # non-zero padding: every padding byte once, and all of them together
    for i in (pads if len(pads) <= 24 else sorted(rng.sample(pads, 24))):
        b = bytearray(m)
        b[i] = rng.choice([1, 0x61, 0xff, 0x2c, 0x80])
        yield "pad1", bytes(b)
    if pads:
        b = bytearray(m)
        for i in pads:
            b[i] = rng.choice([1, 0x61, 0xff])
        yield "padall", bytes(b)
    # K3 shape: string whose first byte is NUL but is followed by other bytes
    for s in str0:
        b = bytearray(m)
        b[s] = 0
        yield "str0", bytes(b)
        if s + 4 <= n:
            b[s + 1:s + 4] = b"abc"
            yield "str0abc", bytes(b)
    # blob lengths
    for s in lens:
        for v in BLOB_LENS + [n - s, n - s - 4, n - s - 3, n - s - 5, n, 2 ** 32 - (s + 4) + 8, 2 ** 32 - 4 - s,
                              2 ** 32 - s, 2 ** 32 - s + 4]:
            b = bytearray(m)
            b[s:s + 4] = struct.pack(">I", v % 2 ** 32)
            yield "bloblen", bytes(b)
    # terminators removed
    for s in nuls:
        b = bytearray(m)
        b[s] = rng.choice([0x61, 0x2c, 0xff])
        yield "nonul", bytes(b)
    # tags swapped / removed
    for i in (tagpos if len(tagpos) <= 24 else sorted(rng.sample(tagpos, 24))):
        b = bytearray(m)
        b[i] = rng.choice(b"ifsbhtdScrmTFNI[]xZ\x00\x01\xff,")
        yield "tag", bytes(b)
    # truncation at every offset (quick: a sample), extension
    cuts = range(n) if n <= 48 else sorted(set(rng.sample(range(n), 28)) | set(range(n - 4, n)))
    for c in cuts:
        yield "trunc", m[:c]
    for k in (1, 2, 3, 4, 8):
        yield "ext0", m + b"\0" * k
        yield "extr", m + rand_bytes(rng, k)
    # bytes flipped / inserted / deleted
    for _ in range(6):
        b = bytearray(m)
        c = rng.randint(0, 3)
        i = rng.randrange(n)
        if c == 0:
            b[i] = rng.getrandbits(8)
        elif c == 1:
            b[i] = rng.choice([0, 0x2c, 0x2f, 0x62, 0x73, 0xff, 0x80, 0x7f, 0x1f, 0x20])
        elif c == 2:
            b[i:i] = rand_bytes(rng, rng.randint(1, 4))
        else:
            del b[i:i + rng.randint(1, 4)]
        yield "flip", bytes(b)
    # path mutations
    apad = [(s, e) for k, s, e in marks if k == "apad"][0]
    for v in (0x1f, 0x7f, 0x80, 0xff, 0x0a, 0x20, 0x7e, 0x2c):
        if apad[0] > 1:
            b = bytearray(m)
            b[rng.randrange(1, apad[0])] = v
            yield "path", bytes(b)
    b = bytearray(m)
    b[0] = rng.choice([0x61, 0x23, 0x00, 0x2c, 0x5c])
    yield "path", bytes(b)
    for i in range(apad[0], apad[1]):
        b = bytearray(m)
        b[i] = rng.choice([1, 0x2c, 0x61])
        yield "apad", bytes(b)
    yield "apad4", m[:apad[1]] + b"\0\0\0\0" + m[apad[1]:]
    yield "apad-", m[:apad[0]] + m[apad[1]:]


def make_bundle(rng, depth=0):
    out = bytearray(BUNDLE + struct.pack(">Q", rng.choice([0, 1, rng.getrandbits(64)])))
    for _ in range(rng.randint(0, 3)):
        if depth < 2 and rng.random() < 0.25:
            e = make_bundle(rng, depth + 1)
        else:
            e = make_msg(rng)[0]
        out += struct.pack(">I", len(e)) + e
    return bytes(out)


ADV = [0xfffffffc, 0xfffffff8, 0xffffffff, 0xfffffff0, 0x80000000, 0x7fffffff, 0xffffffec, 0xffffffe8, 1, 2, 3, 4, 5]


def bundle_mutations(rng, b):
    n = len(b)
    yield b
    for c in range(0, n + 1, 1 if n < 64 else 3):
        yield b[:c]
    # every element-size field: wrap-around values and off-by-k
    pos = 16
    fields = []
    while pos + 4 <= n:
        v = struct.unpack(">I", b[pos:pos + 4])[0]
        fields.append(pos)
        if v == 0 or pos + 4 + v > n:
            break
        pos += 4 + v
    for f in fields:
        for v in ADV + [n - f, n - f - 4, n - f - 3, 2 ** 32 - 4, 2 ** 32 - 4 - f, 2 ** 32 - f + 12]:
            x = bytearray(b)
            x[f:f + 4] = struct.pack(">I", v % 2 ** 32)
            yield bytes(x)
    for v in ADV:
        yield b + struct.pack(">I", v)
        yield b + struct.pack(">I", v) + b"\0" * rng.choice([0, 4, 8])
    for _ in range(4):
        x = bytearray(b)
        x[rng.randrange(n)] = rng.getrandbits(8)
        yield bytes(x)


def sized_msg(L):
    """a valid message of exactly L bytes (L a multiple of 4, L >= 8): "/aa…" + ","."""
    k = L - 6
    a = b"/" + b"a" * k
    m = a + b"\0" * (L - 4 - len(a)) + b",\0\0\0"
    assert len(m) == L, (L, len(m))
    return m


def bundle_cycles(rng):
    """Bundles whose last element-size field — complete, or cut after 1..3 bytes and completed with the zero bytes
    deref() supplies behind the block — would move the 32-bit position *backwards* onto an earlier size field
    (4 + V = -(bytes walked since that field) mod 2^32): the walk of bundle_ring_length then never ends unless the
    "element has to fit" test rejects V.  A cut field needs the walked distance to be 252 mod 256 (3 bytes present)
    or 65532 mod 65536 (2 bytes present); inside the 512-byte domain only 252 itself fits (16 + 252 + 3 bytes and
    up to two elements in front), so that is what is built."""
    for dist, keep in ((252, 3), (252, 3), (252, 3), (252, 3)):
        # elements in front of the target field (any), then elements whose 4+L sum to `dist`
        pre = [rng.choice([8, 12, 16, 40, 100]) for _ in range(rng.randint(0, 2))]
        parts = []
        left = dist
        while left > 0:
            if left <= 256 and (rng.random() < 0.4 or left < 24):
                step = left
            else:
                step = min(left, 4 * rng.randint(3, 40)) if left < 4000 else left
            if left - step in (4, 8):            # the remainder must hold another 4+L with L >= 8
                step = left
            parts.append(step - 4)
            left -= step
        b = bytearray(BUNDLE + struct.pack(">Q", rng.choice([0, 1, rng.getrandbits(64)])))
        for L in pre + parts:
            b += struct.pack(">I", L) + sized_msg(L)
        v = struct.pack(">I", (2 ** 32 - 4 - dist) % 2 ** 32)
        assert v[keep:] == b"\0" * (4 - keep)
        for k in (1, 2, 3, 4):
            yield bytes(b) + v[:k]
        yield bytes(b) + v + b"\0" * 4
        yield bytes(b) + v + sized_msg(8)
        yield bytes(b) + b"\xff" * keep
        yield bytes(b) + b"\xff" * 4


ALPHA8 = [0x00, 0x2f, 0x2c, 0x69, 0x73, 0x62, 0x61, 0xff]
ALPHA6 = [0x00, 0x69, 0x73, 0x62, 0x01, 0xff]


def all_strings(alpha, n):
    if n == 0:
        yield b""
        return
    for s in all_strings(alpha, n - 1):
        for a in alpha:
            yield s + bytes([a])


def prefill_triggers(ops):
    """One batched driver run evaluates the Lean trigger for every generated buffer that the
    Python decoders classify as non-canonical (instead of one process per buffer in known())."""
    import vlib
    toks = []
    for op in ops:
        w = op.split()
        if w[0] == "V" and w[1] not in _trigger_cache:
            m = unhx(w[1])
            if m[:1] == b"/" and decode(m, True) is None and decode(m, False) is not None:
                toks.append(w[1])
    if not toks or not os.path.exists(vlib.driver_path(ENGINE)):
        return
    try:
        r = subprocess.run([vlib.driver_path(ENGINE)], input="".join("T %s\n" % t for t in toks),
                           stdout=subprocess.PIPE, stderr=subprocess.PIPE, text=True, timeout=600)
        outs = r.stdout.split("\n")
        if r.returncode == 0 and len(outs) >= len(toks):
            for t, o in zip(toks, outs):
                _trigger_cache[t] = o.split()[:1] == ["nc=1"]
    except Exception:
        pass


def fuzz_stream(rng, tier, stats):
    """Coverage-guided stream: a libFuzzer target (harness/valid_fuzz.c + the working tree's
    rtosc.c) is run from a seed corpus of canonical messages; every input it keeps (new coverage)
    and every crash/timeout artifact becomes an op line.  Input generator only; if clang or the
    fuzzer runtime is missing the stream is skipped and that is recorded."""
    import hashlib
    import shutil
    import vlib
    cc = shutil.which("clang-14") or shutil.which("clang")
    if not cc:
        stats["fuzzer"] = "skipped: no clang"
        return
    srcs = [os.path.join(VERIF, "harness", "valid_fuzz.c"), os.path.join(vlib.REPO, "src", "rtosc.c")]
    hdr = os.path.join(vlib.REPO, "include", "rtosc", "rtosc.h")
    h = hashlib.sha256()
    for f in srcs + [hdr]:
        try:
            h.update(open(f, "rb").read())
        except OSError:
            h.update(b"?")
    os.makedirs(vlib.BUILD, exist_ok=True)
    exe = os.path.join(vlib.BUILD, "fz-C07-" + h.hexdigest()[:16])
    if not os.path.exists(exe):
        for f in os.listdir(vlib.BUILD):
            if f.startswith("fz-C07-"):
                try:
                    os.remove(os.path.join(vlib.BUILD, f))
                except OSError:
                    pass
        r = subprocess.run([cc, "-g", "-O1", "-fsanitize=fuzzer,address", "-DNDEBUG", "-I", os.path.join(vlib.REPO, "include")]
                           + srcs + ["-o", exe + ".tmp%d" % os.getpid()], stdout=subprocess.PIPE, stderr=subprocess.STDOUT, text=True)
        if r.returncode != 0:
            stats["fuzzer"] = "skipped: target does not build: " + r.stdout[-200:]
            return
        os.rename(exe + ".tmp%d" % os.getpid(), exe)
    work = os.path.join(vlib.BUILD, "fz-run-%d" % os.getpid())
    shutil.rmtree(work, ignore_errors=True)
    os.makedirs(os.path.join(work, "corpus"))
    os.makedirs(os.path.join(work, "art"))
    try:
        for i in range(40):
            m, _ = make_msg(rng)
            open(os.path.join(work, "corpus", "seed%02d" % i), "wb").write(m)
        for i, big in enumerate([64, 128, 255, 256, 257, 300, "max", "max"]):
            m, _ = make_msg(rng, tags=rng.choice([b"s", b"b", b"sb", b"bs", b"isb", b"bsi"]), big=big)
            open(os.path.join(work, "corpus", "seedbig%02d" % i), "wb").write(m[:MAXLEN])
        open(os.path.join(work, "corpus", "seedtags"), "wb").write(make_msg(rng, tags=fit_tags(rng, 100, 300), addr=b"/a")[0][:MAXLEN])
        open(os.path.join(work, "corpus", "seedb"), "wb").write(make_bundle(rng))
        runs = 150000 if tier == "quick" else 12000000
        try:
            subprocess.run([exe, "-seed=%d" % rng.randint(1, 2 ** 31 - 1), "-runs=%d" % runs, "-max_len=512", "-timeout=5",
                            "-artifact_prefix=" + os.path.join(work, "art") + "/", os.path.join(work, "corpus")],
                           stdout=subprocess.DEVNULL, stderr=subprocess.DEVNULL, timeout=1500,
                           env=dict(os.environ, ASAN_OPTIONS="detect_leaks=0"))
        except subprocess.TimeoutExpired:
            pass
        n = 0
        for d in ("art", "corpus"):
            for f in sorted(os.listdir(os.path.join(work, d))):
                if f.startswith("seed"):
                    continue
                m = open(os.path.join(work, d, f), "rb").read()
                n += 1
                yield m
        stats["fuzzer"] = "libFuzzer, %d runs, %d inputs kept, %d artifacts" % (runs, n, len(os.listdir(os.path.join(work, "art"))))
    finally:
        shutil.rmtree(work, ignore_errors=True)


def generate(rng, tier, stats):
    ops = list(_generate(rng, tier, stats))
    prefill_triggers(ops)
    for op in ops:
        yield op


def _generate(rng, tier, stats):
    quick = tier == "quick"
    stats.update({"exhaustive_le4": 0, "tails": 0, "tails_exhaustive": not quick, "canonical": 0, "mutations": {},
                  "random": 0, "bundles": 0, "size_hist": {}, "tag_count": {}, "strict_ok": 0, "lax_only": 0})

    def emit(kind, m):
        m = bytes(m[:512])
        b = min(len(m) // 16, 32)
        stats["size_hist"][b] = stats["size_hist"].get(b, 0) + 1
        if m[:1] == b"/":
            d = decode(m, True)
            if d is not None:
                stats["strict_ok"] += 1
                for t, v, o in d[2]:
                    if isinstance(v, bytes) and len(v) > stats.get("max_payload", 0):
                        stats["max_payload"] = len(v)
                    if isinstance(v, bytes) and len(v) >= 256:
                        stats["payload_ge_256"] = stats.get("payload_ge_256", 0) + 1
            elif decode(m, False) is not None:
                stats["lax_only"] += 1
        return "V " + hx(m)

    # 1. exhaustive: every buffer up to 4 bytes over 8 symbols
    for n in range(0, 5):
        for s in all_strings(ALPHA8, n):
            stats["exhaustive_le4"] += 1
            yield emit("ex", s)
    # 2. tails behind "/a\0\0,": 3 (+4k) bytes over 6 symbols
    pre = b"/a\0\0,"
    for s in all_strings(ALPHA6, 3):
        stats["tails"] += 1
        yield emit("tail", pre + s)
    if quick:
        for _ in range(20000):
            stats["tails"] += 1
            yield emit("tail", pre + bytes(rng.choice(ALPHA6) for _ in range(rng.choice([7, 7, 11]))))
    else:
        for s in all_strings(ALPHA6, 7):
            stats["tails"] += 1
            yield emit("tail", pre + s)
        for _ in range(250000):
            stats["tails"] += 1
            yield emit("tail", pre + bytes(rng.choice(ALPHA6) for _ in range(11)))
    # 3. canonical messages and their mutations
    # every single tag, every pair
    singles = [bytes([t]) for t in TAGS + b"xZ"] + [bytes([a, b]) for a in TAGS for b in TAGS]
    for tags in singles:
        m, marks = make_msg(rng, tags=tags)
        stats["canonical"] += 1
        yield emit("canon", m)
        if len(tags) == 1 or not quick:
            for k, x in mutate(rng, m, marks, stats):
                stats["mutations"][k] = stats["mutations"].get(k, 0) + 1
                yield emit(k, x)
    stats.update({"big_args": 0, "long_tags": 0, "long_addr": 0, "sweeps": {}, "max_payload": 0, "max_tags": 0,
                  "max_addr": 0})
    for it in range(2000 if quick else 24000):
        r = rng.random()
        if r < 0.80:
            m, marks = make_msg(rng)
        elif r < 0.92:       # one large string / blob (sizes around 2^6, 2^7, 2^8, and the largest that fits)
            tg = rand_tags(rng, 0, 4) + rng.choice([b"s", b"b", b"S"]) + rand_tags(rng, 0, 3)
            m, marks = make_msg(rng, tags=tg, big=rng.choice(BIG + ["max", "max", "max"]))
            stats["big_args"] += 1
        elif r < 0.97:       # more than 24 tags
            m, marks = make_msg(rng, tags=fit_tags(rng, 25, rng.choice([40, 64, 130, 260, 400])), addr=rand_addr(rng, rng.randint(1, 8)))
            stats["long_tags"] += 1
        else:                # addresses longer than 40 bytes
            m, marks = make_msg(rng, tags=rand_tags(rng, 0, 4), addr=rand_addr(rng, rng.choice(
                [41, 63, 64, 65, 100, 127, 128, 129, 200, 255, 256, 257, 300, 400, 470])), big=rng.choice([None, 8, "max"]))
            stats["long_addr"] += 1
        if len(m) > MAXLEN:
            continue
        tg = m[marks[2][1]:marks[2][2]]
        for t in tg:
            stats["tag_count"][chr(t)] = stats["tag_count"].get(chr(t), 0) + 1
        stats["max_tags"] = max(stats["max_tags"], len(tg))
        stats["max_addr"] = max(stats["max_addr"], marks[0][1])
        stats["canonical"] += 1
        yield emit("canon", m)
        for k, x in mutate(rng, m, marks, stats):
            stats["mutations"][k] = stats["mutations"].get(k, 0) + 1
            yield emit(k, x)
        if r >= 0.80 and it % 4 == 0:
            for k, x in long_run_mutations(rng, m, marks):
                stats["mutations"][k] = stats["mutations"].get(k, 0) + 1
                yield emit(k, x)
    # every address length 1..40 (every residue mod 4)
    for n in range(1, 41):
        m, marks = make_msg(rng, addr=rand_addr(rng, n))
        stats["canonical"] += 1
        yield emit("canon", m)
    # every size of every variable-length part, terminated and not
    for k, x in size_sweeps(rng, quick, stats):
        stats["sweeps"][k] = stats["sweeps"].get(k, 0) + 1
        yield emit(k, x)
    # long NUL-free runs in place of a payload
    for _ in range(30 if quick else 1500):
        m, marks = make_msg(rng, tags=rng.choice([b"s", b"si", b"is", b"ss", b"b", b"bs", b"sb", b"Sb", b"[s]i"]))
        for k, x in long_run_mutations(rng, m, marks):
            stats["mutations"][k] = stats["mutations"].get(k, 0) + 1
            yield emit(k, x)
    # 4. random bytes
    for _ in range(20000 if quick else 1000000):
        stats["random"] += 1
        r = rng.random()
        n = rng.randint(0, 24) if r < 0.5 else (rng.randint(0, 128) if r < 0.9 else rng.randint(0, 512))
        m = bytes(rng.choice(b"\0\0\0/,isbhS[]\xff\x01ab") if rng.random() < 0.8 else rng.getrandbits(8) for _ in range(n))
        if rng.random() < 0.5:
            m = b"/" + m[1:]
        yield emit("rand", m)
    # 5. bundles
    for _ in range(150 if quick else 10000):
        b = make_bundle(rng)
        for x in bundle_mutations(rng, b):
            stats["bundles"] += 1
            yield emit("bundle", x)
    for v in ADV:
        stats["bundles"] += 1
        yield emit("bundle", BUNDLE + b"\0" * 8 + struct.pack(">I", v))
    stats["bundle_cycles"] = 0
    for _ in range(3 if quick else 40):
        for x in bundle_cycles(rng):
            stats["bundle_cycles"] += 1
            yield emit("bundle", x)
    # 6. coverage-guided stream
    stats["fuzz_inputs"] = 0
    for m in fuzz_stream(rng, tier, stats):
        stats["fuzz_inputs"] += 1
        yield emit("fuzz", m)


def nontrivial(op):
    w = op.split()
    if w[0] != "V":
        return False
    m = unhx(w[1])
    return len(m) >= 8 and (m[:1] == b"/" or m[:8] == BUNDLE)


def neighbours(op, rng):
    """inputs near a disagreement: single-byte edits, truncations and extensions of the buffer"""
    w = op.split()
    if w[0] != "V":
        return
    m = unhx(w[1])
    for c in range(len(m) + 1):
        yield "V " + hx(m[:c])
    for i in range(len(m)):
        for v in (0, 1, 0x2c, 0x2f, 0x62, 0x69, 0x73, 0xff, m[i] ^ 0x80, (m[i] + 1) % 256):
            b = bytearray(m)
            b[i] = v
            yield "V " + hx(b)
    for k in (1, 2, 3, 4):
        yield "V " + hx(m + b"\0" * k)
