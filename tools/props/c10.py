"""C10 — Pretty-printing is reversible: scanning printed text returns the values."""
import struct

PROP = "C10"
ENGINE = "pretty"
# the table obligations have a module of their own: a changed table of pretty-format.c breaks that module (one
# obligation that names the table), not the 50-odd theorems of Props/C10.lean
LEAN_MODULES = ["RtoscModel.Props.C10", "RtoscModel.Props.C10Tables"]
_NS = "Rtosc.Pretty."
THEOREMS = [_NS + t for t in (
    # tier 1: token codecs, every value of the type, any print options
    "int_roundtrip", "int64_roundtrip", "char_roundtrip", "string_roundtrip", "symbol_roundtrip",
    "blob_roundtrip", "midi_roundtrip", "color_roundtrip", "keyword_roundtrip",
    "float_lossless_roundtrip", "double_lossless_roundtrip", "timetag_roundtrip", "timetag_fraction_roundtrip",
    # tier 2: argument lists and whole messages that the printer does not compress
    "list_roundtrip", "message_roundtrip", "list_roundtrip_uncompressed", "message_roundtrip_uncompressed",
    # the proved part of the full statement (print_scan_roundtrip_statement stays a def)
    "print_scan_roundtrip_partial",
    # tier 3, partial: with compression off the full statement (scalars and arrays of scalars), lists and messages
    "print_scan_roundtrip_nocompress", "message_roundtrip_nocompress", "array_roundtrip_nocompress",
    # tier 3, range compression, for lists that are one run: nxA and a [b] ... z
    "range_roundtrip_const", "range_roundtrip_int",
    # ... and arithmetic runs of int64 ('h') and of characters ('c'), for lists that are exactly one run
    # (cell level: Proofs/PrettyRunHuge.lean, PrettyRunChar.lean; statement level: Props/C10.lean)
    "huge_run_roundtrip", "char_run_roundtrip", "range_roundtrip_huge", "range_roundtrip_char",
    "huge_run_needs_hrange", "huge_run_needs_hwidth", "huge_delta_count_wraps", "char_run_signed_counterexample",
    # tier 3, range compression in context: constant runs of any scalar type and int32 arithmetic runs among
    # uncompressed scalar values, in any number and order (the cell-level theorem and the statement-level one)
    "runs_roundtrip_cells", "print_scan_roundtrip_runs_partial",
    "runs_message_roundtrip_cells", "message_roundtrip_runs_partial",
    # tier 3, range compression AND arrays: values, compressed runs and arrays of scalars that themselves contain
    # compressed runs, in any number and order, values and runs directly behind an array included (cell level and
    # statement level, lists and whole messages); the side condition for an array header from the next argument;
    # rtosc_convert_to_range does not look behind `size` cells; the array tag is the type of the last element
    "runs_arrays_roundtrip_cells", "print_scan_roundtrip_arrays_partial",
    "runs_arrays_message_roundtrip_cells", "message_roundtrip_arrays_partial",
    "PrinterPieces.arr_of_next", "convertToRange_arr_next", "convertToRange_append", "arrTag_eq",
    # the run conditions from the values when arrays may follow the run
    "PrinterPieces.crun_of_next", "PrinterPieces.irun_of_next",
    "convertToRange_crun_of_nextW", "convertToRange_irun_of_nextW",
    # the original list of a list of pieces is an argument list of the property's domain (ItemInDomain)
    "PrinterPieces.inDomain", "PrinterSegments.domain",
    # the checker model has no nesting bound that the code lacks: the recursion bound handed to the skipper covers the
    # previous argument too (checkFuel), a larger bound never changes an answer; the former counterexample now reads
    "skipNextPrintedArg_fuel_mono", "nested_arrays_deep_reads", "nested_arrays_deep_roundtrips",
    # when rtosc_convert_to_range finds a run that is followed by further values (the run hypotheses from the values)
    "convertToRange_crun_of_next", "convertToRange_irun_of_next",
    "PrinterSegments.crun_of_next", "PrinterSegments.irun_of_next",
    # the model is written over the constants/tables extracted from the source on every run (Props/C10Tables.lean:
    # one theorem per table, and their conjunction)
    # the try-order of scanf_fmtstr is compared up to the one commutation that is proved neutral: "%*lfd%n" / "%*ff%n"
    # never both consume the same non-empty numeric word (Proofs/PrettyTryOrder.lean)
    "scanfFmtstr_order", "scanfFmtstr_swap_lfd_ff", "scanfFmtstr_order_swapped", "tryLfd_tryFf_exclusive",
    "translator_ok", "rangeMin_agrees", "escapeTables_agree", "unescapeTables_agree", "tryOrder_agrees",
    "reservedWords_agree", "defaultOpt_agrees", "tables_agree", "escape_tables_inverse")]
HARNESS = {"src": ["pretty.cpp"]}
RULE = ("each case: print options (lossless, precision 0..9, line length 10..120, compression on/off; in 4 % of the lossless "
        "cases opt == NULL, i.e. default_print_options; in 15 % of the cases cols_used != 0: 1..5, 8, line length -2..+1, "
        "1..line length+10 — in list mode the buffer then points cols_used bytes into a line the caller has written, whose "
        "last byte is the separator the printer may turn into the line break) and an argument "
        "list of 0..12 top-level values per type or mixed (i h c f d s S b m r t T F N I; finite floats only in lossless "
        "mode; strings of 0..600 characters of printable ASCII and C escapes incl. fragments of the format's own syntax; "
        "symbols of 1..91 characters over the whole identifier alphabet [A-Za-z0-9_], incl. the reserved words, the reserved "
        "words in every other capitalisation (nIL, True, INF, mIDI ...), and both with an identifier tail or prefix; blobs of 0..300 bytes (header widths 8..11); time tags "
        "'immediately', without fraction, with float-representable fraction in lossless mode, and without lossless mode "
        "with a fraction that max(precision,1) decimal digits denote exactly, that the scanner reads from such digits, "
        "or any float-representable one incl. values just below 1 and below 2^-8 — the last kind compared to the "
        "printed precision: less than one unit of the last printed digit apart), constant and arithmetic runs of length "
        "1..12 of every type (incl. wrap-around and signed-zero runs), arrays of 0..8 elements, runs of 1..12 equal "
        "arrays (the repeated array being any generated array: up to 8 elements, compressible runs inside — one to "
        "four adjacent constant / arithmetic runs —, arrays inside), nested arrays (0.6 %: one value nested 1..16 deep directly in front of a run; arrays of small arrays, of full "
        "arrays with runs inside, of runs of equal arrays); in 5 % of the cases the list already CONTAINS range cells as the "
        "scanner or rtosc_convert_to_range make them (at top level and inside arrays of scalars: a run of >= 2 equal values given as "
        "`n x value`, an arithmetic c/i/h run of >= 3 values as range header + delta + start, under the guards of "
        "rtosc_convert_to_range), printed with compression on (nxA / a b ... z) and off (expanded); in 14 % of the cases (90 % of them with compression on) 2..4 ADJACENT runs of one type, "
        "each of length 1..9 around the threshold: constant runs and arithmetic runs with steps +-1 and others of c / i "
        "/ h, constant and alternating boolean runs, constant runs of every other type (floats and doubles also as the "
        "neighbouring float, the other zero, and arithmetic-looking sequences that must stay uncompressed), the next run "
        "starting at / one old step after / one new step after / one off / one step back from / unrelated to the last "
        "value of the run before, at the very start of the list or behind 1..3 values of the same or another type, "
        "at top level or as the content of an array of up to ~40 elements (itself first, behind 1..2 values, or behind a "
        "compressed run), with 0..2 values behind; 20 % as whole messages with an address of '/' + 0..100 characters out of all printable "
        "non-blank ASCII (33..126); plus a stream for the libc sub-models (printf %a %#.Nf, sscanf %f %lf %d %i %x, "
        "localtime/mktime). Texts the printer does not write are not generated (C11's statement); `T` ops occur only "
        "as regression witnesses in corpus/C10.ops. Scanned booleans are observed with their payload val.T; the cell array "
        "handed to the scanners is pre-filled with 0xa5 / 0x00 / 0xff bytes (chosen from the op line), so a field the "
        "scanner leaves unwritten shows. Out of scope (not generated): infinite ranges "
        "(`[1 2 ...]`, repetition count 0: the round-trip oracle compares finite expansions), float/double ranges with a "
        "delta (the printer model stops with `unmodelled`), and range cells that rtosc_convert_to_range would not make "
        "(wider than the type's positive range). "
        "A case is non-trivial when it has at least two argument tokens; distinct = distinct op line")
ASSUMPTIONS = [
    "the fix patches fixes/C10-01 … C10-17, fixes/C11-01 … C11-06, fixes/C11-08 (and C16-*.patch for rtosc_arg_vals_eq on "
    "repeated arrays) are applied to the tree; the model Pretty/{Lex,Scan,Check}.lean mirrors the scanner and the checker "
    "with them (C11-08: the numeric word of scanf_fmtstr also ends at the comment sign '%', Lex.numWordLen; no text the "
    "printer writes has a '%' inside or directly behind a numeric word, so no printed text changes its reading)",
    "proved (Lean, all values, no bound): tier 1 for every scalar value: i h c, f d (finite, lossless mode, bit-exact), "
    "s S (printable ASCII + C escapes, every line length), b m r T F N I, time tags ('immediately', without fraction, "
    "with float-representable fraction in lossless mode; UTC calendar model); tier 2 (lists and whole messages, any "
    "line length, precision 0..9, any address that starts with '/' and contains no white space) for every list the "
    "printer does not compress: the exact condition `NotCompressed` (rtosc_convert_to_range finds no run at any "
    "position; list_roundtrip_uncompressed) and the sufficient ones `compression off` / `no five same-TYPED values in "
    "a row` (list_roundtrip); tier 3 partly: with compression off the full statement incl. arrays of scalars, for "
    "lists and for whole messages (print_scan_roundtrip_nocompress, message_roundtrip_nocompress)",
    "`RoundTrips` demands that the scanned and the original list BOTH expand to one and the same value list "
    "(expandList … = some vs), not merely that two possibly undefined expansions are equal",
    "domain restrictions of the theorems that the property text does not make: (a) a midnight time tag without fraction "
    "(printed as a bare date) is proved only as the last value of a text (`MidnightTime`, `ItemNoMidnight`): NOT as an "
    "element of an array (not even the last one), not as the value of a constant run nxA, not in front of another value — "
    "all of these are generated and checked by correspondence + oracle; (b) the "
    "element-type tag of an array must be the type of its last element, 32 for an empty array (the tag is not written "
    "in the text; the scanner reconstructs exactly this; rtosc_arg_vals_eq of the implementation compares the tags, so "
    "the generator only makes such arrays); (c) time tags with a fraction are proved in lossless mode only: without "
    "lossless mode a fraction is printed with max(precision,1) decimal digits and only comes back exactly when it is "
    "what the scanner reads from such digits; this is checked by correspondence + oracle, not proved; for every other "
    "float-representable fraction the oracle demands the printed precision (scanned and original less than one unit "
    "of the last printed digit + 2^-23 s apart, seconds included), which is weaker than the statement's 'exactly' "
    "and the most a text without the exact value can give (fixes C10-16, C10-17 were found this way)",
    "range compression is proved (print_scan_roundtrip_runs_partial; message_roundtrip_runs_partial for whole "
    "messages) for every list of scalar values in which compressed "
    "runs stand among uncompressed values — before, between and behind them, any number of runs in any order, also "
    "directly adjacent runs: constant runs of n >= 5 copies of any scalar of the domain (nxA), and int32 arithmetic runs "
    "with any step, printed as 'a ... z' when the step is +-1 and the value in front is of another type or equal to a, "
    "otherwise as 'a b ... z' (the model's and the code's `confusing` test); the left neighbour the scanner (arg[-1] / "
    "the last value of a preceding range via arg[-3]) and the checker (llhssrc: token, nxA, or a preceding range) find "
    "is proved to be the value the printer looked at. Hypotheses (`PrinterSegments`), exactly the printer's side "
    "conditions: rtosc_convert_to_range called at the start of each segment on the rest of the list returns nothing "
    "for an uncompressed value, the whole constant run, resp. the whole arithmetic run (so runs are maximal); an "
    "arithmetic run stays inside int32 incl. the step behind its last element (fix C10-11), is not wider than 2^31-1 "
    "(fix C10-15), and its count fits an int32_t; compression on. The two run conditions follow from the values "
    "(PrinterSegments.crun_of_next / irun_of_next): the value behind a constant run is not identical to the run's value "
    "(range_args_identical), the value behind an arithmetic run is not its continuation a + n*d; the condition for an "
    "uncompressed value stays the printer's own (as in list_roundtrip_uncompressed). range_roundtrip_const / range_roundtrip_int are the "
    "special cases of a list that is exactly one run, with the run conditions stated on the values only",
    "range compression is also proved together with arrays (print_scan_roundtrip_arrays_partial; "
    "message_roundtrip_arrays_partial for whole messages): every argument list whose arguments are scalar values, "
    "compressed runs of them (constant runs of any scalar type, int32 arithmetic runs) and ARRAYS of scalar values "
    "which may themselves contain compressed runs (5x3, 1 ... 6, 1 3 ... 11 inside the brackets), in any number and "
    "order, also an array as first or last argument, empty arrays, and values or runs directly behind an array. "
    "Behind an array the three parties see different left neighbours: the printer (prev_arg_if_range) the array's "
    "last element, the scanner none (args_before = 0, can_precede_range / prev_ok of fix C11-04), the checker the "
    "array's text whose type 'a' matches nothing; it is proved that all three lead to the same reading ('a ... z' is "
    "written only for step +-1 with a non-confusing left neighbour, and is then read with the delta of a range "
    "without left neighbour; otherwise 'a b ... z' is written and the delta comes from a). Inside an array the "
    "look-back goes through the cells read so far in the array (args_before = num_read, fix C11-06). The three "
    "array loops (printer, scanner, checker) are proved for bodies of multi-cell, context-dependent elements. "
    "Hypotheses (`PrinterPieces`), again exactly the printer's side conditions: rtosc_convert_to_range at the start "
    "of each top-level piece on the rest of the list returns nothing for a value and for an array header "
    "(PrinterPieces.arr_of_next / convertToRange_arr_next: always so when the array is the last argument or the next "
    "argument is no array), the whole constant run, resp. the whole arithmetic run (PrinterPieces.crun_of_next / "
    "irun_of_next: so whenever the cell behind the run — a value or an array header — is not identical to the run's "
    "value, resp. not its continuation); the body of an array satisfies "
    "`PrinterSegments` on its own (the array loop calls rtosc_convert_to_range with the number of cells left in the "
    "array; convertToRange_append: it does not look behind them), so the value-level run conditions "
    "PrinterSegments.crun_of_next / irun_of_next apply inside arrays; there is NO completeness lemma: the theorems "
    "hold for every list that the model's rtosc_convert_to_range cuts into such pieces, and it is not proved that every "
    "in-domain list of the covered kinds has such a decomposition (for an uncompressed value the hypothesis is the "
    "per-position `convertToRange = none`; an array directly followed by another array and runs of arrays have no "
    "value-level criterion; ItemInDomain.arr bounds arrays to 8 elements); the values of an array have one type, 'T' and 'F' "
    "counting as one (`ArrTypesOK`, the checker's arraytypes_match); the array's tag is the type of its last value, 32 "
    "for an empty array (arrTag_eq; restriction (b) above); overflow / width guards and compression on as before",
    "nested arrays are outside the proved class (the three array loops are proved for bodies of scalars and runs, not "
    "of arrays). The MODEL no longer has a nesting bound the code lacks: Pretty/Check.lean's countLoop hands "
    "`checkFuel src recent` (the longer of the current and the previous argument text, + 2) to the skipper, because "
    "ellipsisTail re-skips the left neighbour of a range; skipNextPrintedArg_fuel_mono proves that a larger bound never "
    "changes an answer, and the former counterexample `[[[[[[[[2]]]]]]]] 2 ... 6` is now read as the code reads it "
    "(nested_arrays_deep_reads: 12 cells; nested_arrays_deep_roundtrips: the whole round trip). That the bound is never "
    "reached on any text is argued in the docstring (every recursive call works on a proper part of the current or the "
    "previous argument), not proved",
    "runs of n >= 5 equal arrays (printed nx[...], an `ASeg.arun` piece of `PrinterPieces`) are part of "
    "print_scan_roundtrip_arrays_partial / message_roundtrip_arrays_partial as well, the body of the repeated array "
    "again with compressed runs inside, values and runs directly behind nx[...] included; hypothesis: "
    "rtosc_convert_to_range returns the whole run of arrays and the block `n x first array` (the printer's own side "
    "condition; no value-level criterion is proved for it)",
    "arithmetic runs of int64 ('h') and of character ('c') values are proved for lists that are exactly one run "
    "(range_roundtrip_huge: run and the step behind it inside int64, width <= 2^63-1, and n <= 2^31-1 for EVERY step "
    "because rtosc_arg_val_to_int truncates the count of an 'h' range to int — huge_delta_count_wraps, "
    "huge_run_needs_hrange, huge_run_needs_hwidth show each hypothesis is needed; range_roundtrip_char: every value of "
    "the run a character of the domain — char_run_signed_counterexample: the run 124..128 prints the byte 0x80, which "
    "the scanner reads as -128); in context (next to other values, inside arrays) such runs are NOT proved",
    "NOT proved, covered by correspondence + round-trip oracle only: nested arrays, argument lists that already contain "
    "range cells, printing with opt == NULL and with cols_used != 0 (MsgRoundTrips fixes printMessage … 0), "
    "arithmetic runs of 'h' / 'c' values in context, runs of 'T' 'F' values, "
    "a midnight time tag anywhere but at the end of "
    "the text, time fractions without lossless mode",
    "the exact printed text is part of the model/implementation comparison (it ties Pretty/Print.lean to the code); a "
    "difference in the text alone, with the round-trip oracle holding, is reported as such (NOTE line, evidence "
    "input_distribution.correspondence_diffs_text_only) and yields `no-failing-input-found`, never a failing input",
    "TZ=UTC, LC_ALL=C; separator \" \"; the output buffer is large enough (the bs bookkeeping only feeds asserts compiled out with NDEBUG)",
    "the scanner's string buffer is abstracted: string/blob cells carry their bytes",
]
TRUSTED = [
    "hand-written models RtoscModel/Pretty/{Lex,Val,Print,Scan,Check}.lean of pretty-format.c (printer, range "
    "conversion, checker, scanner), of rtosc_secfracs2float / rtosc_float2secfracs / rtosc_arg_val_from_params "
    "(rtosc-time.c) and of arg-val-math.c (integers/booleans in Pretty/Val.lean, floats in Pretty/C11Float.lean)",
    "libc modelled, not verified: RtoscModel/Libc/{Ctype,Printf,Float,Scanf,Time}.lean (snprintf %d %x %02x %a %#.Nf, "
    "sscanf subset incl. exact strtof/strtod, localtime/mktime under UTC); validated against glibc by the X-stream",
    "C16's cell type and comparison model RtoscModel/ArgVal/{Val,Cmp}.lean (imported)",
    "the regular expressions of translate_pretty_tables (a table that cannot be read makes translator_ok / tables_agree "
    "fail; it is never replaced by a stale file); for a scratch tree (VERIF_REPO != /repo) the shared generated file is "
    "not rewritten: that tree's tables are compared by the translator (Python) with the committed ones, which the Lean "
    "theorems of Props/C10Tables.lean tie to the model, and each differing entry is one broken obligation named after it; "
    "the try-order of scanf_fmtstr is compared as an ordered list up to the one commutation that is proved to change "
    "no answer (\"%*lfd%n\" / \"%*ff%n\" are neighbours and never both consume the same non-empty numeric word: "
    "scanfFmtstr_swap_lfd_ff, tryOrder_agrees is a disjunction of the two orders), the reserved words as a set",
]
LEVEL_TEXT = ("Lean theorems: print→check→scan is the identity, with printed length = returned length and the whole text "
              "consumed, for every scalar value (tier 1; floats and doubles bit-exact in lossless mode via exact %a / "
              "strtod models, time tags under the UTC calendar model, fractions in lossless mode), for every list and "
              "whole message of them that the printer does not compress, at any line length (tier 2), with "
              "compression off for lists and messages incl. arrays of scalars (tier 3, partial; a midnight time tag "
              "only as the last value of the text — not inside arrays or constant runs —, array tag = type of the last "
              "element), and with compression on for every list "
              "of scalars that the model's rtosc_convert_to_range cuts into such pieces: constant runs of any scalar type (nxA) and int32 arithmetic runs (a ... z / "
              "a b ... z) stand among uncompressed values in any number and order, under exactly the printer's side "
              "conditions (rtosc_convert_to_range finds these runs; overflow and width guards), the scanned ranges "
              "being compared by their expansion, for lists and whole messages (tier 3, print_scan_roundtrip_runs_partial, "
              "message_roundtrip_runs_partial), and for every list or message that rtosc_convert_to_range cuts into such "
              "values and runs and arrays "
              "of scalars which may themselves contain compressed runs, values and runs directly behind an array "
              "and runs of equal arrays (nx[...]) included (print_scan_roundtrip_arrays_partial, "
              "message_roundtrip_arrays_partial), and for lists that are exactly one arithmetic run of int64 or "
              "character values (range_roundtrip_huge, range_roundtrip_char); no completeness lemma says which lists "
              "are cut that way (the side conditions are the printer's own, partly reduced to the values); the "
              "checker model has no nesting bound the code lacks (skipNextPrintedArg_fuel_mono, "
              "nested_arrays_deep_roundtrips); the rest — nested "
              "arrays, argument lists that already contain range cells, opt == NULL, cols_used != 0, 'h'/'c' arithmetic runs in context, boolean runs, "
              "time fractions without lossless mode — is checked by exact model/implementation "
              "correspondence and by the round-trip oracle evaluated on the implementation, not proved")
LEVEL_NOTE = ("partial: the run/array theorems are conditional on the model's rtosc_convert_to_range (no completeness "
              "lemma); nested arrays, given range cells, opt == NULL and cols_used != 0 (theorems fix cols_used = 0), arithmetic runs of 'h'/'c' values next to other values or inside arrays, boolean "
              "runs, a midnight time tag not at the end, and time fractions without lossless mode, are correspondence + "
              "oracle only")



# ------------------------------------------------------------------------------------
# translator: constants and tables of pretty-format.c -> RtoscModel/Generated/PrettyConst.lean
# ------------------------------------------------------------------------------------
def _cchar(tok):
    """value of a C character literal body such as  a  \\n  \\'  \\\\  \\0 """
    esc = {"a": 7, "b": 8, "t": 9, "n": 10, "v": 11, "f": 12, "r": 13, "\\": 92, "'": 39, '"': 34, "0": 0}
    if tok.startswith("\\"):
        return esc[tok[1:]]
    return ord(tok)


def _write_generated(text):
    import os
    import vlib
    dst = os.path.join(vlib.LEAN, "RtoscModel", "Generated", "PrettyConst.lean")
    old = open(dst).read() if os.path.exists(dst) else None
    if old != text:
        with open(dst, "w") as f:
            f.write(text)
        return "changed"
    return "unchanged"


def _generated_text(ok, note, range_min, defopt, esc, unesc, esc_def, unesc_def, names, words):
    out = ["/- GENERATED by tools/props/c10.py (translate_pretty_tables) from src/cpp/pretty-format.c — do not edit -/",
           "namespace Rtosc.Pretty.Generated", "",
           "/-- true: the tables below were read from the source; false: the translator could not read them and "
           "`tables_agree` fails (%s) -/" % note,
           "def translatorOK : Bool := %s" % ("true" if ok else "false"),
           "def rangeMin : Nat := %d" % range_min,
           "/-- default_print_options: lossless, precision, line length, compress_ranges (separator %r): what the printers "
           "use when they are called with opt == NULL; compared with the model's `defaultOpt` by `defaultOpt_agrees` -/" % defopt[2],
           "def defaultOpt : Bool × Nat × Int × Bool := (%s, %d, %d, %s)" % (defopt[0], defopt[1], defopt[3], defopt[4]),
           "/-- as_escaped_char, the `case` labels: (character, letter of its escape sequence), common to chars and strings -/",
           "def escapeTable : List (UInt8 × UInt8) := [%s]" % ", ".join("(%d, %d)" % (_cchar(a), _cchar(b)) for a, b in esc),
           "/-- as_escaped_char, the `default:` branch: (chr, character, letter) -/",
           "def escapeDefault : List (Bool × UInt8 × UInt8) := [%s]" % ", ".join(
               "(%s, %d, %d)" % ("true" if f else "false", _cchar(a), _cchar(b)) for f, a, b in esc_def),
           "/-- get_escaped_char, the `case` labels: (letter, character) -/",
           "def unescapeTable : List (UInt8 × UInt8) := [%s]" % ", ".join("(%d, %d)" % (_cchar(a), _cchar(b)) for a, b in unesc),
           "/-- get_escaped_char, the `default:` branch: (chr, letter, character) -/",
           "def unescapeDefault : List (Bool × UInt8 × UInt8) := [%s]" % ", ".join(
               "(%s, %d, %d)" % ("true" if f else "false", _cchar(a), _cchar(b)) for f, a, b in unesc_def),
           "/-- scanf_fmtstr: the formats in the order they are tried, with the type letter they stand for -/",
           "def tryOrder : List (String × UInt8) := [%s]" % ", ".join('("%s", %d)' % (k, ord(t)) for k, t in names),
           "/-- is_reserved_word (a set: the order of words[] does not matter) -/",
           "def reservedWords : List String := [%s]" % ", ".join('"%s"' % w for w in words),
           "", "end Rtosc.Pretty.Generated", ""]
    return "\n".join(out)


def _extract_pretty_tables():
    import os
    import re
    import vlib
    src = open(os.path.join(vlib.REPO, "src/cpp/pretty-format.c")).read()
    m = re.search(r"const size_t range_min = (\d+);", src)
    if not m:
        raise ValueError("range_min not found")
    range_min = int(m.group(1))
    m = re.search(r"rtosc_print_options\) \{ (true|false), (\d+), \"([^\"]*)\", (\d+), (true|false)\}", src)
    defopt = (m.group(1), int(m.group(2)), m.group(3), int(m.group(4)), m.group(5)) if m else ("true", 0, "?", 0, "true")

    def body(name):
        i = src.index(name + "(")
        i = src.index("{", i)
        j = src.index("\n}\n", i)
        return src[i:j]
    cases = r"case '((?:\\.|[^\\']))': return '((?:\\.|[^\\']))';"
    dflt = r"if\((!?)chr && c == '((?:\\.|[^\\']))'\)\s*return '((?:\\.|[^\\']))';"
    eb, ub = body("static int as_escaped_char"), body("static char get_escaped_char")
    esc = re.findall(cases, eb)
    unesc = re.findall(cases, ub)
    if len(esc) < 8 or len(unesc) < 8:
        raise ValueError("escape tables not found")
    if "default:" not in eb or "default:" not in ub:
        raise ValueError("default: branch of the escape functions not found")
    esc_def = [(neg == "", a, b) for neg, a, b in re.findall(dflt, eb[eb.index("default:"):])]
    unesc_def = [(neg == "", a, b) for neg, a, b in re.findall(dflt, ub[ub.index("default:"):])]
    # every `return` of the two functions must have been understood (the final one is the "no escape" value)
    if eb.count("return") != len(esc) + len(esc_def) + 1 or ub.count("return") != len(unesc) + len(unesc_def) + 1:
        raise ValueError("a return statement of as_escaped_char/get_escaped_char was not understood")
    fb = body("static const char* scanf_fmtstr")
    tries = re.findall(r"try_fmt\(src, exp, ([^,]+(?:\"[^\"]*\")?[^,]*), _type, '(.)'\)", fb)
    names = []
    for f, t in tries:
        f = f.replace(" ", "")
        key = {'"%*"PRIi64"h%n"': "h", '"%*d%n"': "d", '"%*"PRIi32"i%n"': "ii", "i32": "x", '"%*lfd%n"': "lfd",
               '"%*ff%n"': "ff", '"%*f%n"': "f"}.get(f)
        if key is None:
            raise ValueError("unknown numeric format " + f)
        names.append((key, t))
    m = re.search(r"words\[\] = \{([^}]*)\}", src)
    if not m:
        raise ValueError("is_reserved_word: words[] not found")
    words = re.findall(r'"([A-Za-z]+)"', m.group(1))
    return _generated_text(True, "ok", range_min, defopt, esc, unesc, esc_def, unesc_def, names, words)


_PSEUDO = []       # obligations that name a differing table entry of a scratch tree (they do not exist in Lean)


def _set_pseudo(names):
    """A run against a scratch tree does not rewrite the shared Generated/PrettyConst.lean (it describes /repo; others
    build against it).  Each entry in which that tree's tables differ from the committed ones becomes an obligation
    of its own, named after the entry; it is reported as `theorem ... missing or does not check` (vlib reads THEOREMS
    after the translators have run) and leaves the other obligations alone."""
    for t in _PSEUDO:
        if t in THEOREMS:
            THEOREMS.remove(t)
    _PSEUDO[:] = names
    THEOREMS.extend(names)


def _table_defs(text):
    import re
    return {m.group(1): m.group(2).strip() for m in re.finditer(r"^def (\w+) : [^\n]*? := (.*)$", text, re.M)}


def _entries(val):
    import re
    return re.findall(r"\([^()]*\)|\"[^\"]*\"", val)


def _san(x):
    import re
    return re.sub(r"[^A-Za-z0-9]+", "_", str(x)).strip("_") or "none"


def _table_differences(src_text, committed_text):
    """names of the table entries in which the two generated texts differ (reserved words as a set, everything else
    entry by entry in order)"""
    a, b = _table_defs(src_text), _table_defs(committed_text)
    out = []
    for name in sorted(set(a) | set(b)):
        va, vb = a.get(name), b.get(name)
        if va == vb:
            continue
        if va is None or vb is None:
            out.append("%s.only_in_%s" % (name, "source" if vb is None else "committed_file"))
        elif name == "reservedWords":
            sa, sb = set(_entries(va)), set(_entries(vb))
            out += ["reservedWords.%s_only_in_source" % _san(w) for w in sorted(sa - sb)]
            out += ["reservedWords.%s_not_in_source" % _san(w) for w in sorted(sb - sa)]
        elif va.startswith("["):
            ea, eb = _entries(va), _entries(vb)
            if name == "tryOrder":
                # the one commutation proved neutral (scanfFmtstr_swap_lfd_ff): "%*ff%n" tried directly before "%*lfd%n"
                def canon(es):
                    es = list(es)
                    for i in range(len(es) - 1):
                        if es[i] == '("ff", 102)' and es[i + 1] == '("lfd", 100)':
                            es[i], es[i + 1] = es[i + 1], es[i]
                    return es
                ea, eb = canon(ea), canon(eb)
            for i in range(max(len(ea), len(eb))):
                x = ea[i] if i < len(ea) else None
                y = eb[i] if i < len(eb) else None
                if x != y:
                    out.append("%s.entry_%d_in_source_%s_in_model_%s" % (name, i, _san(x), _san(y)))
        else:
            out.append("%s.in_source_%s_in_model_%s" % (name, _san(va), _san(vb)))
    return [_NS + "tables_agree." + n for n in out]


def translate_pretty_tables():
    """/repo itself: regenerates Generated/PrettyConst.lean.  If the shape of the source has changed so that the tables
    cannot be read, NO stale file is kept: a file with `translatorOK := false` is written, `translator_ok` /
    `tables_agree` (Props/C10Tables.lean) no longer check and the run reports that module as broken.
    A scratch tree (VERIF_REPO != /repo): the shared file is left alone; that tree's tables are compared with the
    committed ones and every differing entry becomes one broken obligation named after it."""
    import os
    import vlib
    try:
        text, note = _extract_pretty_tables(), None
    except Exception as e:  # noqa: the failure must become a broken obligation, not a silent fallback
        note = ("%s: %s" % (type(e).__name__, e)).replace("-/", "- /").replace("\n", " ")[:200]
        text = _generated_text(False, note, 0, ("true", 0, "?", 0, "true"), [], [], [], [], [], [])
    if vlib._OWN:
        _set_pseudo([])
        state = _write_generated(text)
        if note is None:
            return "PrettyConst.lean regenerated (%s)" % state
        return "translator translate_pretty_tables FAILED (%s): translator_ok / tables_agree are broken obligations" % note
    dst = os.path.join(vlib.LEAN, "RtoscModel", "Generated", "PrettyConst.lean")
    committed = open(dst).read() if os.path.exists(dst) else ""
    if note is not None:
        _set_pseudo([_NS + "tables_agree.translator_cannot_read_the_tables_of_this_tree__" + _san(note)[:80]])
        return "translator translate_pretty_tables FAILED on this tree (%s): one broken obligation; shared file not written" % note
    diff = _table_differences(text, committed)
    _set_pseudo(diff)
    if diff:
        return ("tables of this tree differ from the committed PrettyConst.lean (shared file not written for a scratch "
                "tree): " + "; ".join(d[len(_NS):] for d in diff))
    return "PrettyConst.lean compared with this tree's tables (identical; shared file not written for a scratch tree)"


TRANSLATORS = [translate_pretty_tables]

ESCAPES = [7, 8, 9, 10, 11, 12, 13]
PRINTABLE = list(range(32, 127))
KEYWORDS = [b"true", b"false", b"nil", b"inf", b"immediately", b"now", b"MIDI", b"BLOB"]
INT32_EDGE = [0, 1, -1, 2, -2, 9, 10, -10, 99, 100, 127, 128, -99, -100, 999, 1000, -999, -1000, 9999, 10000,
              -9999, 2 ** 31 - 1, -2 ** 31, 2 ** 31 - 2, -2 ** 31 + 1, 65535, 65536, -65536, 12345, -12345]
INT64_EDGE = INT32_EDGE + [2 ** 31, -2 ** 31 - 1, 2 ** 32, -2 ** 32, 2 ** 63 - 1, -2 ** 63, 2 ** 63 - 2, -2 ** 63 + 1,
                           5000000000, -5000000000, 10 ** 18, -10 ** 18]


def hx(b):
    return bytes(b).hex() if b else "-"


def unhx(s):
    return b"" if s == "-" else bytes.fromhex(s)


# ------------------------------------------------------------------------------------
# value generators (tokens of the op line)
# ------------------------------------------------------------------------------------
def g_i(rng):
    r = rng.random()
    if r < 0.35:
        return rng.choice(INT32_EDGE)
    if r < 0.7:
        nd = rng.randint(1, 10)
        v = rng.randint(0, 10 ** nd - 1)
        v = min(v, 2 ** 31 - 1)
        return -v if rng.random() < 0.5 else v
    return rng.randint(-2 ** 31, 2 ** 31 - 1)


def g_h(rng):
    r = rng.random()
    if r < 0.35:
        return rng.choice(INT64_EDGE)
    if r < 0.7:
        nd = rng.randint(1, 19)
        v = min(rng.randint(0, 10 ** nd - 1), 2 ** 63 - 1)
        return -v if rng.random() < 0.5 else v
    return rng.randint(-2 ** 63, 2 ** 63 - 1)


def g_char(rng):
    return rng.choice(ESCAPES) if rng.random() < 0.2 else rng.choice(PRINTABLE)


def g_cval(rng):
    """value of a 'c' argument: as g_char, plus NUL"""
    return 0 if rng.random() < 0.03 else g_char(rng)


def g_f(rng):
    r = rng.random()
    if r < 0.15:
        return rng.choice([0, 0x80000000, 0x3f800000, 0xbf800000, 0x3f000000, 1, 0x007fffff, 0x00800000, 0x7f7fffff,
                           0xff7fffff, 0x3dcccccd, 0x41200000, 0x3fc00000, 0xbfc00000, 0x80000001, 0x3eaaaaab])
    if r < 0.55:   # moderate magnitudes
        e = rng.randint(100, 150)
        return (rng.randint(0, 1) << 31) | (e << 23) | (rng.getrandbits(23) if rng.random() < 0.7 else rng.getrandbits(5) << 18)
    e = rng.randint(0, 254)
    return (rng.randint(0, 1) << 31) | (e << 23) | rng.getrandbits(23)


def g_d(rng):
    r = rng.random()
    if r < 0.15:
        return rng.choice([0, 1 << 63, 0x3ff0000000000000, 0xbff0000000000000, 0x3fe0000000000000, 1,
                           0x000fffffffffffff, 0x0010000000000000, 0x7fefffffffffffff, 0xffefffffffffffff,
                           0x3fb999999999999a, 0x41d26580b486511a, 0x8000000000000001])
    if r < 0.6:
        e = rng.randint(1000, 1060)
        return (rng.randint(0, 1) << 63) | (e << 52) | (rng.getrandbits(52) if rng.random() < 0.7 else rng.getrandbits(8) << 44)
    e = rng.randint(0, 2046)
    return (rng.randint(0, 1) << 63) | (e << 52) | rng.getrandbits(52)


TRICKY = [b"...", b" ... 5 ", b"... 6 ", b"%", b"% x", b"\"", b"\\", b"[", b"]", b"(", b")", b" (0x1p-1)", b"3x", b"x",
          b"1970-01-01", b"-", b" -1", b"S", b"\"S", b"'", b"\n", b"  ", b"#", b"/", b"\\\n    \"", b"(...+0x1p-1s)",
          b"true", b"nil", b"0x", b"BLOB [", b"MIDI ["]


def g_bytes(rng, lo, hi):
    n = rng.randint(lo, hi)
    if rng.random() < 0.15:       # fragments of the pretty format's own syntax inside the string
        out = b""
        for _ in range(rng.randint(1, 4)):
            out += rng.choice(TRICKY) if rng.random() < 0.6 else bytes(g_char(rng) for _ in range(rng.randint(0, 4)))
        return out
    return bytes(g_char(rng) for _ in range(n))


IDENT_START = b"abcdefghijklmnopqrstuvwxyzABCDEFGHIJKLMNOPQRSTUVWXYZ_"
IDENT_TAIL = IDENT_START + b"0123456789"          # the whole alphabet [A-Za-z0-9_]


def g_kw_case(rng):
    """a reserved word in another capitalisation (nIL, True, INF, midi ...): these are plain identifiers, the
    keyword tests of printer, checker and scanner are case sensitive"""
    w = rng.choice(KEYWORDS)
    r = rng.random()
    if r < 0.2:
        v = w.upper()
    elif r < 0.4:
        v = w.lower()
    elif r < 0.55:
        v = w[:1].upper() + w[1:].lower()
    elif r < 0.75:      # exactly one letter in the other case
        k = rng.randrange(len(w))
        v = w[:k] + w[k:k + 1].swapcase() + w[k + 1:]
    else:
        v = bytes(rng.choice([c, c ^ 32]) for c in w)
    return v


def g_ident(rng):
    r = rng.random()
    if r < 0.08:
        return rng.choice(KEYWORDS)
    if r < 0.16:
        return rng.choice(KEYWORDS) + g_ident_tail(rng, 1, 3)
    if r < 0.28:
        return g_kw_case(rng)
    if r < 0.33:
        return g_kw_case(rng) + g_ident_tail(rng, 1, 3)
    if r < 0.38:       # a reserved word (any case) behind a prefix: only a whole word is reserved
        return g_ident_tail(rng, 1, 2).lstrip(b"0123456789") + g_kw_case(rng) or b"_"
    first = rng.choice(IDENT_START)
    return bytes([first]) + g_ident_tail(rng, 0, rng.choice([12, 12, 12, 30, 90]))


def g_ident_tail(rng, lo, hi):
    return bytes(rng.choice(IDENT_TAIL) for _ in range(rng.randint(lo, hi)))


def g_t(rng, lossless, prec=0):
    r = rng.random()
    if r < 0.15:
        return 1
    secs = rng.choice([0, 1, 59, 60, 3599, 3600, 86399, 86400, 951782400, 951868800, 1479325446, 2 ** 31 - 1, 2 ** 31,
                       2 ** 32 - 1, 4107542400]) if rng.random() < 0.3 else rng.getrandbits(32)
    if rng.random() < 0.3:
        secs -= secs % 60
        if rng.random() < 0.4:
            secs -= secs % 86400
    frac = 0
    if lossless and rng.random() < 0.6:
        m = rng.getrandbits(rng.randint(1, 24))
        sh = rng.randint(0, 31)
        frac = (m << sh) & 0xffffffff
        while frac and frac.bit_length() - (frac & -frac).bit_length() + 1 > 24:   # keep float-representable
            frac &= frac - 1
    elif not lossless and rng.random() < 0.6:
        # without the exact value in parentheses the fraction is printed with max(prec, 1) decimal digits only
        r = rng.random()
        digits = max(prec, 1)
        if r < 0.45:     # the values that this text denotes exactly: multiples of 2^-j, j <= number of digits
            j = rng.randint(1, digits)
            frac = (rng.randint(1, 2 ** j - 1) << (32 - j)) & 0xffffffff
        elif r < 0.7:    # what the scanner makes of a decimal fraction of that many digits: these round-trip exactly too
            k = rng.randint(1, 10 ** digits - 1)
            frac = lossy_scan(k, digits)
        else:            # any float-representable fraction, edge cases: just below 1, below 2^-8, tiny
            m = rng.getrandbits(rng.randint(1, 24))
            sh = rng.choice([rng.randint(0, 31), rng.randint(0, 8), 31 - rng.randint(0, 3)])
            frac = (m << sh) & 0xffffffff
            if rng.random() < 0.2:
                frac = 0xffffffff - rng.getrandbits(rng.randint(0, 20))
            while frac and frac.bit_length() - (frac & -frac).bit_length() + 1 > 24:
                frac &= frac - 1
    v = (secs << 32) | frac
    return v if v != 1 else 1


def lossy_scan(k, digits):
    """second fraction (units of 2^-32) the scanner reads from the decimal text .<k with `digits` digits>:
    sscanf %f (nearest float), then rtosc_float2secfracs (bits below 2^-32 cut off)"""
    from fractions import Fraction
    x = Fraction(k, 10 ** digits)
    f = struct.unpack("<f", struct.pack("<f", float(x)))[0]      # double rounding is harmless here: checked by the oracle
    fr = Fraction(f)
    if fr >= 1:
        return 0
    return int(fr * 2 ** 32)


SIMPLE = "ihcfdsSbmrtTFNI"


BLOB_LEN = [0, 1, 2, 5, 12, 30]
BLOB_LEN_BIG = [64, 99, 100, 101, 127, 128, 255, 256, 300]      # header "BLOB [<len> " of 9, 10, 11 characters
STR_LEN = [3, 10, 40, 150]


def g_val(rng, ty, lossless, prec=0):
    if ty == "i":
        return "i%d" % g_i(rng)
    if ty == "h":
        return "h%d" % g_h(rng)
    if ty == "c":
        return "c%d" % g_cval(rng)
    if ty == "f":
        return "f%08x" % g_f(rng)
    if ty == "d":
        return "d%016x" % g_d(rng)
    if ty == "s":
        return "s:" + hx(g_bytes(rng, 0, rng.choice(STR_LEN) if rng.random() < 0.95 else rng.choice([151, 300, 600])))
    if ty == "S":
        return "S:" + hx(g_ident(rng) if rng.random() < 0.6 else g_bytes(rng, 0, rng.choice([3, 10, 40])))
    if ty == "b":
        n = rng.choice(BLOB_LEN) if rng.random() < 0.85 else (rng.choice(BLOB_LEN_BIG) if rng.random() < 0.7 else rng.randint(31, 300))
        return "b:" + hx(bytes(rng.getrandbits(8) for _ in range(n)))
    if ty == "m":
        return "m%08x" % rng.getrandbits(32)
    if ty == "r":
        return "r%08x" % rng.getrandbits(32)
    if ty == "t":
        return "t%016x" % g_t(rng, lossless, prec)
    return ty


def types_for(lossless):
    return [t for t in SIMPLE if lossless or t not in "fd"]


def wrap(ty, v):
    if ty in "ic":
        return (v + 2 ** 31) % 2 ** 32 - 2 ** 31
    return (v + 2 ** 63) % 2 ** 64 - 2 ** 63


def g_run(rng, lossless, maxlen=12, prec=0):
    """constant or arithmetic run of every type, length 1..12 around the compression threshold (5)"""
    n = rng.randint(1, maxlen)
    if rng.random() < 0.5:       # arithmetic, types cihTF
        ty = rng.choice("iihcTF")
        if ty in "TF":
            start = rng.choice("TF")
            alt = rng.random() < 0.5
            other = "F" if start == "T" else "T"
            return [(start if (k % 2 == 0 or not alt) else other) for k in range(n)]
        if ty == "c":
            delta = rng.choice([1, -1, 2, -2, 3])
            start = rng.randint(40, 110)
            vals = [start + k * delta for k in range(n)]
            if all(32 <= v <= 126 for v in vals):
                return ["c%d" % v for v in vals]
            ty = "i"
        delta = rng.choice([1, -1, 1, -1, 2, -2, 3, 10, -10, 100, 1000, -7, 2 ** 30, -2 ** 30, rng.randint(-10 ** 6, 10 ** 6) or 1])
        start = g_i(rng) if ty == "i" else g_h(rng)
        if rng.random() < 0.15:    # runs that span a large part of the type's range
            bits = 32 if ty == "i" else 64
            delta = rng.randint(2 ** (bits - 5), 2 ** (bits - 2)) * rng.choice([1, -1])
            start = (-2 ** (bits - 1) + rng.randint(0, 2 ** (bits - 4))) if delta > 0 else (2 ** (bits - 1) - 1 - rng.randint(0, 2 ** (bits - 4)))
        return ["%s%d" % (ty, wrap(ty, start + k * delta)) for k in range(n)]
    if lossless and rng.random() < 0.08:      # zeros of both signs compare equal but print differently
        ty = rng.choice("fd")
        z = ["f00000000", "f80000000"] if ty == "f" else ["d0000000000000000", "d8000000000000000"]
        return [rng.choice(z) if rng.random() < 0.3 else z[0] for _ in range(n)]
    ty = rng.choice(types_for(lossless))
    v = g_val(rng, ty, lossless, prec)
    return [v] * n


def g_runs_array(rng, lossless, prec=0):
    """an array whose content is 1..4 adjacent runs of one type (the bodies of g_adjacent), e.g. [1 2 3 4 5],
    [7 7 7 7 7 1 3 5 7 9 11], optionally with a value in front / behind"""
    r = rng.random()
    if r < 0.75:
        ty = rng.choice("iiiich")
        vals, _, runs = g_adjacent_ints(rng, ty, None)
        if rng.random() < 0.5:
            vals = vals[:runs[0][0]]                  # one run only
        els = ["%s%d" % (ty, v) for v in vals]
    elif r < 0.85:
        els = [rng.choice("TF")] * rng.choice(ADJ_LEN) + [rng.choice("TF") for _ in range(rng.randint(0, 2))]
    else:
        ty = rng.choice([t for t in "sSbmrtNIfd" if lossless or t not in "fd"])
        els, _, _ = g_adjacent_consts(rng, ty, lossless, prec, None)
    if rng.random() < 0.25 and els[0][0] in "ich":
        els = ["%s%d" % (els[0][0], rng.randint(33, 120))] + els
    return ["[%d" % ord(els[-1][0])] + els + ["]"]


def g_array_run(rng, lossless, prec=0):
    """constant run of one array (printed `nx[...]` when compressed), now and then one differing; the repeated array
    is anything g_array makes (0..8 elements, runs inside, arrays inside) or an array full of compressible runs"""
    def one():
        r = rng.random()
        if r < 0.3:
            return g_array(rng, lossless, 3)
        if r < 0.65:
            return g_array(rng, lossless, 8)
        return g_runs_array(rng, lossless, prec)
    arr = one()
    n = rng.randint(1, 12)
    out = []
    for k in range(n):
        out.append(one() if rng.random() < 0.05 else arr)
    return out


def g_array(rng, lossless, maxlen=8):
    n = rng.randint(0, maxlen)
    if n == 0:
        return ["[32", "]"]
    r = rng.random()
    if r < 0.45:
        els = g_run(rng, lossless, n)
        if rng.random() < 0.5 and len(els) < maxlen:
            els = els + g_run_same_type(rng, els[0], lossless, maxlen - len(els))
    else:
        ty = rng.choice(types_for(lossless))
        if ty in "TF":
            els = [rng.choice("TF") for _ in range(n)]
        else:
            els = [g_val(rng, ty, lossless) for _ in range(n)]
    if rng.random() < 0.06 and maxlen >= 2:   # arrays inside arrays: small ones, full ones, runs of equal ones
        r = rng.random()
        if r < 0.4:
            subs = [g_array(rng, lossless, 3) for _ in range(rng.randint(1, 3))]
        elif r < 0.7:
            subs = [g_array(rng, lossless, 8) if rng.random() < 0.5 else g_runs_array(rng, lossless)
                    for _ in range(rng.randint(1, 3))]
        else:
            subs = g_array_run(rng, lossless)[:8]
            if rng.random() < 0.4:
                subs = subs + [g_array(rng, lossless, 3)]
        return ["[%d" % ord("a")] + [t for sub in subs for t in sub] + ["]"]
    return ["[%d" % ord(els[0][0])] + els + ["]"]


def g_run_same_type(rng, tok, lossless, n):
    ty = tok[0]
    if ty in "TF":
        return [rng.choice("TF") for _ in range(rng.randint(0, n))]
    return [g_val(rng, ty, lossless) for _ in range(rng.randint(0, n))]


def g_args(rng, lossless, stats, prec=0):
    """argument list: 0..12 top-level values per type and mixed, runs, arrays"""
    shape = rng.random()
    out = []
    if shape < 0.25:                     # one type only
        ty = rng.choice(types_for(lossless))
        n = rng.randint(0, 12)
        out = [g_val(rng, ty, lossless, prec) for _ in range(n)]
        stats["shape_single_type"] += 1
    elif shape < 0.55:                   # mixed simple values
        n = rng.randint(0, 12)
        tys = types_for(lossless)
        out = [g_val(rng, rng.choice(tys), lossless, prec) for _ in range(n)]
        stats["shape_mixed"] += 1
    else:                                # pieces: values, runs, arrays
        k = rng.randint(1, 4)
        ntop = 0
        tys = types_for(lossless)
        for _ in range(k):
            r = rng.random()
            if r < 0.45:
                run = g_run(rng, lossless, 12, prec)
                out += run
                ntop += len(run)
                stats["runs"] += 1
                stats["run_len_hist"][str(len(run))] = stats["run_len_hist"].get(str(len(run)), 0) + 1
            elif r < 0.5:
                for arr in g_array_run(rng, lossless, prec):
                    out += arr
                    ntop += 1
                stats["array_runs"] += 1
            elif r < 0.75:
                arr = g_array(rng, lossless)
                out += arr
                ntop += 1
                stats["arrays"] += 1
                stats["array_len_hist"][str(len(arr) - 2)] = stats["array_len_hist"].get(str(len(arr) - 2), 0) + 1
            else:
                out.append(g_val(rng, rng.choice(tys), lossless, prec))
                ntop += 1
        stats["shape_pieces"] += 1
    return out


# ------------------------------------------------------------------------------------
# adjacent runs: two or more compressible runs next to each other (at the very start of a list or of an array's
# content, behind 1..3 other values, back to back).  The scanner finds the left neighbour of `a ... b` by looking at
# the cells it has already written (a preceding `R:1 delta start` triple, a preceding `R:0 value` pair, or a plain
# value) and the printer leaves out the second number of a +-1 range exactly when that neighbour allows it, so what
# stands in front of a range, and how many cells it occupies, decides what is printed and what is scanned back.
# ------------------------------------------------------------------------------------
ADJ_DELTAS = [1, -1, 1, -1, 1, -1, 2, -2, 3, -3, 5, 10, -10, 100, -7, 1000]
ADJ_RELATIONS = ["at", "at", "at", "step_after", "new_step_after", "one_off", "one_back", "unrelated"]
ADJ_LEN = [1, 2, 3, 4, 4, 5, 5, 5, 5, 6, 6, 7, 9]


def _adj_range(ty):
    if ty == "c":
        return 32, 126
    return (-2 ** 31, 2 ** 31 - 1) if ty == "i" else (-2 ** 63, 2 ** 63 - 1)


def _adj_start(rng, ty):
    if ty == "c":
        return rng.randint(45, 110)
    r = rng.random()
    if r < 0.6:
        return rng.randint(-20, 20)
    if r < 0.8:
        return rng.choice([0, 1, -1, 5, 9, 10, 99, 100, -100, 1000, 12345, -9999])
    lo, hi = _adj_range(ty)
    if r < 0.9:        # close to the ends of the type's range
        return rng.choice([lo + rng.randint(0, 12), hi - rng.randint(0, 12)])
    return g_i(rng) if ty == "i" else g_h(rng)


def g_adjacent_ints(rng, ty, stats):
    """values (python ints) of 2..4 runs of type c / i / h, plus the description of the joints"""
    lo, hi = _adj_range(ty)
    for _attempt in range(20):
        nruns = rng.choice([2, 2, 2, 3, 3, 4])
        vals, joints, runs = [], [], []
        last, prev_delta = None, 0
        for k in range(nruns):
            n = rng.choice(ADJ_LEN)
            delta = 0 if rng.random() < 0.25 else rng.choice(ADJ_DELTAS)
            if k == 0:
                start = _adj_start(rng, ty)
            else:
                rel = rng.choice(ADJ_RELATIONS)
                start = {"at": last, "step_after": last + prev_delta, "new_step_after": last + delta,
                         "one_off": last + rng.choice([1, -1]), "one_back": last - prev_delta,
                         "unrelated": _adj_start(rng, ty)}[rel]
                joints.append(rel)
            run = [start + j * delta for j in range(n)]
            runs.append((n, delta))
            vals += run
            last, prev_delta = run[-1], delta
        if all(lo <= v <= hi for v in vals):
            return vals, joints, runs
    return [rng.randint(40, 50)] * 5 + [rng.randint(51, 60)] * 5, ["unrelated"], [(5, 0), (5, 0)]


def g_adjacent_consts(rng, ty, lossless, prec, stats):
    """2..4 constant runs of one type that has no arithmetic runs in the printer (floats, strings, blobs, ...): the
    next run's value is unrelated, or (floats) the neighbouring float / the other zero"""
    nruns = rng.choice([2, 2, 3, 4])
    toks, joints, runs = [], [], []
    prev = None
    for k in range(nruns):
        n = rng.choice(ADJ_LEN)
        v = g_val(rng, ty, lossless, prec)
        if ty in "fd" and rng.random() < 0.3:       # also "arithmetic" float sequences, which must stay uncompressed
            base = rng.randint(-8, 8)
            step = rng.choice([1, -1, 2, 0.5, 0.25])
            fl = [base + j * step for j in range(n)]
            if ty == "f":
                toks += ["f%08x" % struct.unpack("<I", struct.pack("<f", x))[0] for x in fl]
            else:
                toks += ["d%016x" % struct.unpack("<Q", struct.pack("<d", x))[0] for x in fl]
            joints.append("float_sequence")
            runs.append((n, 1))
            prev = toks[-1]
            continue
        if prev is not None and ty in "fd" and rng.random() < 0.4:
            bits = int(prev[1:], 16)
            width = 8 if ty == "f" else 16
            top = 1 << (width * 4 - 1)
            if bits & ~top == 0:
                nb = bits ^ top                       # the other zero: equal, but printed differently
            else:
                nb = bits + rng.choice([1, -1])
            if (nb >> (23 if ty == "f" else 52)) & (0xff if ty == "f" else 0x7ff) != (0xff if ty == "f" else 0x7ff):
                v = "%s%0*x" % (ty, width, nb)
            joints.append("float_neighbour")
        elif prev is not None:
            joints.append("at" if v == prev else "unrelated")
        toks += [v] * n
        runs.append((n, 0))
        prev = v
    return toks, joints, runs


def g_adjacent(rng, lossless, stats, prec=0):
    """argument list with two or more adjacent runs; returns the op-line tokens"""
    st = stats["adjacent"]
    r = rng.random()
    if r < 0.32:
        ty = "i"
    elif r < 0.52:
        ty = "c"
    elif r < 0.72:
        ty = "h"
    elif r < 0.80:
        ty = "B"
    elif r < 0.90 and lossless:
        ty = rng.choice("fd")
    else:
        ty = rng.choice([t for t in "sSbmrtNIfd" if lossless or t not in "fd"])
    if ty in "cih":
        vals, joints, runs = g_adjacent_ints(rng, ty, stats)
        body = ["%s%d" % (ty, v) for v in vals]
    elif ty == "B":
        body, joints, runs = [], [], []
        for k in range(rng.choice([2, 2, 3, 4])):
            n = rng.choice(ADJ_LEN)
            first = rng.choice("TF")
            alt = rng.random() < 0.5
            body += [first if (j % 2 == 0 or not alt) else ("F" if first == "T" else "T") for j in range(n)]
            runs.append((n, 1 if alt else 0))
            if k:
                joints.append("bool")
    else:
        body, joints, runs = g_adjacent_consts(rng, ty, lossless, prec, stats)

    def same_type_val():
        if ty == "B":
            return rng.choice("TF")
        if ty in "cih":
            first = int(body[0][1:])
            d = runs[0][1]
            lo, hi = _adj_range(ty)
            cand = rng.choice([first, first - d, first - 1, first + 1, _adj_start(rng, ty)])
            return "%s%d" % (ty, cand if lo <= cand <= hi else first)
        return g_val(rng, ty, lossless, prec)

    in_array = rng.random() < 0.35
    nlead = 0 if rng.random() < 0.45 else rng.randint(1, 3)
    ntail = rng.choice([0, 0, 0, 1, 2])
    tys = types_for(lossless)
    if in_array:
        lead = [same_type_val() for _ in range(nlead)]
        tail = [same_type_val() for _ in range(ntail)]
        els = lead + body + tail
        out = ["[%d" % ord(els[0][0])] + els + ["]"]
        # the array itself at the start of the list, or behind other values (also behind a compressed run)
        r = rng.random()
        if r < 0.3:
            out = [g_val(rng, rng.choice(tys), lossless, prec) for _ in range(rng.randint(1, 2))] + out
        elif r < 0.45:
            n = rng.randint(5, 7)
            out = ["i%d" % (k + 1) for k in range(n)] + out
        r = rng.random()
        if r < 0.2:
            out = out + [g_val(rng, rng.choice(tys), lossless, prec)]
        elif r < 0.45 and ty in "cih":
            # a run directly behind the array, starting at / next to the array's last element: that element is not
            # the left neighbour of what follows the array
            last = int(els[-1][1:])
            lo, hi = _adj_range(ty)
            d = rng.choice([1, -1, 1, -1, 2, 0])
            start = last + rng.choice([0, 0, d, 1, -1])
            run = [start + j * d for j in range(rng.choice([4, 5, 5, 6, 7]))]
            if all(lo <= v <= hi for v in run):
                out = out + ["%s%d" % (ty, v) for v in run]
                st["run_behind_array"] += 1
    else:
        def any_val():
            return same_type_val() if rng.random() < 0.6 else g_val(rng, rng.choice(tys), lossless, prec)
        lead = [any_val() for _ in range(nlead)]
        if rng.random() < 0.12:
            # a constant run (two cells once compressed) in front, of the same or of another type
            lead = [any_val()] * rng.choice([4, 5, 5, 6])
            nlead = len(lead)
            st["const_run_in_front"] += 1
        out = lead + body + [any_val() for _ in range(ntail)]
    st["cases"] += 1
    st["in_array"] += 1 if in_array else 0
    for key, val in (("type_hist", ty), ("lead_hist", str(nlead)), ("runs_hist", str(len(runs)))):
        st[key][val] = st[key].get(val, 0) + 1
    for j in joints:
        st["joint_hist"][j] = st["joint_hist"].get(j, 0) + 1
    for n, d in runs:
        key = "const" if d == 0 else ("step+-1" if d in (1, -1) else "other_step")
        key += ">=5" if n >= 5 else "<5"
        st["run_kind_hist"][key] = st["run_kind_hist"].get(key, 0) + 1
    # the class in which a +-1 range directly follows a +-1 range that fills exactly the first three cells
    if (ty in "cih" and nlead == 0 and runs[0][0] >= 5 and runs[0][1] in (1, -1) and joints[0] == "at"
            and runs[1][0] >= 5 and runs[1][1] in (1, -1)):
        st["first_three_cells_then_range"] += 1
    return out


def _given_ranges_flat(rng, args, stats):
    """a list of scalar tokens with some of its runs replaced by range cells; returns (tokens, number replaced)"""
    out, i, done = [], 0, 0
    while i < len(args):
        j = i
        while j + 1 < len(args) and args[j + 1] == args[i]:
            j += 1
        n = j - i + 1
        if n >= 2 and rng.random() < 0.7:
            out += ["R%d:0" % n, args[i]]
            stats["given_range_kinds"]["const"] = stats["given_range_kinds"].get("const", 0) + 1
            i, done = j + 1, done + 1
            continue
        ty = args[i][0]
        if ty in "ich" and i + 1 < len(args) and args[i + 1][0] == ty:
            lo, hi = (-2 ** 31, 2 ** 31 - 1) if ty in "ic" else (-2 ** 63, 2 ** 63 - 1)
            a, b = int(args[i][1:]), int(args[i + 1][1:])
            d = b - a
            j = i + 1
            while j + 1 < len(args) and args[j + 1][0] == ty and int(args[j + 1][1:]) - int(args[j][1:]) == d:
                j += 1
            n = j - i + 1
            last = int(args[j][1:])
            # the guards of rtosc_convert_to_range (fixes C10-11, C10-15): the step behind the last element stays inside
            # the type and the run is not wider than the type's positive range
            if (n >= 3 and d != 0 and lo <= d <= hi and lo <= last + d <= hi and abs(last - a) <= hi
                    and rng.random() < 0.7):
                out += ["R%d:1" % n, "%s%d" % (ty, d), args[i]]
                stats["given_range_kinds"]["arith"] = stats["given_range_kinds"].get("arith", 0) + 1
                i, done = j + 1, done + 1
                continue
        out.append(args[i])
        i += 1
    return out, done


def with_given_ranges(rng, args, stats):
    """argument list that ALREADY contains range cells, as a caller gets them from the scanner or from
    rtosc_convert_to_range: a maximal run of >= 2 equal scalars becomes `R<n>:0 v`, an arithmetic c/i/h run of >= 3
    values `R<n>:1 delta start` (finite ranges only).  Runs at top level and runs inside an array of scalars are
    rewritten (the array's length then counts cells, as in the C representation); lists with nested arrays are left
    alone."""
    depth = 0
    for t in args:
        depth += 1 if t[0] == "[" else (-1 if t == "]" else 0)
        if depth > 1:
            return args
    out, seg, done = [], [], 0
    for t in args + ["]"]:            # the sentinel flushes the last top-level segment
        if t[0] == "[" or t == "]":
            new, k = _given_ranges_flat(rng, seg, stats)
            out += new
            done += k
            if k and t == "]" and len(out) > len(new) and out[len(out) - len(new) - 1][0] == "[":
                stats["given_range_kinds"]["in_array"] = stats["given_range_kinds"].get("in_array", 0) + 1
            seg = []
            out.append(t)
        else:
            seg.append(t)
    out.pop()
    if done:
        stats["given_ranges"] += 1
    return out


ADDR_PLAIN = b"abcxyz/_09#"
ADDR_ANY = bytes(range(33, 127))          # every printable character that is not white space


def g_addr(rng):
    """OSC address of a message: '/' + 0..100 printable non-blank characters"""
    n = rng.randint(0, 12) if rng.random() < 0.7 else rng.randint(13, 100)
    r = rng.random()
    if r < 0.4:
        return b"/" + bytes(rng.choice(ADDR_PLAIN) for _ in range(n))
    if r < 0.6:     # path-like with one unusual character
        body = bytearray(rng.choice(ADDR_PLAIN) for _ in range(max(n, 1)))
        body[rng.randrange(len(body))] = rng.choice(ADDR_ANY)
        return b"/" + bytes(body)
    return b"/" + bytes(rng.choice(ADDR_ANY) for _ in range(n))


_STATS = {}       # the stats dict of the current run (the runner dumps it into the evidence file at the end)


def generate(rng, tier, stats):
    global _STATS
    if not _STATS:          # the first call is the run proper; the runner's search calls generate() again
        _STATS = stats
    n = 50000 if tier == "quick" else 400000
    for op in libc_stream(rng, 8000 if tier == "quick" else 100000, stats):
        yield op
    # no stream of hand-written texts (T / TM ops): what checker and scanner do with documented syntax that the
    # printer never writes is C11's statement and is checked there; C10 runs them on printed text only
    # (T ops remain for the regression witnesses in corpus/C10.ops)
    stats.update({"shape_single_type": 0, "shape_mixed": 0, "shape_pieces": 0, "runs": 0, "arrays": 0, "array_runs": 0,
                  "run_len_hist": {}, "array_len_hist": {}, "messages": 0, "lossless": 0, "compress": 0,
                  "type_hist": {}, "linelength_hist": {}, "precision_hist": {}, "blob_len_hist": {}, "string_len_hist": {},
                  "address_len_hist": {}, "address_unusual_chars": 0, "time_fraction_lossy_mode": 0, "list_len_hist": {},
                  "cols0_nonzero": 0, "opt_null": 0, "deep_nest_then_run": 0, "given_ranges": 0, "given_range_kinds": {},
                  "adjacent": {"cases": 0, "compress_on": 0, "in_array": 0, "first_three_cells_then_range": 0, "run_behind_array": 0,
                               "const_run_in_front": 0,
                               "type_hist": {}, "lead_hist": {}, "runs_hist": {}, "joint_hist": {}, "run_kind_hist": {}}})

    def bump(key, val):
        stats[key][val] = stats[key].get(val, 0) + 1

    def bucket(k):
        for lim in (0, 1, 5, 12, 30, 63, 99, 127, 255, 300):
            if k <= lim:
                return "<=%d" % lim
        return ">300"
    for _ in range(n):
        lossless = 1 if rng.random() < 0.7 else 0
        prec = rng.randint(0, 9)
        ll = rng.choice([10, 11, 12, 15, 20, 40, 79, 80, 81, 120]) if rng.random() < 0.5 else rng.randint(10, 120)
        comp = 1 if rng.random() < 0.6 else 0
        msg = rng.random() < 0.2
        if rng.random() < 0.14:      # two or more runs next to each other; mostly with compression on
            comp = 1 if rng.random() < 0.9 else 0
            args = g_adjacent(rng, lossless, stats, prec)
            stats["adjacent"]["compress_on"] += comp
        elif rng.random() < 0.006:   # an array nested 1..16 deep directly in front of a range (the checker re-skips it)
            depth = rng.randint(1, 16)
            v = rng.randint(-3, 9)
            d = rng.choice([1, -1, 1, 2, 0])
            run = ["i%d" % (v + rng.choice([0, 0, d, 1]) + k * d) for k in range(rng.choice([4, 5, 6, 7]))]
            args = ["[97"] * (depth - 1) + ["[105", "i%d" % v] + ["]"] * depth + run
            if rng.random() < 0.3:      # behind other values
                args = [g_val(rng, rng.choice("isTc"), lossless, prec) for _ in range(rng.randint(1, 2))] + args
            comp = 1
            stats["deep_nest_then_run"] += 1
        else:
            args = g_args(rng, lossless, stats, prec)
        # cols_used: mostly 0; else the caller has already written cols0 columns of the line (around the line length too)
        cols0 = 0
        if rng.random() < 0.15:
            cols0 = rng.choice([1, 2, 3, 4, 5, 8, ll - 2, ll - 1, ll, ll + 1, rng.randint(1, ll + 10), rng.randint(1, 20)])
            stats["cols0_nonzero"] += 1
        # opt == NULL: default_print_options (lossless, so any float may be in the list generated above only if lossless)
        optnull = lossless == 1 and rng.random() < 0.04
        if optnull:
            stats["opt_null"] += 1
        if rng.random() < 0.05:
            args = with_given_ranges(rng, args, stats)
        stats["lossless"] += lossless
        stats["compress"] += comp
        stats["messages"] += 1 if msg else 0
        bump("linelength_hist", str(ll // 10 * 10))
        bump("precision_hist", str(prec))
        bump("list_len_hist", bucket(len(args)))
        for a in args:
            bump("type_hist", a[0])
            if a[0] == "b":
                bump("blob_len_hist", bucket(len(a) // 2 - 1 if a != "b:-" else 0))
            elif a[0] in "sS":
                bump("string_len_hist", bucket(len(a) // 2 - 1 if a[2:] != "-" else 0))
            elif a[0] == "t" and not lossless and int(a[1:], 16) & 0xffffffff and int(a[1:], 16) != 1:
                stats["time_fraction_lossy_mode"] += 1
        addr = "-"
        if msg:
            ab = g_addr(rng)
            addr = hx(ab)
            bump("address_len_hist", bucket(len(ab)))
            stats["address_unusual_chars"] += 1 if any(c not in ADDR_PLAIN for c in ab) else 0
        yield " ".join(["M" if msg else "A", "N" if optnull else str(lossless), str(prec), str(ll), str(comp), str(cols0), addr] + args)


def g_float_text(rng):
    """spellings of floating-point numbers for the sscanf %f / %lf sub-model"""
    r = rng.random()
    if r < 0.15:
        return rng.choice(["0", "0.0", "-0.0", "1", "1.", ".5", "-.5e-3", "5e", "5e+", "5e-", "1e5", "1E5", "1e+05", "0x", "0x.", "0x1",
                           "0x1p", "0x1p-", "0x1p-1", "0X1.8P+1", "0x.8p1", "0x1.p1", "inf", "-inf", "infinity", "infinit", "nan", "-nan", "NaN",
                           "1e400", "1e-400", "-1e400", "4.9e-324", "2.4e-324", "2.5e-324", "1.7976931348623157e308", "1.7976931348623159e308",
                           "3.4028235e38", "3.4028236e38", "1.4e-45", "0.7e-45", "16777217", "16777219", "9007199254740993",
                           "0.1", "0.1f", "1.5d", " 2.5", "+3", "..5", "-", "+", ".", "e5", "0x1.fffffffffffff8p0", "0x1.ffffffp0", "0x1.000001p0",
                           "0x1.0000010000000000000000001p0", "0.50 (0x1p-1)", "1x", "1..2", "1.2.3", "00012.5000", "0x00001.8p1"])
    if r < 0.45:
        d = "".join(rng.choice("0123456789") for _ in range(rng.randint(1, rng.choice([3, 10, 25]))))
        f = "".join(rng.choice("0123456789") for _ in range(rng.randint(0, rng.choice([3, 10, 40]))))
        t = ("-" if rng.random() < 0.3 else "") + d + ("." + f if rng.random() < 0.8 else "")
        if rng.random() < 0.3:
            t += rng.choice("eE") + rng.choice(["", "+", "-"]) + str(rng.randint(0, rng.choice([5, 40, 330])))
        return t
    if r < 0.7:      # exactly representable values and their neighbours in decimal
        if rng.random() < 0.5:
            x = struct.unpack("<f", struct.pack("<I", g_f(rng)))[0]
        else:
            x = struct.unpack("<d", struct.pack("<Q", g_d(rng)))[0]
        return repr(x) if rng.random() < 0.5 else "%.*f" % (rng.randint(0, 12), x)
    # hexadecimal
    m = "".join(rng.choice("0123456789abcdefABCDEF") for _ in range(rng.randint(1, rng.choice([2, 8, 20]))))
    f = "".join(rng.choice("0123456789abcdef") for _ in range(rng.randint(0, rng.choice([2, 8, 20]))))
    t = ("-" if rng.random() < 0.3 else "") + "0x" + m + ("." + f if rng.random() < 0.7 else "")
    if rng.random() < 0.8:
        t += "p" + rng.choice(["", "+", "-"]) + str(rng.randint(0, rng.choice([5, 40, 160, 1100])))
    return t


def g_int_text(rng):
    r = rng.random()
    if r < 0.3:
        return rng.choice(["0", "-0", "+5", " 12", "0x1f", "0X1F", "077", "08", "0x", "0xg", "-", "+", "", " ", "12abc", "-0x10", "0x-1",
                           "99999999999999999999", "-99999999999999999999", "9223372036854775807", "9223372036854775808",
                           "-9223372036854775808", "18446744073709551615", "18446744073709551616", "ffffffffffffffffff",
                           "2147483647", "2147483648", "-2147483649", "1234-56-78", "00", "0 1", "1x", "a", "-a", "0b1"])
    base = rng.choice([8, 10, 16])
    digs = "01234567" if base == 8 else ("0123456789" if base == 10 else "0123456789abcdefABCDEF")
    t = "".join(rng.choice(digs) for _ in range(rng.randint(1, rng.choice([2, 6, 12, 22]))))
    if base == 16 and rng.random() < 0.7:
        t = "0x" + t
    if base == 8:
        t = "0" + t
    return ("-" if rng.random() < 0.3 else "") + t + rng.choice(["", "", " ", "h", "x", "-1", ".5"])


def libc_stream(rng, n, stats):
    """inputs for the libc sub-models alone (printf %a, %#.Nf, sscanf %f %lf %d %i %x, localtime/mktime)"""
    for _ in range(n):
        k = rng.randint(0, 8)
        stats["libc_ops"] = stats.get("libc_ops", 0) + 1
        if k == 0:
            yield "X a32 %08x" % (g_f(rng) if rng.random() < 0.95 else rng.choice([0x7f800000, 0xff800000, 0x7fc00000]))
        elif k == 1:
            yield "X a64 %016x" % (g_d(rng) if rng.random() < 0.95 else rng.choice([0x7ff0000000000000, 0xfff0000000000000, 0x7ff8000000000000]))
        elif k == 2:
            yield "X f32 %d %08x" % (rng.randint(0, 9), g_f(rng))
        elif k == 3:
            yield "X f64 %d %016x" % (rng.randint(0, 9), g_d(rng))
        elif k == 4:
            yield "X sf32 " + hx(g_float_text(rng).encode())
        elif k == 5:
            yield "X sf64 " + hx(g_float_text(rng).encode())
        elif k in (6, 7):
            yield "X si %s %s %s" % (rng.choice("dix"), rng.choice(["-", "-", "1", "2", "4", "8"]), hx(g_int_text(rng).encode()))
        else:
            yield "X tm %d" % (rng.getrandbits(32) if rng.random() < 0.8 else rng.choice([0, 86399, 86400, 951782399, 951782400, 951868800, 4107542399, 2 ** 32 - 1]))


def t_int(rng):
    v = g_i(rng)
    r = rng.random()
    if r < 0.6:
        return str(v)
    if r < 0.75:
        return ("-" if v < 0 else "") + "0x%x" % abs(v)
    if r < 0.85:
        return str(v) + "i"
    return "0%o" % abs(v)


def t_num(rng):
    r = rng.random()
    if r < 0.35:
        return t_int(rng)
    if r < 0.5:
        return str(g_h(rng)) + "h"
    if r < 0.8:
        x = rng.choice(["1.5", "1.", ".5", "-0.25", "1e5", "1e-3", "2.5e+3", "10f", "1.5f", "2d", "1.5d", "0.1", "123.456", "-7.", "1e10"])
        return x
    fb = g_f(rng)
    if rng.random() < 0.5:
        x = struct.unpack("<f", struct.pack("<I", fb))[0]
        return "%.3f (%s)" % (x, x.hex().replace("0000000p", "p")) if abs(x) < 1e30 else "1.0 (0x1p+0)"
    x = struct.unpack("<d", struct.pack("<Q", g_d(rng)))[0]
    return "%.2fd (%s)" % (x, x.hex()) if abs(x) < 1e30 else "1.0d (0x1p+0)"


def t_str(rng):
    def part(n):
        out = ""
        for _ in range(n):
            c = g_char(rng)
            out += {7: "\\a", 8: "\\b", 9: "\\t", 10: "\\n", 11: "\\v", 12: "\\f", 13: "\\r", 34: "\\\"", 92: "\\\\"}.get(c, chr(c))
        return out
    parts = ['"' + part(rng.randint(0, 8)) + '"' for _ in range(rng.choice([1, 1, 1, 2, 3]))]
    t = ("\\\n" + " " * rng.randint(0, 6)).join(parts)
    return t + ("S" if rng.random() < 0.2 else "")


def t_date(rng):
    t = "%04d-%02d-%02d" % (rng.randint(1970, 2100), rng.randint(1, 12), rng.randint(1, 28))
    r = rng.random()
    if r < 0.3:
        return t
    t += " %02d:%02d" % (rng.randint(0, 23), rng.randint(0, 59))
    if r < 0.5:
        return t
    t += ":%02d" % rng.randint(0, 59)
    if r < 0.7:
        return t
    if r < 0.85:
        return t + rng.choice([".5", ".25", ".125", ".75", ".000", ".0625"])
    fr = rng.choice([0x80000000, 0xa0000000, 0x40000000, 0x00010000, 0xfffff000, 1 << rng.randint(8, 31)])
    return t + ".123 ( ... + 0x%xp-32 s )" % fr


def t_scalar(rng):
    r = rng.random()
    if r < 0.35:
        return t_num(rng)
    if r < 0.45:
        c = g_char(rng)
        return "'" + {7: "\\a", 8: "\\b", 9: "\\t", 10: "\\n", 11: "\\v", 12: "\\f", 13: "\\r", 39: "\\'", 92: "\\\\"}.get(c, chr(c)) + "'"
    if r < 0.6:
        return t_str(rng)
    if r < 0.7:
        return g_ident(rng).decode() if rng.random() < 0.7 else rng.choice(["true", "false", "nil", "inf", "now", "immediately"])
    if r < 0.76:
        return "#%08x" % rng.getrandbits(32)
    if r < 0.82:
        sp = rng.choice([" ", "", "  "])
        return "MIDI" + sp + "[" + sp + " ".join("0x%02x" % rng.getrandbits(8) for _ in range(4)) + sp + "]"
    if r < 0.9:
        n = rng.randint(0, 5)
        return "BLOB [" + " ".join([str(n)] + ["0x%02x" % rng.getrandbits(8) for _ in range(n)]) + "]"
    return t_date(rng)


def t_int_range(rng):
    a = rng.randint(-50, 50)
    d = rng.choice([1, -1, 2, -3, 5])
    n = rng.randint(1, 8)
    suffix = rng.choice(["", "", "h"])
    sp = rng.choice([" ... ", " ...", "... ", " ...  "])
    if abs(d) == 1 and rng.random() < 0.6:
        return "%d%s%s%d%s" % (a, suffix, sp, a + d * n, suffix)
    return "%d%s %d%s%s%d%s" % (a, suffix, a + d, suffix, sp, a + d * (n + 1), suffix)


def t_array(rng, depth=0):
    r = rng.random()
    if r < 0.1:
        return "[]"
    if r < 0.3:
        return "[" + t_int_range(rng) + "]"
    if r < 0.4:
        a = rng.randint(-5, 5)
        return "[%d %d ... ]" % (a, a + rng.choice([0, 1, 2, -1]))
    if r < 0.5 and depth == 0:
        return "[" + " ".join(t_array(rng, 1) for _ in range(rng.randint(1, 3))) + "]"
    kind = rng.choice(["i", "s", "c", "k"])
    n = rng.randint(1, 5)
    if kind == "i":
        els = [t_int(rng) for _ in range(n)]
    elif kind == "s":
        els = [t_str(rng).rstrip("S") for _ in range(n)]
    elif kind == "c":
        els = ["'%s'" % chr(rng.randint(97, 122)) for _ in range(n)]
    else:
        els = [rng.choice(["true", "false"]) for _ in range(n)]
    return "[" + rng.choice(["", " "]) + " ".join(els) + rng.choice(["", " "]) + "]"


def g_text(rng):
    """a text of the documented syntax (doc/Guide.adoc), with free white space and comments"""
    toks = []
    for _ in range(rng.randint(0, 6)):
        r = rng.random()
        if r < 0.6:
            toks.append(t_scalar(rng))
        elif r < 0.72:
            toks.append(t_int_range(rng))
        elif r < 0.85:
            toks.append(t_array(rng))
        else:
            toks.append("%dx%s" % (rng.randint(1, 9), rng.choice([t_int(rng), "'a'", "nil", '"s"', "[1 2]", "1.5", "abc"])))
    # no white space or comment in front of the first argument: rtosc_count_printed_arg_vals skips
    # it, rtosc_scan_arg_vals does not (outside C10's statement; noted for C11)
    out = ""
    for k, t in enumerate(toks):
        out += t
        if k + 1 < len(toks):
            out += rng.choice([" ", " ", "  ", "\n", "\n    ", " % comment\n", "\t"])
    return out + rng.choice(["", "", " ", "\n", " % end"])


def text_stream(rng, n, stats):
    for _ in range(n):
        stats["text_ops"] = stats.get("text_ops", 0) + 1
        t = g_text(rng)
        if rng.random() < 0.15:
            yield "TM " + hx(("/" + "".join(rng.choice("abc/_1") for _ in range(rng.randint(0, 8))) + " " + t).encode())
        else:
            yield "T " + hx(t.encode())


def nontrivial(op):
    w = op.split()
    return w[0] in "AM" and len(w) > 8


# ------------------------------------------------------------------------------------
# oracle: the round-trip property evaluated on the implementation's output
# ------------------------------------------------------------------------------------
class Bad(Exception):
    pass


def parse_cells(toks):
    """tokens -> list of cells (type, value)"""
    out = []
    for t in toks:
        c = t[0]
        if c in "ich":
            out.append((c, int(t[1:])))
        elif c in "fdtrm":
            out.append((c, int(t[1:], 16)))
        elif c in "sSb":
            out.append((c, None if t[2:] == "NULL" else unhx(t[2:])))
        elif c in "TFNI" and len(t) == 1:
            out.append((c, None))
        elif c in "TF" and t[1:] in ("0", "1"):     # scanned boolean with its payload val.T
            out.append((c, None))
        elif c == "a":
            ty, ln = t[1:].split(":")
            out.append(("a", (int(ty), int(ln))))
        elif c == "R":
            num, hd = t[1:].split(":")
            out.append(("-", (int(num), int(hd))))
        else:
            raise Bad("unknown cell " + t)
    return out


def op_cells(toks):
    """op-line argument tokens -> flat cells with array headers carrying (type, len)"""
    out = []
    stack = []
    for t in toks:
        if t[0] == "[":
            stack.append(len(out))
            out.append(["a", [int(t[1:]), 0]])
        elif t == "]":
            h = stack.pop()
            out[h][1][1] = len(out) - h - 1
        else:
            out.append(list(parse_cells([t])[0]))
    return [(c[0], tuple(c[1]) if c[0] == "a" else c[1]) for c in out]


def b_and(a, b):
    return "T" if (a == "T" and b == "T") else "F"


def b_xor(a, b):
    return "T" if a != b else "F"


def range_elem(delta, start, k):
    ty = start[0]
    if ty != delta[0] and not (ty in "TF" and delta[0] in "TF"):
        raise Bad("range delta type differs from start type")
    if ty in "ic":
        return (ty, wrap("i", start[1] + wrap("i", k * delta[1])))
    if ty == "h":
        return (ty, wrap("h", start[1] + wrap("h", k * delta[1])))
    if ty in "TF":
        kk = "T" if k != 0 else "F"
        return (b_xor(start[0], b_and(kk, delta[0])), None)
    raise Bad("range with delta over type " + ty)


def take_value(cells, pos):
    """one value (a simple cell, or an array with its elements) starting at pos -> (structured value, next pos)"""
    if pos >= len(cells):
        raise Bad("cell array ends inside a value")
    c = cells[pos]
    if c[0] == "a":
        ty, ln = c[1]
        if ln < 0 or pos + 1 + ln > len(cells):
            raise Bad("array length runs past the cells")
        els = expand(cells[pos + 1: pos + 1 + ln])
        return ("a", ty, tuple(els)), pos + 1 + ln
    if c[0] == "-":
        raise Bad("range header where a value is expected")
    return c, pos + 1


def expand(cells):
    """flat cells (possibly with range headers) -> list of structured values"""
    out = []
    pos = 0
    while pos < len(cells):
        c = cells[pos]
        if c[0] == "-":
            num, hd = c[1]
            if num <= 0:
                raise Bad("range with repetition count %d" % num)
            if hd:
                if pos + 2 >= len(cells):
                    raise Bad("range header without delta/start cells")
                delta = cells[pos + 1]
                start = cells[pos + 2]
                for k in range(num):
                    out.append(range_elem(delta, start, k))
                pos += 3
            else:
                v, pos = take_value(cells, pos + 1)
                out += [v] * num
        else:
            v, pos = take_value(cells, pos)
            out.append(v)
    return out


class LossyTime:
    """Without lossless mode a time tag's fraction is printed with max(precision, 1) decimal digits and nothing
    else.  A fraction that these digits do not denote exactly cannot come back exactly; the statement's "equal
    exactly" is then read as: equal to the printed precision, i.e. less than one unit of the last printed digit
    apart (the printer rounds to nearest, and prints .99… instead of carrying into the seconds: fix C10-17),
    plus the float step."""

    def __init__(self, active, prec):
        self.active = active
        self.digits = max(prec, 1)
        self.used = False
        self.why = ""

    def close_enough(self, v, w):
        if not self.active or v == 1 or w == 1:
            return False
        tol = (2 ** 32) // (10 ** self.digits) + 2 ** 9
        if abs(v - w) <= tol:
            self.used = True
            return True
        self.why = " (more than one unit of the %d printed fraction digits apart: %.9f s)" % (self.digits, abs(v - w) / 2 ** 32)
        return False


def same_value(a, b, lossy=None):
    if a[0] == "a" or b[0] == "a":
        if a[0] != b[0]:
            return False
        if len(a[2]) != len(b[2]):
            return False
        # the element type of an empty array is not visible in the text
        if a[1] != b[1] and not (chr(a[1]) in "TF" and chr(b[1]) in "TF") and len(a[2]) > 0:
            return False
        return all(same_value(x, y, lossy) for x, y in zip(a[2], b[2]))
    if a != b and lossy is not None and a[0] == "t" and b[0] == "t":
        return lossy.close_enough(a[1], b[1])
    return a == b


def parse_out(out):
    w = out.split()
    r = {}
    i = 0
    if w and w[0] == "P":
        r["ret"] = int(w[1])
        r["text"] = unhx(w[2])
        i = 3
        if i < len(w) and w[i] == "B":          # mode A with cols0 > 0: the separator in front of the buffer
            r["before"] = int(w[i + 1])
            i += 2
    if i < len(w) and w[i] == "C":
        r["count"] = int(w[i + 1])
        i += 2
    if i < len(w) and w[i] == "S":
        if w[i + 1] == "-":
            r["rd"] = None
            i += 2
        else:
            r["rd"] = int(w[i + 1])
            n = int(w[i + 2])
            r["cells_tok"] = w[i + 3: i + 3 + n]
            i += 3 + n
    if i < len(w) and w[i] == "A":
        r["addr"] = unhx(w[i + 1])
        i += 2
    if i < len(w) and w[i] == "E":
        r["eq"] = int(w[i + 1])
        i += 2
    return r


def oracle(op, out):
    w = op.split()
    if w[0] not in ("A", "M"):
        return None
    if out.startswith("crash") or out == "bad-op":
        return "implementation output: " + out[:80]
    try:
        r = parse_out(out)
        text = r["text"]
        if r["ret"] != len(text):
            return "printer returned %d but wrote %d characters" % (r["ret"], len(text))
        if r.get("before", 32) not in (32, 10):
            return "the separator in front of the buffer was overwritten with byte %d" % r["before"]
        if r["count"] < 0:
            return "syntax checker rejects the printed text (count %d)" % r["count"]
        if r.get("rd") is None:
            return "no scan"
        if any(t.startswith("?") for t in r["cells_tok"]):
            return "scanner wrote fewer cells than the checker counted (%d)" % r["count"]
        for t in r["cells_tok"]:
            # "compared ... bitwise": an original 'T' carries val.T = 1, an 'F' val.T = 0 (rtosc_arg_val_to_int and
            # the range arithmetic read the payload, not the type letter)
            if t[0] in "TF" and len(t) >= 2 and t not in ("T1", "F0"):
                return "scanned boolean '%s' carries val.T = %s, the original %d" % (t[0], t[1:], 1 if t[0] == "T" else 0)
        if r["rd"] != len(text):
            return "scanner consumed %d of %d characters" % (r["rd"], len(text))
        orig = expand(op_cells(w[7:]))
        got = expand(parse_cells(r["cells_tok"]))
        if len(orig) != len(got):
            return "scanned %d values, printed %d" % (len(got), len(orig))
        lossy = LossyTime(w[1] == "0", int(w[2]))
        for k, (a, b) in enumerate(zip(orig, got)):
            if not same_value(a, b, lossy):
                return "value %d differs: printed %r, scanned %r%s" % (k, a, b, lossy.why)
        if r.get("eq") != 1 and not lossy.used:
            return "rtosc_arg_vals_eq(original, scanned) = %r" % r.get("eq")
        if w[0] == "M" and r.get("addr") != unhx(w[6]):
            return "address differs"
    except Bad as e:
        return "malformed scan result: %s" % e
    except (KeyError, ValueError, IndexError) as e:
        return "unparsable output (%s): %s" % (e, out[:80])
    return None


def _same_but_text(impl_out, model_out):
    """both lines are complete print/count/scan lines and agree in everything but the printed text (and the two
    numbers that are its length: the printer's return value and the scanner's byte count; and, with cols_used != 0 in
    list mode, whether the separator in front of the buffer has become the line break: layout as well)"""
    try:
        a, b = parse_out(impl_out), parse_out(model_out)
    except (ValueError, IndexError):
        return False
    if "text" not in a or "text" not in b or a.get("rd") is None or b.get("rd") is None:
        return False
    return all(a.get(k) == b.get(k) for k in ("count", "cells_tok", "addr", "eq")) and a["text"] != b["text"]


_NOTE_DONE = [False]


def _print_text_only_note():
    n = _STATS.get("correspondence_diffs_text_only", 0)
    m = _STATS.get("correspondence_diffs_other", 0)
    if n and not _NOTE_DONE[0]:
        _NOTE_DONE[0] = True
        print("NOTE property=C10: %d of %d model/implementation differences are in the PRINTED TEXT ONLY: for these inputs "
              "the implementation's own text is accepted by its checker, scanned back completely and the values equal the "
              "originals (round-trip oracle holds, count/scan part of the line identical to the model's). The printer "
              "lays its text out differently from the model Pretty/Print.lean; that alone does not violate C10 "
              "(e.g. %s)" % (n, n + m, _STATS.get("correspondence_diffs_text_only_example", "")[:160]))


def known(op, impl_out, model_out, defs):
    """C10 has no open finding: this never attributes anything (always None).  It is the one place where the
    runner shows implementation and model output together; used to record, for the evidence file and a NOTE line,
    whether a disagreement concerns the printed text only while the property itself (oracle) holds."""
    if model_out is None or impl_out == model_out:
        return None
    import atexit
    if "correspondence_diffs_text_only" not in _STATS:
        _STATS["correspondence_diffs_text_only"] = 0
        _STATS["correspondence_diffs_other"] = 0
        atexit.register(_print_text_only_note)
    if _same_but_text(impl_out, model_out) and oracle(op, impl_out) is None:
        _STATS["correspondence_diffs_text_only"] += 1
        _STATS.setdefault("correspondence_diffs_text_only_example", op)
    else:
        _STATS["correspondence_diffs_other"] += 1
    return None


def neighbours(op, rng):
    """inputs near a disagreeing one: drop arguments, flip options"""
    w = op.split()
    if w[0] not in ("A", "M"):
        return
    head, args = w[:7], w[7:]
    for k in range(len(args)):
        cand = args[:k] + args[k + 1:]
        if " ".join(cand).count("[") == " ".join(cand).count("]"):
            yield " ".join(head + cand)
    for ll in (10, 20, 40, 80, 120):
        yield " ".join(head[:3] + [str(ll)] + head[4:] + args)
    for comp in ("0", "1"):
        yield " ".join(head[:4] + [comp] + head[5:] + args)
