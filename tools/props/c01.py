"""C01 — OSC 1.0 wire format: encoding is spec-exact and decoding is lossless."""
import os
import re
import struct
import subprocess

PROP = "C01"
ENGINE = "osc"
LEAN_MODULES = ["RtoscModel.Props.C01"]
THEOREMS = [
    "Rtosc.Osc.sizeNull_eq_spec_length",
    "Rtosc.Osc.amessage_eq_spec",
    "Rtosc.Osc.amessage_null_buffer",
    "Rtosc.Osc.amessage_null_blob",
    "Rtosc.Osc.vmessage_eq_spec",
    "Rtosc.Osc.avmessage_eq_spec",
    "Rtosc.Osc.three_constructors_agree",
    "Rtosc.Osc.ringLength_encode",
    "Rtosc.Osc.messageLength_encode",
    "Rtosc.Osc.read_encode_argString",
    "Rtosc.Osc.read_encode_type",
    "Rtosc.Osc.read_encode_argument",
    "Rtosc.Osc.read_encode_iterator",
    "Rtosc.Osc.narguments_eq_iterator_count",
    "Rtosc.Osc.tables_agree",
]
HARNESS = {"src": ["osc.cpp"], "deps": ["common.h"]}
RULE = ("every type string over the 17 symbols up to length 3 (exhaustive: 5219 strings) with value vectors from "
        "boundary sets, random type strings up to 40 tags, addresses of every length 1..64, each through "
        "rtosc_amessage / rtosc_vmessage (hand-built va_list) / rtosc_avmessage, plus 12 literal rtosc_message call "
        "sites; destination capacity = size + 0..8, exactly size, too small, or NULL; random trailing bytes behind the "
        "message for rtosc_message_length and the readers; a raw stream (random and mutated bytes) for "
        "rtosc_message_length only. Non-trivial = at least one payload-carrying argument; distinct = distinct op line")
ASSUMPTIONS = ["address non-empty and NUL-free, string arguments NUL-free, blob length 0 <= len < 2^31 and not larger "
               "than the data block (NULL data allowed: encodes as zero bytes), message shorter than 2^31 bytes",
               "arg-val lists contain no ranges ('-') and no arrays ('a') (range expansion is C16)",
               "double -> float conversion of the varargs path is the target's (round to nearest even, NaN quieted)"]
TRUSTED = ["hand-written models RtoscModel/Osc/{Encode,Read,Length}.lean of src/rtosc.c and src/cpp/arg-val.c",
           "x86-64 SysV va_list layout (hand-built va_list in harness/osc.cpp)"]
LEVEL_TEXT = ("Lean theorems: the three constructors produce exactly Spec.encode and return its length for every "
              "well-formed message of any size; rtosc_message_length of those bytes followed by anything is that length; "
              "argument string, type by index, argument by index and the iterator reproduce tags and values bit-identically; "
              "rtosc_narguments equals the iterator count. The models are compared with the compiled implementation "
              "(ASan/UBSan) on tens of thousands of generated messages per run and the property is evaluated directly on "
              "the implementation's output by an independent Python codec")

VERIF = os.path.dirname(os.path.dirname(os.path.dirname(os.path.abspath(__file__))))
TAGS = b"ifsbhtdScrmTFNI[]"
PAYLOAD = b"isbfhtdSrmc"
W32 = b"icrf"
W64 = b"htd"


def hx(b):
    return bytes(b).hex() if b else "-"


def unhx(s):
    return b"" if s == "-" else bytes.fromhex(s)


# ---------------------------------------------------------------------------------------
# independent reference codec (the specification, in Python)
# ---------------------------------------------------------------------------------------
def pad_str(s):
    return s + b"\0" * (4 - len(s) % 4)


def enc_arg(tag, a):
    """a: int for 32/64-bit and midi tags, bytes for strings, (len, data|None) for blobs."""
    t = bytes([tag])
    if t in W32:
        return struct.pack(">I", a)
    if t in W64:
        return struct.pack(">Q", a)
    if t == b"m":
        return struct.pack(">I", a)
    if t in b"sS":
        return pad_str(a)
    if t == b"b":
        n, d = a
        body = (b"\0" * n) if d is None else d[:n]
        return struct.pack(">I", n) + body + b"\0" * ((4 - n % 4) % 4)
    raise ValueError(tag)


def encode(addr, tags, args):
    out = pad_str(addr) + pad_str(b"," + tags)
    k = 0
    for t in tags:
        if bytes([t]) in PAYLOAD:
            out += enc_arg(t, args[k])
            k += 1
    return out


def narrow(dbits):
    """binary64 -> binary32 on bit patterns, round to nearest even, NaN quieted."""
    s = dbits >> 63
    e = (dbits >> 52) & 0x7ff
    m = dbits & ((1 << 52) - 1)
    if e == 0x7ff:
        if m == 0:
            return (s << 31) | 0x7f800000
        return (s << 31) | 0x7f800000 | 0x400000 | ((m >> 29) & 0x3fffff)
    x = struct.unpack(">d", struct.pack(">Q", dbits))[0]
    try:
        return struct.unpack(">I", struct.pack(">f", x))[0]
    except OverflowError:
        return (s << 31) | 0x7f800000


def widen(fbits):
    """binary32 -> binary64 on bit patterns, exact; NaN payload kept in the top bits."""
    s = fbits >> 31
    e = (fbits >> 23) & 0xff
    m = fbits & 0x7fffff
    if e == 0xff:
        return (s << 63) | (0x7ff << 52) | (m << 29)
    x = struct.unpack(">f", struct.pack(">I", fbits))[0]
    return struct.unpack(">Q", struct.pack(">d", x))[0]


# ---------------------------------------------------------------------------------------
# op lines
# ---------------------------------------------------------------------------------------
def tok(mode, tag, a):
    t = bytes([tag])
    if t == b"f" and mode in "VL":
        return "q%016x" % a          # promoted double
    if t in W32:
        return "w%08x" % a
    if t in W64:
        return "q%016x" % a
    if t == b"m":
        return "m%08x" % a
    if t in b"sS":
        return "s" + hx(a)
    n, d = a
    return "b%d:%s" % (n, "N" if d is None else hx(d))


def op_line(mode, cap, addr, tags, rest, args):
    toks = []
    k = 0
    for t in tags:
        if bytes([t]) in PAYLOAD:
            toks.append(tok(mode[0], t, args[k]))
            k += 1
    return " ".join([mode, "N" if cap is None else str(cap), hx(addr), hx(tags), hx(rest)] + toks)


def parse_op(op):
    """-> (mode, cap, addr, tags, rest, args as the *abstract* values the reader must return)"""
    w = op.split()
    mode, cap, addr, tags, rest = w[0], (None if w[1] == "N" else int(w[1])), unhx(w[2]), unhx(w[3]), unhx(w[4])
    toks = w[5:]
    args = []
    k = 0
    for t in tags:
        tb = bytes([t])
        if tb not in PAYLOAD:
            continue
        x = toks[k]
        k += 1
        if x[0] == "w":
            args.append(int(x[1:], 16))
        elif x[0] == "q":
            v = int(x[1:], 16)
            args.append(narrow(v) if tb == b"f" else v)
        elif x[0] == "m":
            args.append(int(x[1:], 16))
        elif x[0] == "s":
            args.append(unhx(x[1:]))
        else:
            n, d = x[1:].split(":")
            args.append((int(n), None if d == "N" else unhx(d)))
    return mode, cap, addr, tags, rest, args


F32_SET = [0, 1, 0x3f800000, 0xbf800000, 0x80000000, 0x7f800000, 0xff800000, 0x7fc00000, 0x7fc00001, 0xffc12345,
           0x7fffffff, 0x00000001, 0x007fffff, 0x00800000, 0x7f7fffff, 0x3eaaaaab, 0x42280000]
I32_SET = [0, 1, 2, 0x7fffffff, 0x80000000, 0xffffffff, 0x7ffffffe, 0x80000001, 0x000000ff, 0x0000ff00, 0x00ff0000,
           0xff000000, 0x12345678]
I64_SET = [0, 1, 0x7fffffffffffffff, 0x8000000000000000, 0xffffffffffffffff, 0x7ff8000000000001, 0x7ff0000000000001,
           0xfff8000000000000, 0x7ff0000000000000, 0x3ff0000000000000, 0x8000000000000000, 0x0123456789abcdef,
           0x00000000ffffffff, 0xffffffff00000000, 0x0000000000000001]
D2F_SET = [0x36a0000000000000, 0x369fffffffffffff, 0x36a0000000000001, 0x47efffffe0000000, 0x47effffff0000000,
           0x47efffffefffffff, 0x3ff0000010000000, 0x3ff0000030000000, 0x3ff0000010000001, 0x380fffffffffffff,
           0x3810000000000000, 0x3690000000000000, 0x0000000000000001, 0x7ff0000000000001, 0xfff4000000000000,
           0x7fefffffffffffff, 0x380ffffff0000000, 0x37f0000000000000]
STR_LENS = [0, 1, 2, 3, 4, 5, 7, 8, 11, 12, 15, 16, 17, 31, 32, 40]
BLOB_LENS = [0, 1, 2, 3, 4, 5, 6, 7, 8, 9, 12, 16, 31, 32, 33]


def rand_nonnul(rng, n):
    r = rng.random()
    if r < 0.7:
        return bytes(rng.randint(0x20, 0x7e) for _ in range(n))
    return bytes(rng.randint(1, 255) for _ in range(n))


def rand_arg(rng, tag, mode, stats):
    t = bytes([tag])
    if t == b"f":
        if mode in "VL":
            r = rng.random()
            if r < 0.6:
                d = widen(rng.choice(F32_SET) if rng.random() < 0.6 else rng.getrandbits(32))
            elif r < 0.8:
                d = rng.choice(D2F_SET)
            else:
                d = rng.getrandbits(64)
                if rng.random() < 0.5:   # in float range
                    d = (d & ~(0x7ff << 52)) | (rng.randint(870, 1160) << 52)
            stats["f_via_double"] += 1
            return d
        return rng.choice(F32_SET) if rng.random() < 0.6 else rng.getrandbits(32)
    if t in W32:
        return rng.choice(I32_SET) if rng.random() < 0.6 else rng.getrandbits(32)
    if t in W64:
        return rng.choice(I64_SET) if rng.random() < 0.6 else rng.getrandbits(64)
    if t == b"m":
        return rng.getrandbits(32)
    if t in b"sS":
        n = rng.choice(STR_LENS) if rng.random() < 0.8 else rng.randint(0, 64)
        if n == 0:
            stats["empty_str"] += 1
        return rand_nonnul(rng, n)
    n = rng.choice(BLOB_LENS) if rng.random() < 0.8 else rng.randint(0, 64)
    r = rng.random()
    if r < 0.12:
        stats["null_blob"] += 1
        return (n, None)
    data = bytes(rng.getrandbits(8) if rng.random() < 0.8 else 0 for _ in range(n))
    if r < 0.25:
        data += bytes(rng.getrandbits(8) for _ in range(rng.randint(1, 5)))   # block longer than len
    return (n, data)


def rand_addr(rng, n=None):
    if n is None:
        n = rng.randint(1, 64) if rng.random() < 0.3 else rng.randint(1, 12)
    return b"/" + bytes(rng.randint(0x21, 0x7e) for _ in range(n - 1))


def make_case(rng, stats, tags, mode=None, addr=None):
    mode = mode or rng.choice("AVM")
    addr = addr or rand_addr(rng)
    args = [rand_arg(rng, t, mode, stats) for t in tags if bytes([t]) in PAYLOAD]
    abstract = [narrow(a) if (bytes([t]) == b"f" and mode in "VL") else a
                for t, a in zip([t for t in tags if bytes([t]) in PAYLOAD], args)]
    total = len(encode(addr, tags, abstract))
    r = rng.random()
    if r < 0.70:
        cap = total + rng.randint(0, 8)
        ck = "slack"
    elif r < 0.85:
        cap = total
        ck = "exact"
    elif r < 0.93:
        cap = rng.randint(0, total - 1)
        ck = "too_small"
    else:
        cap = None
        ck = "null"
    stats["cap_" + ck] += 1
    rest = b""
    if rng.random() < 0.5:
        rest = bytes(rng.getrandbits(8) if rng.random() < 0.7 else rng.choice(b"\0,/#ib") for _ in range(rng.randint(1, 12)))
        stats["with_rest"] += 1
    stats["mode_" + mode] += 1
    stats["addr_mod4"][len(addr) % 4] += 1
    stats["ntags_hist"][min(len(tags), 41) // 5] += 1
    for t in tags:
        stats["tag_count"][chr(t)] = stats["tag_count"].get(chr(t), 0) + 1
    if tags[:1] in (b"[", b"]"):
        stats["leading_bracket"] += 1
    return op_line(mode, cap, addr, tags, rest, args)


def _f(x):
    return widen(struct.unpack(">I", struct.pack(">f", x))[0])


def _d(x):
    return struct.unpack(">Q", struct.pack(">d", x))[0]


def _i(x):
    return x & 0xffffffff


def _h(x):
    return x & 0xffffffffffffffff


BLOB5 = bytes([1, 2, 3, 4, 5])
# keep in sync with call_l() in harness/osc.cpp
LITERALS = [
    (b"/page/poge", b"TIF", []),
    (b"/testing", b"is", [23, b"this string"]),
    (b"/oscillator/4/frequency", b"f", [_f(440.0)]),
    (b"/foo", b"iisff", [1000, _i(-1), b"hello", _f(1.234), _f(5.678)]),
    (b"/dest", b"[ifsbhtdScrmTFNI]", [42, _f(0.25), b"string", (3, b"string\0"), _h(-125), 22412, _d(0.125), b"Symbol",
                                       25, 0x12345678, 0x903c7f00]),
    (b"/b", b"bb", [(5, BLOB5), (0, None)]),
    (b"/path", b"sss", [b"", b"", b""]),
    (b"/dddddddddd", b"dddddddddd", [_d(1.0), _d(2.0), _d(3.0), _d(4.0), _d(5.0), _d(6.0), _d(7.0), _d(8.0), _d(9.0),
                                     _d(-0.0)]),
    (b"/mix", b"ifdhifdhifdh", [1, _f(1.5), _d(2.5), 3, 4, _f(4.5), _d(5.5), 6, 7, _f(7.5), _d(8.5), 9]),
    (b"/a", b"[ii]", [1, 2]),
    (b"/nil", b"", []),
    (b"/x", b"sSb", [b"abc", b"abcd", (4, BLOB5)]),
]


def all_tag_strings(maxlen):
    cur = [b""]
    yield b""
    for _ in range(maxlen):
        nxt = []
        for s in cur:
            for t in TAGS:
                x = s + bytes([t])
                nxt.append(x)
                yield x
        cur = nxt


def rand_tags(rng, lo, hi):
    n = rng.randint(lo, hi)
    w = rng.random()
    if w < 0.2:
        alph = b"ifsb[]"
    elif w < 0.3:
        alph = b"sSb"
    else:
        alph = TAGS
    return bytes(rng.choice(alph) for _ in range(n))


def generate(rng, tier, stats):
    quick = tier == "quick"
    stats.update({"mode_A": 0, "mode_V": 0, "mode_M": 0, "literal": 0, "raw": 0, "junk_tags": 0, "cap_slack": 0,
                  "cap_exact": 0, "cap_too_small": 0, "cap_null": 0, "with_rest": 0, "addr_mod4": [0, 0, 0, 0],
                  "ntags_hist": [0] * 9, "tag_count": {}, "leading_bracket": 0, "empty_str": 0, "null_blob": 0,
                  "f_via_double": 0, "exhaustive_len3": 0})
    # literal call sites
    for k, (addr, tags, args) in enumerate(LITERALS):
        total = len(encode(addr, tags, [narrow(a) if bytes([t]) == b"f" else a
                                        for t, a in zip([t for t in tags if bytes([t]) in PAYLOAD], args)]))
        for cap in (total + 4, total, None, max(total - 1, 0)):
            stats["literal"] += 1
            yield op_line("L%d" % k, cap, addr, tags, b"", args)
    # exhaustive small type strings
    reps = 2 if quick else 12
    for tags in all_tag_strings(3):
        for _ in range(reps):
            stats["exhaustive_len3"] += 1
            yield make_case(rng, stats, tags)
    # every address length
    for n in range(1, 65):
        for _ in range(2 if quick else 20):
            yield make_case(rng, stats, rand_tags(rng, 0, 6), addr=rand_addr(rng, n))
    # random longer type strings
    for _ in range(12000 if quick else 400000):
        yield make_case(rng, stats, rand_tags(rng, 0, 40) if rng.random() < 0.5 else rand_tags(rng, 0, 8))
    # type strings with bytes that are not tags (default branches of every switch); A and V only
    for _ in range(600 if quick else 20000):
        tags = bytes(rng.choice(b"ifsbTx.Z0a") for _ in range(rng.randint(1, 8)))
        stats["junk_tags"] += 1
        yield make_case(rng, stats, tags, mode=rng.choice("AV"))
    # raw stream for rtosc_message_length (never starts a bundle)
    for _ in range(6000 if quick else 300000):
        stats["raw"] += 1
        r = rng.random()
        if r < 0.6:
            tags = rand_tags(rng, 0, 6)
            args = [rand_arg(rng, t, "A", {"empty_str": 0, "null_blob": 0, "f_via_double": 0})
                    for t in tags if bytes([t]) in PAYLOAD]
            m = bytearray(encode(rand_addr(rng), tags, args))
            c = rng.randint(0, 4)
            if c == 0:
                m = m[:rng.randint(0, len(m))]
            elif c == 1:
                m[rng.randrange(len(m))] = rng.getrandbits(8)
            elif c == 2:
                i = rng.randrange(len(m))
                m[i:i] = bytes(rng.getrandbits(8) for _ in range(rng.randint(1, 4)))
            elif c == 3:
                m += bytes(rng.getrandbits(8) for _ in range(rng.randint(1, 8)))
            else:
                i = rng.randrange(len(m))
                m[i] = rng.choice([0, 0x2c, 0x62, 0x73, 0xff, 0x80, 0x7f])
            m = bytes(m)
        else:
            m = bytes(rng.choice(b"\0\0/,isb\xff\x01ab") if rng.random() < 0.8 else rng.getrandbits(8)
                      for _ in range(rng.randint(0, 24)))
        if m[:1] == b"#":
            m = b"/" + m[1:]
        yield "R " + hx(m)


def nontrivial(op):
    w = op.split()
    return w[0] != "R" and len(w) > 5


# ---------------------------------------------------------------------------------------
# the property, evaluated on the implementation's output
# ---------------------------------------------------------------------------------------
def show_val(tag, a, off):
    t = bytes([tag])
    p = "%02x:" % tag
    if t in W32:
        return p + "%08x" % a
    if t in W64:
        return p + "%016x" % a
    if t == b"m":
        return p + "%08x" % a
    if t in b"sS":
        return p + "@%d:%s" % (off, hx(a))
    if t == b"b":
        n, d = a
        body = (b"\0" * n) if d is None else d[:n]
        return p + "%d@%d:%s" % (n, off + 4, hx(body))
    if t == b"T":
        return p + "1"
    if t == b"F":
        return p + "0"
    return p + "-"


def expected(mode, cap, addr, tags, rest, args):
    spec = encode(addr, tags, args)
    total = len(spec)
    if cap is None:
        return "r=%d z=%d b=NULL" % (total, total)
    if cap < total:
        return "r=0 z=%d b=%s" % (total, hx(b"\0" * cap))
    head = "r=%d z=%d b=%s" % (total, total, hx(spec + b"\xaa" * (cap - total)))
    # values in order, with the offsets the specification assigns
    off = len(pad_str(addr)) + len(pad_str(b"," + tags))
    vals = []
    k = 0
    for t in tags:
        tb = bytes([t])
        if tb in b"[]":
            continue
        if tb in PAYLOAD:
            vals.append(show_val(t, args[k], off))
            off += len(enc_arg(t, args[k]))
            k += 1
        else:
            vals.append(show_val(t, None, 0))
    types = bytes(t for t in tags if bytes([t]) not in b"[]")
    v = ",".join(vals) if vals else "-"
    return head + " len=%d as=%d:%s n=%d ty=%s av=%s it=%s" % (
        total, len(pad_str(addr)) + 1, hx(tags), len(types), hx(types), v, v)


def wellformed(addr, tags, args):
    if not addr or 0 in addr:
        return False
    if any(bytes([t]) not in TAGS for t in tags):
        return False
    for a in args:
        if isinstance(a, bytes) and 0 in a:
            return False
        if isinstance(a, tuple) and (a[0] < 0 or (a[1] is not None and a[0] > len(a[1]))):
            return False
    return True


def oracle(op, out):
    if out.startswith("crash"):
        return "implementation crashed: " + out
    if op.startswith("R "):
        m = re.fullmatch(r"len=(\d+)", out)
        n = len(unhx(op.split()[1]))
        if not m:
            return "unparsable output"
        if int(m.group(1)) > n:
            return "rtosc_message_length returned %s for %d bytes" % (m.group(1), n)
        return None
    mode, cap, addr, tags, rest, args = parse_op(op)
    if not wellformed(addr, tags, args):
        return None
    exp = expected(mode, cap, addr, tags, rest, args)
    if out != exp:
        # say which observable differs
        fo = dict(x.split("=", 1) for x in out.split() if "=" in x)
        fe = dict(x.split("=", 1) for x in exp.split() if "=" in x)
        bad = [k for k in fe if fo.get(k) != fe[k]]
        names = {"r": "return value", "z": "size for NULL buffer", "b": "bytes written", "len": "rtosc_message_length",
                 "as": "rtosc_argument_string", "n": "rtosc_narguments", "ty": "rtosc_type", "av": "rtosc_argument",
                 "it": "rtosc_itr_*"}
        return "OSC 1.0 codec disagrees on: " + ", ".join("%s (expected %s, got %s)" % (
            names.get(k, k), fe[k][:80], str(fo.get(k))[:80]) for k in bad[:3])
    return None


def neighbours(op, rng):
    """inputs near a disagreement: same type string, other values / modes"""
    if op.startswith("R "):
        return
    mode, cap, addr, tags, rest, args = parse_op(op)
    st = {"mode_A": 0, "mode_V": 0, "mode_M": 0, "cap_slack": 0, "cap_exact": 0, "cap_too_small": 0, "cap_null": 0,
          "with_rest": 0, "addr_mod4": [0, 0, 0, 0], "ntags_hist": [0] * 9, "tag_count": {}, "leading_bracket": 0,
          "empty_str": 0, "null_blob": 0, "f_via_double": 0}
    for m in "AVM":
        for _ in range(200):
            yield make_case(rng, st, tags, mode=m)
    for n in range(1, len(tags) + 1):
        for _ in range(20):
            yield make_case(rng, st, tags[:n])
            yield make_case(rng, st, tags[-n:])


# ---------------------------------------------------------------------------------------
# translator: the per-tag switch tables of rtosc.c -> lean/RtoscModel/Generated/OscTables.lean
# ---------------------------------------------------------------------------------------
def _switch_cases(body):
    """body of one `switch(..) {..}`: list of (case characters, statements) groups."""
    groups = []
    cur = []
    pos = 0
    for m in re.finditer(r"case\s+'(\\?.)'\s*:|default\s*:", body):
        stmts = body[pos:m.start()].strip()
        if stmts and cur:
            groups.append((cur, stmts))
            cur = []
        cur.append(m.group(1) if m.group(1) else "default")
        pos = m.end()
    stmts = body[pos:].strip()
    if cur:
        groups.append((cur, stmts))
    return groups


def _func_body(src, name):
    m = re.search(r"\b%s\s*\([^;{]*\)\s*\{" % re.escape(name), src)
    if not m:
        raise ValueError("function %s not found" % name)
    i = m.end()
    depth = 1
    while depth:
        c = src[i]
        depth += c == "{"
        depth -= c == "}"
        i += 1
    return src[m.end():i - 1]


def _switches(body):
    out = []
    for m in re.finditer(r"switch\s*\([^)]*\)\s*\{", body):
        i = m.end()
        depth = 1
        while depth:
            c = body[i]
            depth += c == "{"
            depth -= c == "}"
            i += 1
        out.append(body[m.end():i - 1])
    return out


def translate_tables():
    import vlib
    src = open(os.path.join(vlib.REPO, "src/rtosc.c")).read()
    src = re.sub(r"//[^\n]*", "", src)
    src = re.sub(r"/\*.*?\*/", "", src, flags=re.S)

    def table(func, which, classify):
        sw = _switches(_func_body(src, func))[which]
        rows = []
        for chars, stmts in _switch_cases(sw):
            v = classify(stmts)
            for c in chars:
                if c != "default":
                    rows.append((ord(c), v))
        return sorted(rows)

    def cls_reserved(st):
        m = re.search(r"return\s+(\d)", st)
        return int(m.group(1))

    def cls_size(st):                      # vsosc_null / ring_length: pos += 8 / 4 / string / blob
        if re.search(r"pos\s*\+=\s*8", st):
            return 8
        if "strlen" in st or re.search(r"while\s*\(\s*deref\(", st):
            return 1                       # string
        if re.search(r"b\.len|i\s*\|=", st):
            return 2                       # blob
        if re.search(r"pos\s*\+=\s*4\s*;", st):
            return 4
        return 0

    def cls_argsize(st):
        m = re.search(r"return\s+(\d)\s*;", st)
        if m:
            return int(m.group(1))
        if "blob_length" in st:
            return 2
        if "while" in st:
            return 1
        return 0

    def cls_write(st):
        n = len(re.findall(r"buffer\[pos\+\+\]\s*=", st))
        if "b.len" in st or "b.data" in st:
            return 2
        if re.search(r"while\s*\(\s*\*s\s*\)", st):
            return 1
        return n                           # 8 / 4 stores

    def cls_extract(st):
        n = len(re.findall(r"\*arg_pos\+\+", st))
        if "b.data" in st:
            return 2
        if "result.s" in st:
            return 1
        return n

    tabs = {
        "hasReservedTab": table("has_reserved", 0, cls_reserved),
        "argSizeTab": table("arg_size", 0, cls_argsize),
        "sizeNullTab": table("vsosc_null", 0, cls_size),
        "writeTab": table("rtosc_amessage", 0, cls_write),
        "extractTab": table("extract_arg", 1, cls_extract),
        "ringLengthTab": table("rtosc_message_ring_length", 0, cls_size),
    }
    for k, rows in tabs.items():
        if not rows:
            raise ValueError("table %s came out empty" % k)
    lines = ["/-", "  GENERATED by tools/props/c01.py (translate_tables) from src/rtosc.c — do not edit.",
             "  One row per `case` label of the per-tag switch statements: (tag, class) with class",
             "  8 / 4 = fixed payload of that many bytes, 1 = NUL-terminated padded string, 2 = blob,",
             "  0 = no payload; for `has_reserved` the class is the returned value.", "-/",
             "namespace Rtosc.Osc.Generated", ""]
    for k, rows in tabs.items():
        lines.append("def %s : List (Nat × Nat) := [%s]" % (k, ", ".join("(%d, %d)" % r for r in rows)))
    lines += ["", "end Rtosc.Osc.Generated", ""]
    txt = "\n".join(lines)
    path = os.path.join(VERIF, "lean", "RtoscModel", "Generated", "OscTables.lean")
    os.makedirs(os.path.dirname(path), exist_ok=True)
    old = open(path).read() if os.path.exists(path) else None
    if old != txt:
        with open(path, "w") as f:
            f.write(txt)
        return "OscTables.lean regenerated (changed)"
    return "OscTables.lean regenerated (unchanged)"


TRANSLATORS = [translate_tables]
